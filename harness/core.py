"""Shared check logic: streams, correspondence, direct oracles, known findings, verdict, evidence.

A property module (harness/props/cXX.py) declares
    ID, LEAN_MODULE, TRANSLATE, TRUSTED_BASE, ASSUMPTIONS, RULE, streams(ctx) -> [Stream]
and optionally  extra(ctx)  for work that does not fit the stream shape.

Verdict (DESIGN.md section 5):
  1. regenerate Gen/ (if TRANSLATE), lake build, audit axioms      -> proof_ok / broken obligations
  2. every stream: cases -> implementation observation, model observation (Lean driver), compare
  3. the same cases through the stream's direct oracle (the property stated on the real API)
  4. known findings (committed file, exact signatures) are printed and suppressed
  5. unlisted concrete violation            -> VIOLATION property=.. replay=..            exit 1
     broken proof / unexplained disagreement -> intensified search; found -> as above;
                                               none -> VIOLATION .. no-failing-input-found exit 1
     otherwise exit 0
"""
from __future__ import annotations

import hashlib
import json
import multiprocessing
import os
import signal
import sys
import time
import traceback
from collections import Counter
from pathlib import Path

from . import lean
from .prng import Rng

ROOT = Path(__file__).resolve().parent.parent
KNOWN_FILE = ROOT / "known_findings.json"


def jdump(x) -> str:
    return json.dumps(x, sort_keys=True, separators=(",", ":"), ensure_ascii=True, default=repr)


class Stream:
    """One correspondence stream. Subclass and override."""

    name = "stream"
    exhaustive = False  # the case list enumerates a finite space completely
    parallel = False  # implementation side may be mapped over a process pool
    has_model = True

    def cases(self, ctx) -> list:
        return []

    def impl(self, case):
        """Run the real implementation; return a canonical JSON-able observation."""
        raise NotImplementedError

    def line(self, case):
        """JSON line for the Lean driver (None: no model side for this case)."""
        return None

    def line_obs(self, case, obs):
        """Driver line computed from the case *and* the implementation's observation (e.g. a logged history)."""
        return self.line(case)

    def canon_model(self, case, mobs):
        return mobs

    def compare_view(self, case, obs):
        """The part of the implementation's observation that the model must reproduce."""
        return obs

    def oracle(self, case, obs):
        """Direct statement of the property on an observation. None if it holds, else (signature, detail)."""
        return None

    def nontrivial(self, case, obs) -> bool:
        return True

    def tags(self, case, obs) -> list:
        return []

    def shrink_candidates(self, case):
        """Smaller variants of a failing case (generic JSON shrinking by default)."""
        return generic_shrinks(case)


def generic_shrinks(x):
    """Yield structurally smaller JSON values."""
    if isinstance(x, list):
        for i in range(len(x)):
            yield x[:i] + x[i + 1 :]
        for i, e in enumerate(x):
            for s in generic_shrinks(e):
                yield x[:i] + [s] + x[i + 1 :]
    elif isinstance(x, dict):
        for k in list(x):
            for s in generic_shrinks(x[k]):
                d = dict(x)
                d[k] = s
                yield d
    elif isinstance(x, bool):
        return
    elif isinstance(x, int):
        if x != 0:
            yield 0
            if abs(x) > 1:
                yield x // 2
                yield x - 1 if x > 0 else x + 1
    elif isinstance(x, str):
        if x:
            yield x[: len(x) // 2]
            yield x[1:]
            yield x[:-1]


_POOL_STREAMS: dict = {}


def _pool_call(args):
    key, case = args
    try:
        # plain JSON types only: str/int subclasses of the implementation must not cross the pipe
        return json.loads(jdump(_POOL_STREAMS[key].impl(case)))
    except BaseException as e:  # the adapter itself failed: surface it, never hide it
        return {"harness_error": f"{type(e).__name__}: {e}", "tb": traceback.format_exc()[-600:]}


class Ctx:
    def __init__(self, prop, tier: str, seed: int):
        self.prop = prop
        self.tier = tier
        self.seed = seed
        self.rng = Rng(seed, prop.ID)
        self.driver = lean.Driver()
        self.evaluations = 0
        self.nontrivial_hashes: set = set()
        self.samples: list = []
        self.dist: Counter = Counter()
        self.per_stream: dict = {}
        self.disagreements: list = []
        self.violations: list = []
        self.traces_validated = 0
        self.exhaustive_streams: list = []
        self.notes: list = []
        self.extra_coverage: dict = {}
        self.intensified = False

    def scale(self, quick, thorough):
        return thorough if self.tier == "thorough" else quick

    def rng_for(self, label: str) -> Rng:
        return Rng(self.seed, self.prop.ID + "/" + label)

    # ---- recording -------------------------------------------------------------------------
    def record(self, stream: str, case, nontrivial: bool, tags=()):
        self.evaluations += 1
        ps = self.per_stream.setdefault(stream, {"evaluations": 0, "nontrivial": 0})
        ps["evaluations"] += 1
        if nontrivial:
            h = hashlib.blake2b((stream + jdump(case)).encode(), digest_size=8).digest()
            if h not in self.nontrivial_hashes:
                self.nontrivial_hashes.add(h)
                ps["nontrivial"] += 1
        for t in tags:
            self.dist[f"{stream}:{t}"] += 1

    def sample(self, stream: str, case, obs=None, cap: int = 3):
        n = sum(1 for s in self.samples if s["stream"] == stream)
        if n < cap:
            s = {"stream": stream, "case": case}
            if obs is not None:
                s["observed"] = obs
            self.samples.append(json.loads(jdump(s))) if len(jdump(s)) < 4000 else None

    def disagree(self, stream: str, case, impl_obs, model_obs):
        self.disagreements.append({"stream": stream, "case": case, "impl": impl_obs, "model": model_obs})

    def violate(self, stream: str, case, signature: str, detail, obs=None):
        self.violations.append({"stream": stream, "case": case, "signature": signature, "detail": detail, "observed": obs})

    # ---- generic stream runner -------------------------------------------------------------
    def run_stream(self, st: Stream):
        cases = list(st.cases(self))
        if not cases:
            return
        # implementation side
        if st.parallel and len(cases) >= 64:
            key = f"{self.prop.ID}/{st.name}"
            _POOL_STREAMS[key] = st
            nproc = min(16, os.cpu_count() or 1)
            with multiprocessing.get_context("fork").Pool(nproc) as pool:
                impl_obs = pool.map(_pool_call, [(key, c) for c in cases], chunksize=max(1, len(cases) // (nproc * 8)))
        else:
            impl_obs = []
            for c in cases:
                try:
                    impl_obs.append(json.loads(jdump(st.impl(c))))
                except BaseException as e:
                    if isinstance(e, (KeyboardInterrupt, SystemExit)):
                        raise
                    impl_obs.append({"harness_error": f"{type(e).__name__}: {e}", "tb": traceback.format_exc()[-600:]})
        # model side
        lines, idx = [], []
        if st.has_model:
            for i, c in enumerate(cases):
                if isinstance(impl_obs[i], dict) and "harness_error" in impl_obs[i]:
                    continue
                l = st.line_obs(c, impl_obs[i])
                if l is not None:
                    lines.append(l)
                    idx.append(i)
        model_obs = {}
        if lines:
            outs = self.driver.batch(lines)
            for i, o in zip(idx, outs):
                model_obs[i] = st.canon_model(cases[i], o)
        # compare + oracle
        for i, c in enumerate(cases):
            obs = impl_obs[i]
            if isinstance(obs, dict) and "harness_error" in obs:
                self.notes.append(f"harness error in {st.name}: {obs['harness_error']} on {jdump(c)[:200]}")
                self.disagree(st.name, c, obs, "harness-error")
                self.record(st.name, c, False, ["harness_error"])
                continue
            try:
                nt = bool(st.nontrivial(c, obs))
                tags = list(st.tags(c, obs))
            except Exception:
                nt, tags = False, ["tag_error"]
            self.record(st.name, c, nt, tags)
            self.sample(st.name, c, obs)
            if i in model_obs:
                self.traces_validated += 1
                view = st.compare_view(c, obs)
                if jdump(model_obs[i]) != jdump(view):
                    self.disagree(st.name, c, view, model_obs[i])
            v = st.oracle(c, obs)
            if v is not None:
                self.violate(st.name, c, v[0], v[1], obs)
        if st.exhaustive:
            self.exhaustive_streams.append(st.name)


# ---- known findings ---------------------------------------------------------------------------
def load_known(prop_id: str) -> list:
    if not KNOWN_FILE.exists():
        return []
    data = json.loads(KNOWN_FILE.read_text())
    return [f for f in data.get("findings", []) if f.get("property") == prop_id]


def shrink(st: Stream, case, signature: str, budget: int = 400):
    """Delta-debug a failing case against the direct oracle, keeping the same signature."""
    cur = case
    tried = 0
    improved = True
    while improved and tried < budget:
        improved = False
        for cand in st.shrink_candidates(cur):
            tried += 1
            if tried > budget:
                break
            try:
                obs = st.impl(cand)
                v = st.oracle(cand, obs)
            except BaseException:
                continue
            if v is not None and v[0] == signature:
                cur = cand
                improved = True
                break
    return cur


# ---- main entry -------------------------------------------------------------------------------
def _timeout_handler(signum, frame):
    print("TIMEOUT: check exceeded its time budget (exit 2, not a violation)", flush=True)
    os._exit(2)


def run_check(prop, tier: str, seed: int, replay_path: str | None = None) -> int:
    t0 = time.time()
    budget = int(os.environ.get("VERIF_TIMEOUT_S", "1500" if tier == "quick" else "7200"))
    signal.signal(signal.SIGALRM, _timeout_handler)
    signal.alarm(budget)
    os.environ.setdefault("LIQUID_VERIF", "1")

    ctx = Ctx(prop, tier, seed)
    streams = {s.name: s for s in prop.streams(ctx)}

    if replay_path:
        return do_replay(prop, ctx, streams, replay_path)

    # 1. proof side -----------------------------------------------------------------------------
    targets = [prop.LEAN_MODULE] + list(getattr(prop, "EXTRA_LEAN_TARGETS", []))
    b = lean.build(targets, translate=getattr(prop, "TRANSLATE", False))
    props_file = lean.LEAN_DIR / (prop.LEAN_MODULE.replace(".", "/") + ".lean")
    namespace = getattr(prop, "LEAN_NAMESPACE", "LiquidVerif." + prop.ID)
    theorems = lean.theorems_in(props_file, namespace) if props_file.exists() else []
    for extra_mod, extra_ns in getattr(prop, "EXTRA_THEOREM_FILES", []):
        f = lean.LEAN_DIR / (extra_mod.replace(".", "/") + ".lean")
        if f.exists():
            theorems += lean.theorems_in(f, extra_ns)
    ax = lean.audit(prop.LEAN_MODULE, theorems) if prop.LEAN_MODULE not in b.broken else {t: None for t in theorems}
    discharged = 0
    broken = list(b.broken)
    bad_axioms = {}
    for t, axs in ax.items():
        if axs is None:
            broken.append(t)
        elif not set(axs) <= lean.ALLOWED_AXIOMS:
            bad_axioms[t] = axs
            broken.append(t + " (axioms: " + ",".join(axs) + ")")
        else:
            discharged += 1
    forb = lean.forbidden_scan(lean.transitive_sources(prop.LEAN_MODULE))
    if forb:
        broken += ["forbidden token: " + h for h in forb]
    proof_ok = not broken and len(theorems) > 0
    if not theorems:
        broken.append("no theorems found in " + prop.LEAN_MODULE)

    # 2./3. correspondence + oracle ------------------------------------------------------------
    if not ctx.driver.available():
        ctx.notes.append("driver executable missing; model side unavailable")
    for st in streams.values():
        ctx.run_stream(st)
    if hasattr(prop, "extra"):
        prop.extra(ctx)

    # 4. known findings -------------------------------------------------------------------------
    known = load_known(prop.ID)
    known_sigs = {f["signature"] for f in known if f.get("status") == "known"}
    reproduced = []
    for f in known:
        if f.get("status") != "known":
            continue
        w = f.get("witness") or {}
        st = streams.get(w.get("stream"))
        hit = False
        if st is not None:
            try:
                obs = st.impl(w["case"])
                v = st.oracle(w["case"], obs)
                hit = v is not None and v[0] == f["signature"]
            except BaseException as e:
                ctx.notes.append(f"known-finding witness failed to run: {e}")
        if hit:
            print(f"KNOWN-FINDING: property={prop.ID} {f['signature']} — {f.get('what', '')}", flush=True)
            reproduced.append(f["signature"])
        else:
            print(f"note: known-finding-not-reproduced property={prop.ID} {f['signature']}", flush=True)

    def unlisted(vs):
        return [v for v in vs if v["signature"] not in known_sigs]

    new_viol = unlisted(ctx.violations)

    def explained(d) -> bool:
        # model still mirrors a listed defect which the implementation no longer shows
        st = streams.get(d["stream"])
        if st is None or d["model"] == "harness-error":
            return False
        try:
            vm = st.oracle(d["case"], d["model"])
            vi = st.oracle(d["case"], d["impl"])
        except Exception:
            return False
        return vm is not None and vm[0] in known_sigs and vi is None

    unexplained = [d for d in ctx.disagreements if not explained(d)]

    # 5. verdict --------------------------------------------------------------------------------
    rc = 0
    replay_file = None
    if not new_viol and (not proof_ok or unexplained):
        # intensified failing-input search on the implementation
        ctx.intensified = True
        rounds = ctx.scale(3, 6)
        search_budget = ctx.scale(150, 900)
        ts = time.time()
        for k in range(1, rounds + 1):
            sub = Ctx(prop, tier, seed * 1000 + k)
            sub_streams = {s.name: s for s in prop.streams(sub)}
            for st in sub_streams.values():
                if st.exhaustive:
                    continue  # already enumerated completely; a new seed adds nothing
                sub.run_stream(st)
            ctx.evaluations += sub.evaluations
            ctx.traces_validated += sub.traces_validated
            ctx.nontrivial_hashes |= sub.nontrivial_hashes
            nv = unlisted(sub.violations)
            if nv:
                new_viol = nv
                break
            if time.time() - ts > search_budget:
                break
        # targeted neighbours of each disagreement
        if not new_viol:
            for d in unexplained[:50]:
                st = streams.get(d["stream"])
                if st is None:
                    continue
                for cand in list(st.shrink_candidates(d["case"]))[:60]:
                    try:
                        obs = st.impl(cand)
                        v = st.oracle(cand, obs)
                    except BaseException:
                        continue
                    ctx.evaluations += 1
                    if v is not None and v[0] not in known_sigs:
                        new_viol = [{"stream": d["stream"], "case": cand, "signature": v[0], "detail": v[1], "observed": obs}]
                        break
                if new_viol:
                    break

    (ROOT / "replay").mkdir(exist_ok=True)
    if new_viol:
        v = new_viol[0]
        st = streams.get(v["stream"])
        case = v["case"]
        if st is not None:
            try:
                case = shrink(st, case, v["signature"])
            except BaseException:
                pass
        replay_file = ROOT / "replay" / (prop.ID + "-" + "".join(ch if (ch.isalnum() or ch in "-.") else "_" for ch in v["signature"][:48]) + ".json")
        rec = {
            "property": prop.ID,
            "kind": "failing-input",
            "stream": v["stream"],
            "case": case,
            "original_case": v["case"],
            "signature": v["signature"],
            "detail": v["detail"],
            "observed": v.get("observed"),
            "seed": seed,
            "tier": tier,
            "other_signatures": sorted({x["signature"] for x in new_viol})[:20],
            "proof_broken": broken,
            "disagreements": len(unexplained),
            "replay_cmd": f"./check {prop.ID} --replay replay/{replay_file.name}",
        }
        replay_file.write_text(json.dumps(rec, indent=1, default=repr))
        print(f"VIOLATION property={prop.ID} replay=replay/{replay_file.name}", flush=True)
        rc = 1
    elif not proof_ok or unexplained:
        replay_file = ROOT / "replay" / f"{prop.ID}-unproved.json"
        rec = {
            "property": prop.ID,
            "kind": "no-failing-input-found",
            "no_longer_checks": broken,
            "build_errors": b.errors[:20],
            "correspondence_streams_disagreeing": sorted({d["stream"] for d in unexplained}),
            "first_disagreements": unexplained[:5],
            "seed": seed,
            "tier": tier,
            "searched_evaluations": ctx.evaluations,
        }
        replay_file.write_text(json.dumps(rec, indent=1, default=repr))
        print(f"VIOLATION property={prop.ID} replay=replay/{replay_file.name} no-failing-input-found", flush=True)
        rc = 1

    # evidence ------------------------------------------------------------------------------------
    wall = time.time() - t0
    ev = {
        "property_id": prop.ID,
        "tier": tier,
        "seed": seed,
        "level": "proof",
        "coverage": {
            "obligations": max(len(theorems), 1),
            "discharged": discharged,
            "checker_cmd": f"cd lean && lake build {prop.LEAN_MODULE} && lake env lean <#print axioms of every theorem in {prop.LEAN_MODULE}>"
            + (" ; thorough: lake env leanchecker " + prop.LEAN_MODULE if tier == "thorough" else ""),
            "trusted_base": list(prop.TRUSTED_BASE),
            "theorems": {t: ax.get(t) for t in theorems},
            "no_longer_checks": broken,
            "translator_regenerated": bool(getattr(prop, "TRANSLATE", False)),
            "evaluations": ctx.evaluations,
            "distinct_nontrivial": len(ctx.nontrivial_hashes),
            "rule": prop.RULE,
            "samples": ctx.samples[:12] or [{"note": "no stream cases"}],
            "traces_validated_against_impl": ctx.traces_validated,
            "exhaustive": bool(ctx.exhaustive_streams) and len(ctx.exhaustive_streams) == len(streams),
            "exhaustive_streams": ctx.exhaustive_streams,
            "per_stream": ctx.per_stream,
            "distribution": dict(sorted(ctx.dist.items())),
            "disagreements": len(ctx.disagreements),
            "unexplained_disagreements": len(unexplained),
            "known_findings_reproduced": reproduced,
            "intensified_search": ctx.intensified,
            "lean_build_s": round(b.wall_s, 2),
            "notes": ctx.notes[:20],
            **ctx.extra_coverage,
        },
        "assumptions": list(prop.ASSUMPTIONS),
        "wall_s": round(wall, 2),
        "violations": len(new_viol) if rc else 0,
    }
    (ROOT / "evidence").mkdir(exist_ok=True)
    (ROOT / "evidence" / f"{prop.ID}.json").write_text(json.dumps(ev, indent=1, default=repr))

    if tier == "thorough" and proof_ok and rc == 0 and os.environ.get("VERIF_LEANCHECKER", "1") == "1":
        import subprocess

        p = subprocess.run(["lake", "env", "leanchecker", prop.LEAN_MODULE], cwd=lean.LEAN_DIR, capture_output=True, text=True)
        if p.returncode != 0:
            print("leanchecker rejected " + prop.LEAN_MODULE + ": " + (p.stdout + p.stderr)[-500:])
            rf = ROOT / "replay" / f"{prop.ID}-unproved.json"
            rf.write_text(json.dumps({"property": prop.ID, "kind": "no-failing-input-found", "no_longer_checks": ["leanchecker " + prop.LEAN_MODULE], "output": (p.stdout + p.stderr)[-2000:]}, indent=1))
            print(f"VIOLATION property={prop.ID} replay=replay/{rf.name} no-failing-input-found", flush=True)
            rc = 1

    print(
        f"{prop.ID} tier={tier} seed={seed}: theorems {discharged}/{len(theorems)} ok, "
        f"{ctx.evaluations} evaluations ({len(ctx.nontrivial_hashes)} distinct non-trivial), "
        f"{ctx.traces_validated} model/impl comparisons, {len(ctx.disagreements)} disagreements, "
        f"{len(ctx.violations)} oracle failures ({len(ctx.violations) - len(unlisted(ctx.violations))} known), "
        f"wall {wall:.1f}s -> exit {rc}",
        flush=True,
    )
    signal.alarm(0)
    return rc


def do_replay(prop, ctx: Ctx, streams: dict, path: str) -> int:
    p = Path(path)
    if not p.is_absolute():
        p = ROOT / p
    rec = json.loads(p.read_text())
    if rec.get("kind") == "no-failing-input-found":
        print("replay: this record names obligations/streams that no longer check; re-running the quick check")
        return run_check(prop, "quick", rec.get("seed", 0))
    st = streams.get(rec["stream"])
    if st is None:
        print(f"replay: unknown stream {rec['stream']}")
        return 2
    lean.build([], translate=False)
    obs = st.impl(rec["case"])
    v = st.oracle(rec["case"], obs)
    line = st.line_obs(rec["case"], obs) if st.has_model else None
    mobs = None
    if line is not None and ctx.driver.available():
        mobs = st.canon_model(rec["case"], ctx.driver.batch([line])[0])
    print("case:    ", jdump(rec["case"]))
    print("observed:", jdump(obs))
    if mobs is not None:
        print("model:   ", jdump(mobs))
    if v is not None:
        print(f"oracle:   FAILS  signature={v[0]}  {v[1]}")
        if v[0] in {f["signature"] for f in load_known(prop.ID) if f.get("status") == "known"}:
            print(f"KNOWN-FINDING: property={prop.ID} {v[0]}")
            return 0
        print(f"VIOLATION property={prop.ID} replay={path}")
        return 1
    print("oracle:   holds")
    return 0
