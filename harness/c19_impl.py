"""C19 adapters: run the real static analysis and real renders (with the guarded trace hook), derive

* the *interface tree* the Lean model consumes (what `_visit` sees of every node: token, expressions(),
  template_scope(), block_scope(), partial_scope(), children()),
* the dynamic trace: every variable lookup (root, template, token index, resolving namespace, enclosing
  dynamic partial chain), every filter application, every rendered tag,
* an *independent* textual classification of every traced lookup (inside a block binding the name /
  preceded in source order by an assignment to it), computed by reflection over the parsed AST
  (slot values), not through expressions()/block_scope()/template_scope().

`liquid` is imported inside functions only.
"""
from __future__ import annotations

import os
import sys
import warnings

MAX_TREE = 2500  # expanded interface-tree nodes; bigger programs stay outside the model


# ------------------------------------------------------------------------------------------------
# reflection helpers (independent of the analysis interface)
# ------------------------------------------------------------------------------------------------
def _slots(obj):
    seen = []
    for k in reversed(type(obj).__mro__):
        for s in getattr(k, "__slots__", ()):
            if s not in seen:
                seen.append(s)
    for s in getattr(obj, "__dict__", {}) or {}:
        if s not in seen:
            seen.append(s)
    return seen


def child_nodes(node):
    """Nodes held directly in the slots of `node`, in slot order (= source order for every built-in tag)."""
    from liquid.ast import Node

    out = []
    for s in _slots(node):
        if s in ("token", "blank"):
            continue
        v = getattr(node, s, None)
        if isinstance(v, Node):
            out.append(v)
        elif isinstance(v, (list, tuple)):
            out.extend(x for x in v if isinstance(x, Node))
    return out


def own_paths(node):
    """Every Path object reachable from the slots of `node` without passing through a child Node."""
    from liquid.ast import Node
    from liquid.builtin.expressions import Path
    from liquid.token import Token

    out = []
    seen = set()

    def go(o, depth):
        if o is None or depth > 12 or isinstance(o, (str, int, float, bool, bytes, Token, Node)):
            return
        if id(o) in seen:
            return
        seen.add(id(o))
        if isinstance(o, Path):
            out.append(o)
            for seg in o.path:
                go(seg, depth + 1)
            return
        if isinstance(o, (list, tuple, set, frozenset)):
            for x in o:
                go(x, depth + 1)
            return
        if isinstance(o, dict):
            for x in o.values():
                go(x, depth + 1)
            return
        mod = type(o).__module__ or ""
        if mod.startswith("liquid."):
            for s in _slots(o):
                if s in ("token", "env"):
                    continue
                try:
                    go(getattr(o, s), depth + 1)
                except AttributeError:
                    pass

    for s in _slots(node):
        if s in ("token", "blank"):
            continue
        v = getattr(node, s, None)
        go(v, 0)
    return out


def binding_names(node):
    """(names bound for the node's block, names assigned into the template scope) — by node class."""
    cn = type(node).__name__
    if cn == "ForNode":
        return [str(node.expression.identifier), "forloop"], []
    if cn == "TablerowNode":
        return [str(node.expression.identifier), "tablerowloop"], []
    if cn == "WithNode":
        return [str(a.name) for a in node.args], []
    if cn == "MacroNode":
        return ["args", "kwargs"] + [str(k) for k in node.args], []
    if cn in ("AssignNode", "CaptureNode", "IncrementNode", "DecrementNode", "SnippetNode"):
        return [], [str(node.name)]
    return [], []


def partial_info(node):
    """None, or (kind, literal name | None, names bound for the partial) for include/render nodes."""
    cn = type(node).__name__
    if cn not in ("IncludeNode", "RenderNode"):
        return None
    from liquid.builtin.expressions import Literal

    name = node.name
    lit = None
    if isinstance(name, Literal) and isinstance(name.value, str):
        lit = name.value
    names = [str(a.name) for a in node.args]
    if node.var is not None:
        if node.alias:
            names.append(str(node.alias))
        elif lit is not None:
            names.append(lit.split(".", 1)[0])
    return ("render" if cn == "RenderNode" else "include"), lit, names


# ------------------------------------------------------------------------------------------------
# textual context of every node of every template (independent of the analysis)
# ------------------------------------------------------------------------------------------------
def _impl_path_positions(node):
    from liquid.builtin.expressions import Path

    out = []

    def go(e):
        if isinstance(e, Path):
            out.append(int(e.token.start_index))
        for c in e.children():
            go(c)

    for e in node.expressions():
        go(e)
    return out


def node_key(tmpl, node):
    return (tmpl, int(node.token.start_index), type(node).__name__)


class Textual:
    def __init__(self, env, root_name, root_template):
        self.env = env
        self.templates = {root_name: root_template}
        self.root_name = root_name
        self.info = {}  # node_key -> (bound names, names assigned before the node)
        self.owner = {}  # (template, path token index) -> node_key
        self.dynroot = set()  # (template, path token index) of paths whose first segment is itself a path
        self.walk_missing = []  # references the implementation's expression view has and the reflection walk lacks
        self.walked = set()
        self._all = {}
        self.sites = {}  # partial name -> number of include/render nodes naming it in the expanded program
        self.include_under_isolation = False
        self.site_detail = {}  # partial name -> distinct [kind, argument names, bound variable name(s)]

    def template(self, name):
        if name not in self.templates:
            try:
                with warnings.catch_warnings():
                    warnings.simplefilter("ignore")
                    self.templates[name] = self.env.get_template(name)
            except Exception:
                self.templates[name] = None
        return self.templates[name]

    def assigned_all(self, name, stack=()):
        """Every name assigned anywhere in template `name`, shared partials expanded (not isolated ones)."""
        if name in self._all:
            return self._all[name]
        if name in stack:
            return set()
        t = self.template(name)
        out = set()
        if t is not None:
            def go(node):
                out.update(binding_names(node)[1])
                for c in child_nodes(node):
                    go(c)
                pi = partial_info(node)
                if pi and pi[0] == "include" and pi[1] is not None:
                    out.update(self.assigned_all(pi[1], stack + (name,)))

            for n in t.nodes:
                go(n)
        if not stack:
            self._all[name] = out
        return out

    def ensure(self, name):
        """Textual context of every node of template `name` (independent of how the template is reached)."""
        if name in self.walked:
            return
        self.walked.add(name)
        t = self.template(name)
        if t is None:
            return
        assigned = []

        def go(node, bound):
            k = node_key(name, node)
            self.info.setdefault(k, (frozenset(bound), frozenset(assigned)))
            for p in own_paths(node):
                self.owner.setdefault((name, int(p.token.start_index)), k)
                if not isinstance(p.path[0], str):
                    self.dynroot.add((name, int(p.token.start_index)))
            # self-check: every Path the implementation's own expressions()/children() view contains must have
            # been found by the reflection walk (filter arguments, keyword arguments, ternary branches, loop
            # options, include/render arguments, nested paths …)
            try:
                for ipos in _impl_path_positions(node):
                    if (name, ipos) not in self.owner:
                        self.walk_missing.append([name, ipos, type(node).__name__])
            except Exception as e:  # an expression the helper cannot traverse: a real inability, reported
                self.walk_missing.append([name, -1, type(node).__name__ + ":" + type(e).__name__])
            b, a = binding_names(node)
            assigned.extend(a)
            for c in child_nodes(node):
                go(c, bound + b)
            pi = partial_info(node)
            if pi is not None and pi[0] == "include" and pi[1] is not None:
                assigned.extend(self.assigned_all(pi[1]))

        for n in t.nodes:
            go(n, [])

    def scan_program(self, limit=4000):
        """Expanded walk from the root: how often each partial name is reached; any include below isolation."""
        budget = [limit]

        def go(node, dead, stack):
            budget[0] -= 1
            if budget[0] < 0:
                return
            pi = partial_info(node)
            inner = dead or type(node).__name__ == "MacroNode"
            for c in child_nodes(node):
                go(c, inner, stack)
            if pi is not None and pi[1] is not None:
                kind, lit, _ = pi
                self.sites[lit] = self.sites.get(lit, 0) + 1
                d = [kind, [str(a.name) for a in node.args], pi[2][len(node.args):]]
                if d not in self.site_detail.setdefault(lit, []):
                    self.site_detail[lit].append(d)
                if kind == "include" and dead:
                    self.include_under_isolation = True
                if lit not in stack:
                    t = self.template(lit)
                    if t is not None:
                        for n in t.nodes:
                            go(n, dead or kind == "render", stack + (lit,))

        t = self.template(self.root_name)
        for n in t.nodes:
            go(n, False, (self.root_name,))

    def excused(self, root, tmpl, pos, chain):
        """Is the reference (template, path index) of `root`, reached through the dynamic partial chain
        [(template of the partial node, node)…], textually inside a block binding `root` or preceded by an
        assignment to it?  Shared partials (include) continue the text of the including template; isolated
        ones (render) see only their arguments."""
        k = self.owner.get((tmpl, pos))
        if k is None:
            return None
        chain = list(chain)
        while True:
            inf = self.info.get(k)
            if inf is None:
                return None
            bound, before = inf
            if root in bound or root in before:
                return True
            if not chain:
                return False
            site_tmpl, site = chain.pop()
            pi = partial_info(site)
            if pi is None:
                return None
            if root in pi[2]:
                return True
            if pi[0] == "render":
                return False
            self.ensure(site_tmpl)
            k = node_key(site_tmpl, site)


# ------------------------------------------------------------------------------------------------
# the interface tree for the Lean model
# ------------------------------------------------------------------------------------------------
class OutsideModel(Exception):
    pass


def _segs(path):
    return [_segs(p) if hasattr(p, "path") else p for p in path.path]


def _expr_view(expr):
    """([root, index] of every Path in `_analyze_variables` order, filter names in `_extract_filters` order)."""
    from liquid.builtin.expressions import FilteredExpression, Path, TernaryFilteredExpression

    refs = []
    filters = []

    def paths(e):
        if isinstance(e, Path):
            head = e.path[0]
            # `_analyze_variables` files a Variable under str(segments[0]); for a path rooted in a path
            # (`[x].y`) that is the str() of the nested segment list — reproduced here, not taken from the code
            refs.append([str(_segs(head) if isinstance(head, Path) else head), e.token.start_index])
        if e.scope():
            raise OutsideModel("expression-scope")
        for c in e.children():
            paths(c)

    def filts(e):
        if isinstance(e, TernaryFilteredExpression):
            filts(e.left)
            filters.extend(f.name for f in (e.filters or []))
            filters.extend(f.name for f in (e.tail_filters or []))
        if isinstance(e, FilteredExpression) and e.filters:
            filters.extend(f.name for f in e.filters)
        for c in e.children():
            filts(c)

    paths(expr)
    filts(expr)
    return [refs, filters]


def interface_tree(template, root_name):
    """The expanded tree of analysis interfaces, or raises OutsideModel."""
    from liquid import RenderContext
    from liquid.ast import BlockNode, ConditionalBlockNode, PartialScope
    from liquid.builtin.tags.case_tag import MultiExpressionBlockNode
    from liquid.token import TOKEN_TAG

    ctx = RenderContext(template)
    count = [0]
    keys_ok = [True]

    def hdr(node):
        tag = None
        idx = 0
        if node.token.kind == TOKEN_TAG and not isinstance(node, (BlockNode, ConditionalBlockNode, MultiExpressionBlockNode)):
            tag, idx = str(node.token.value), int(node.token.start_index)
        exprs = [_expr_view(e) for e in node.expressions()]
        return [tag, idx, exprs, [str(i) for i in node.template_scope()], [str(i) for i in node.block_scope()],
                type(node).__name__ == "MacroNode"]

    def go(node, stack):
        count[0] += 1
        if count[0] > MAX_TREE:
            raise OutsideModel("too-big")
        p = node.partial_scope()
        if p is None:
            return ["n", hdr(node), [go(c, stack) for c in node.children(ctx, include_partials=True)]]
        if p.scope not in (PartialScope.SHARED, PartialScope.ISOLATED):
            raise OutsideModel("inherited-scope")
        if not isinstance(p.name, str):
            from liquid.builtin.expressions import Literal

            if not isinstance(p.name, Literal):
                raise OutsideModel("dynamic-partial-name")
            name = str(p.name.evaluate(ctx))
        else:
            name = p.name
        if name in stack:
            raise OutsideModel("recursive-partial")
        iso = p.scope == PartialScope.ISOLATED
        args = [str(a.name) for a in getattr(node, "args", [])]
        scope = [str(i) for i in p.in_scope]
        if scope[: len(args)] != args or len(scope) - len(args) > 1:
            raise OutsideModel("in-scope-shape")
        bound = scope[len(args)] if len(scope) > len(args) else None
        want = hash((name, *args)) if iso else None
        if p.key != want:
            keys_ok[0] = False  # the model's key (name, argument names) is not what the code computes
        try:
            body = [go(c, stack + (name,)) for c in node.children(ctx, include_partials=True)]
        except OutsideModel:
            raise
        return ["p", hdr(node), iso, name, args, bound, body]

    tree = [go(n, (root_name,)) for n in template.nodes]
    return tree, keys_ok[0]


# ------------------------------------------------------------------------------------------------
# observation
# ------------------------------------------------------------------------------------------------
def _analysis_view(an):
    def locs(m):
        return sorted([str(k), str(v.span.template_name), int(v.span.index)] for k, vs in m.items() for v in vs)

    return {
        "variables": locs(an.variables),
        "globals": locs(an.globals),
        "locals": sorted(str(k) for k, vs in an.locals.items() for _ in vs),
        "filters": sorted(str(k) for k, vs in an.filters.items() for _ in vs),
        "tags": sorted([str(k), str(s.template_name), int(s.index)] for k, vs in an.tags.items() for s in vs),
    }


def observe(prog):
    """Analyse and render one program on the real code."""
    os.environ["LIQUID_VERIF"] = "1"
    import liquid
    from liquid import _verif
    from liquid.ast import BlockNode, ConditionalBlockNode
    from liquid.builtin.tags.case_tag import MultiExpressionBlockNode
    from liquid.exceptions import LiquidError
    from liquid.token import TOKEN_TAG

    from .impl.render import make_env, outcome, run_async

    if not getattr(_verif, "ENABLED", False):
        raise RuntimeError("trace hook not enabled (LIQUID_VERIF=1 must be set before liquid is imported)")

    obs = {"parse": "ok", "an": None, "tree": None, "outside": None, "runs": [], "gets": [], "filters": [], "tags": [],
           "resolves": [], "sites": {}, "include_under_isolation": False}
    root_name = prog.get("name", "")
    try:
        with warnings.catch_warnings():
            warnings.simplefilter("ignore")
            env = make_env(prog, mode=prog.get("mode"))
            template = env.from_string(prog["source"], name=root_name)
    except LiquidError as e:
        obs["parse"] = type(e).__name__
        return obs

    a = outcome(lambda: template.analyze())
    if "ok" not in a:
        obs["an_err"] = a["err"]
        return obs
    analysis = a["ok"]
    obs["an"] = _analysis_view(analysis)
    if prog.get("async_analysis"):
        b = outcome(lambda: run_async(lambda: template.analyze_async()))
        obs["an_async_same"] = "ok" in b and _analysis_view(b["ok"]) == obs["an"]

    try:
        with warnings.catch_warnings():
            warnings.simplefilter("ignore")
            obs["tree"], obs["keys_ok"] = interface_tree(template, root_name)
    except OutsideModel as e:
        obs["outside"] = str(e)
    except LiquidError as e:
        obs["outside"] = "tree:" + type(e).__name__
    except RecursionError:
        obs["outside"] = "tree:RecursionError"

    tx = Textual(env, root_name, template)
    tx.ensure(root_name)
    tx.scan_program()
    dyn_tmpl = {}
    sources = {root_name: prog["source"]}
    sources.update(prog.get("partials") or {})

    gets = {}
    filters = set()
    tags = set()
    resolves = set()
    ast_file = os.path.join(os.path.dirname(liquid.__file__), "ast.py")

    def sink(kind, f):
        if kind == "node":
            node = f["node"]
            if partial_info(node) is not None:
                dyn_tmpl[id(node)] = str(f["template"])
            if f["token_kind"] == TOKEN_TAG and not isinstance(node, (BlockNode, ConditionalBlockNode, MultiExpressionBlockNode)):
                tags.add((str(f["tag"]), str(f["template"]), int(f["index"])))
        elif kind == "filter":
            filters.add((str(f["name"]), str(f["template"]), int(f["index"])))
        elif kind in ("get", "resolve"):
            chain = []
            fr = sys._getframe(1)
            while fr is not None:
                co = fr.f_code
                if co.co_name in ("render", "render_async") and co.co_filename == ast_file:
                    n = fr.f_locals.get("self")
                    if n is not None and partial_info(n) is not None and id(n) in dyn_tmpl:
                        chain.append((dyn_tmpl[id(n)], n))
                fr = fr.f_back
            chain.reverse()
            root = f["root"]
            if not isinstance(root, str):
                return
            tmpl, pos = str(f["template"]), int(f["index"])
            if kind == "resolve":
                resolves.add((root, tmpl, pos, str(f["origin"])))
                return
            # Which template does the reference belong to?  The hook reports context.template.name at lookup
            # time: a base name ('p0' for 'dir/p0'), and for `include 'q' with v` already the included template.
            # The token's source text and the dynamic chain decide: the template entered by chain[i] is the
            # literal name of chain[i]; a reference in it is enclosed by chain[: i + 1]; the root by nothing.
            # the template that contains chain[i] is the one chain[i-1] entered (the root for i = 0); the hook's
            # name for it is only a base name
            fixed = []
            for i, (st_name, n) in enumerate(chain):
                if i == 0:
                    fixed.append((root_name, n))
                else:
                    lit_prev = partial_info(chain[i - 1][1])[1]
                    fixed.append((lit_prev if lit_prev is not None else st_name, n))
            chain = fixed
            src = f.get("source")
            cands = []
            for i in range(len(chain) - 1, -1, -1):
                lit = partial_info(chain[i][1])[1]
                if lit is not None:
                    cands.append((lit, chain[: i + 1]))
            cands.append((root_name, []))
            for cand, ch in cands:
                tx.ensure(cand)
                if (cand, pos) in tx.owner and (src is None or sources.get(cand) == src):
                    tmpl, chain = cand, ch
                    break
            else:
                tx.ensure(tmpl)
            if chain and tx.owner.get((tmpl, pos)) == node_key(chain[-1][0], chain[-1][1]):
                chain = chain[:-1]  # an argument of the partial tag itself, evaluated in the including context
            exc = tx.excused(root, tmpl, pos, chain)
            path = f.get("path") or []
            shape = [s if isinstance(s, (str, int)) and not isinstance(s, bool) else None for s in path]
            kinds = tuple(
                partial_info(n)[0] + ":" + str(partial_info(n)[1]) + ":" + ",".join(str(a.name) for a in n.args) + ":"
                + ",".join(partial_info(n)[2][len(n.args):])
                for _, n in chain
            )
            gets.setdefault((root, tmpl, pos, str(f["origin"]), exc, kinds), (shape, (tmpl, pos) in tx.dynroot))

    old = _verif.sink
    _verif.sink = sink
    try:
        for run in prog.get("runs") or [{"data": prog.get("data") or {}}]:
            data = run.get("data") or {}
            if run.get("async"):
                r = outcome(lambda: run_async(lambda: template.render_async(**data)))
            else:
                r = outcome(lambda: template.render(**data))
            obs["runs"].append("ok" if "ok" in r else r["err"])
    finally:
        _verif.sink = old

    # static check of traced paths against the reported Variable objects
    byspan = {}
    for k, vs in analysis.variables.items():
        for v in vs:
            byspan.setdefault((str(k), str(v.span.template_name), int(v.span.index)), []).append(v.segments)
    allspans = {(str(v.span.template_name), int(v.span.index)) for vs in analysis.variables.values() for v in vs}
    for (root, tmpl, pos, origin, exc, kinds), (shape, dyn) in sorted(gets.items(), key=lambda kv: (kv[0][:4], str(kv[0][4]), kv[0][5])):
        segs = byspan.get((root, tmpl, pos))
        path_ok = None
        if segs is not None:
            path_ok = any(
                len(s) == len(shape) and all(isinstance(a, list) or b is None or a == b for a, b in zip(s, shape)) for s in segs
            )
        obs["gets"].append({"root": root, "tmpl": tmpl, "pos": pos, "origin": origin, "exc": exc, "chain": list(kinds),
                            "path_ok": path_ok, "dynroot": dyn, "span_reported": (tmpl, pos) in allspans})
    obs["filters"] = sorted(list(x) for x in filters)
    obs["tags"] = sorted(list(x) for x in tags)
    obs["resolves"] = sorted(list(x) for x in resolves)
    obs["walk_missing"] = tx.walk_missing[:10]
    bad = []
    import re as _re

    def _at(tname, idx):
        src_t = sources.get(tname)
        return None if src_t is None or idx < 0 or idx > len(src_t) else src_t[idx:]

    for k, vs in analysis.variables.items():
        for v in vs:
            rest = _at(str(v.span.template_name), int(v.span.index))
            root = v.segments[0]
            if rest is None:
                bad.append(["variable", str(k), str(v.span.template_name), int(v.span.index), "no-such-position"])
            elif isinstance(root, str) and _re.fullmatch(r"[A-Za-z_][A-Za-z0-9_-]*", root) and not (
                rest.startswith(root) or rest.startswith("['" + root) or rest.startswith('["' + root)
            ):
                bad.append(["variable", str(k), str(v.span.template_name), int(v.span.index), rest[:12]])
    for k, spans in analysis.filters.items():
        for sp in spans:
            rest = _at(str(sp.template_name), int(sp.index))
            if rest is None or not rest.startswith(str(k)):
                bad.append(["filter", str(k), str(sp.template_name), int(sp.index), (rest or "")[:12]])
    for k, spans in analysis.tags.items():
        for sp in spans:
            rest = _at(str(sp.template_name), int(sp.index))
            if rest is None or not rest.startswith(str(k)):
                bad.append(["tag", str(k), str(sp.template_name), int(sp.index), (rest or "")[:12]])
    obs["bad_spans"] = bad[:5]
    obs["sites"] = dict(sorted(tx.sites.items()))
    obs["site_detail"] = dict(sorted(tx.site_detail.items()))
    obs["include_under_isolation"] = tx.include_under_isolation
    return obs


# ------------------------------------------------------------------------------------------------
# the property, stated on an observation
# ------------------------------------------------------------------------------------------------
def direct_oracle(obs):
    """None or (signature, detail)."""
    if obs.get("parse") != "ok" or obs.get("an") is None:
        return None
    an = obs["an"]
    var_roots = {v[0] for v in an["variables"]}
    var_spans = {tuple(v) for v in an["variables"]}
    glob_roots = {v[0] for v in an["globals"]}
    filt_names = set(an["filters"])
    tag_names = {t[0] for t in an["tags"]}
    if obs.get("an_async_same") is False:
        return ("analysis|async-differs", "analyze_async() reports something else than analyze()")
    for g in obs["gets"]:
        if g.get("dynroot"):
            # the root is computed from data ([x].y): all the analysis can report is the reference itself
            if not g.get("span_reported"):
                return ("variable-omitted|reference", g)
            continue
        if g["root"] not in var_roots:
            return ("variable-omitted|root", g)
        if (g["root"], g["tmpl"], g["pos"]) not in var_spans:
            return ("variable-omitted|reference", g)
        if g["path_ok"] is False:
            return ("variable-omitted|path", g)
    for name, tmpl, pos in obs["filters"]:
        if name not in filt_names:
            return ("filter-omitted|" + name, [name, tmpl, pos])
    for name, tmpl, pos in obs["tags"]:
        if name not in tag_names:
            return ("tag-omitted|" + name, [name, tmpl, pos])
    if obs.get("bad_spans"):
        b = obs["bad_spans"][0]
        return ("span-mismatch|" + b[0], obs["bad_spans"])
    if obs.get("walk_missing"):
        return ("harness|reference-walk-incomplete", obs["walk_missing"])
    sites = obs.get("sites") or {}
    for g in obs["gets"]:
        if g["origin"] not in ("global", "missing") or g.get("dynroot"):
            continue
        if g["root"] in glob_roots:
            continue  # reported: nothing can be omitted, however the reference classifies
        if g["exc"] is None:
            # a real inability of the textual walk (reference or an enclosing partial tag not found in the parsed
            # AST) on a root that is NOT reported: flagged, never assumed bound
            return ("global-unclassified|reference-not-found-in-ast", g)
        if g["exc"]:
            continue
        cause = "unexplained"
        multi = [c.split(":") for c in g["chain"] if sites.get(c.split(":")[1], 0) > 1]
        if multi:
            kind, pname, args, bound = multi[-1]
            cause = "partial-reached-twice:" + kind
            if kind == "render":
                # the de-duplication key of render is (name, argument names): only a site with the same
                # argument names and another bound variable is the listed defect
                others = [d for d in (obs.get("site_detail") or {}).get(pname, [])
                          if d[0] == "render" and ",".join(d[1]) == args and ",".join(d[2]) != bound]
                cause += ":same-key-other-binding" if others else ":other"
        elif obs.get("include_under_isolation"):
            cause = "include-under-isolation"
            kinds = [c.split(":")[0] for c in g["chain"]]
            if "render" in kinds and "include" in kinds[kinds.index("render"):]:
                # the lookup itself happened inside an include below a render: impossible while include is a
                # disabled tag there, so this is not the listed (scope-pollution) defect
                cause = "lookup-inside-include-under-isolation"
        return ("global-omitted|" + cause, g)
    return None
