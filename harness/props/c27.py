"""C27 — macro calls and with blocks bind arguments as documented
(liquid/extra/tags/macro_tag.py, liquid/extra/tags/_with.py, liquid/builtin/expressions/arguments.py)."""
from __future__ import annotations

import itertools

from ..core import Stream

ID = "C27"
LEAN_MODULE = "LiquidVerif.Props.C27"
TRANSLATE = False
RULE = (
    "streams bind (white box: CallNode.macro_args on the parsed nodes) and call (rendered output; the macro body prints every "
    "parameter, args and kwargs): every signature of 0..3 parameters a,b,c with/without defaults (plus signatures with a repeated "
    "name and with parameters called args/kwargs) x 0..4 positional arguments x every sequence of 0..3 keyword arguments over "
    "{a,b,c,z,y} (matching, non-matching, duplicate) -- exhaustive; argument order in the source interleaved at random; stream "
    "with: random templates of nested with blocks (depth<=5), assign, output, macro definitions and calls inside and outside the "
    "blocks, names drawn from a small pool so that shadowing is frequent, plus with-nesting beyond context_depth_limit. "
    "Deepening round: the with stream also generates for loops, if, break, continue and failing nodes (strict and lax mode) inside "
    "and around with blocks and macro bodies; stream withexit (60 cases, exhaustive grid: break/continue/suppressed error/normal x outer "
    "binding x with-depth x iteration) is rendered by the model as well; stream partials (729 cases, exhaustive grid): a partial built from "
    "two of nine fragments (calls the parent's macro, defines a macro, assigns, outputs, with+calls, break, continue, failing node, redefines "
    "the parent's macro) reached by include / render / render with arguments, at top level / inside with / inside for; the parent then calls "
    "both macros and prints the variable. "
    "Non-trivial: bind/call -- the call has a surplus or a default fallback or a keyword overriding a positional or a duplicate "
    "keyword; with -- a with argument shadows a name that is also bound outside, or the block assigns a shadowed name."
)
TRUSTED_BASE = [
    "Lean 4.33 kernel; axioms subset of {propext, Classical.choice, Quot.sound}",
    "hand-written models LiquidVerif/Model/MacroArgs.lean (dicts as association lists, the zip_longest and keyword loops of CallNode.macro_args, "
    "Parameter.parse) and Model/MacroRender.lean (scope chain pushed/locals/globals, with, assign, macro, call, context.copy)",
    "correspondence harness harness/props/c27.py + Driver/C27.lean (differential: every case is parsed and rendered by the real code and by the model)",
    "the template text <-> model AST mapping of the harness (incl. the two fixed `for` snippets that print args / kwargs item by item)",
    "CPython dict insertion order and itertools.zip_longest -- modelled, sampled by the correspondence",
]
ASSUMPTIONS = [
    "argument expressions are primitives (string literals and variable names), as parse_primitive produces for the generated sources; evaluation is pure",
    "a parameter named args / kwargs hides the surplus list / dict (the parameter binding wins); the surplus theorems are about the Bound "
    "structure and about namespaces whose parameters are not called args / kwargs",
    "builtin names (now, today) and increment/decrement counters are not in the modelled scope chain; generators do not use them",
    "include / render are modelled for strict mode (in lax mode a partial's own top-level loop goes on after an error); the harness inlines the partial's nodes into the model AST",
    "for loops are modelled over (1..n) ranges only; forloop drop, limit/offset, loop iteration limits are C06/C13's subject",
]
MANIFEST = {
    "technique": "Lean 4 proof (induction over parameter and argument lists; scope-chain lemmas; functional induction over the render model) "
    "+ exhaustive differential correspondence over signatures x argument lists, random nested with/macro templates",
    "text": "Theorems bind_spec (positional in order, keywords by name override, defaults, else undefined; surplus -> args/kwargs) hold for all "
    "parameter dicts and all argument lists; with_binds / with_shadows / with_transparent / with_scoped hold for every scope chain and every block; "
    "with_scoped_on_every_exit: the scope stack is balanced over every node for every way of leaving it (normal, break, continue, error) -- the "
    "try/finally of RenderContext.extend; include_shares_macros / render_isolates_state / render_hides_macros for macros across templates; "
    "the models are tied to macro_tag.py / _with.py / for_tag.py / include_tag.py / render_tag.py by the exhaustive signature enumeration, random nested "
    "templates with interrupts, and the withexit / partials grids.",
    "note": "Trusted: Lean kernel, the hand models, the harness's source<->AST mapping. Filters in argument expressions and non-primitive arguments are out of scope.",
}

# ------------------------------------------------------------------------------------------------------
# source text from the model AST


def expr_src(e):
    return "'" + e[1] + "'" if e[0] == "lit" else e[1]


def node_src(n, order_rng=None):
    k = n[0]
    if k == "text":
        return n[1]
    if k == "out":
        return "{{ " + expr_src(n[1]) + " }}"
    if k == "assign":
        return "{% assign " + n[1] + " = " + expr_src(n[2]) + " %}"
    if k == "with":
        return "{% with " + ", ".join(a + ": " + expr_src(e) for a, e in n[1]) + " %}" + nodes_src(n[2]) + "{% endwith %}"
    if k == "macro":
        ps = ", ".join(p if d is None else p + ": " + expr_src(d) for p, d in n[2])
        return "{% macro " + n[1] + (" " + ps if ps else "") + " %}" + nodes_src(n[3]) + "{% endmacro %}"
    if k == "call":
        parts = [expr_src(e) for e in n[2]] + [a + ": " + expr_src(e) for a, e in n[3]]
        order = n[4] if len(n) > 4 else list(range(len(parts)))
        parts = [parts[i] for i in order]
        return "{% call " + n[1] + (" " + ", ".join(parts) if parts else "") + " %}"
    if k == "include":
        return "{% include '" + n[1] + "' %}"
    if k == "render":
        return "{% render '" + n[1] + "'" + "".join(", " + a + ": " + expr_src(e) for a, e in n[2]) + " %}"
    if k == "for":
        return "{% for " + n[1] + " in (1.." + str(n[2]) + ") %}" + nodes_src(n[3]) + "{% endfor %}"
    if k == "ifeq":
        return "{% if " + n[1] + " == " + str(n[2]) + " %}" + nodes_src(n[3]) + "{% endif %}"
    if k == "break":
        return "{% break %}"
    if k == "continue":
        return "{% continue %}"
    if k == "fail":
        return "{{ 1 | divided_by: 0 }}"
    if k == "dumpList":
        return "{% for x_ in " + n[1] + " %}<{{ x_ }}>{% endfor %}"
    if k == "dumpDict":
        return "{% for x_ in " + n[1] + " %}<{{ x_[0] }}={{ x_[1] }}>{% endfor %}"
    raise ValueError(n)


def nodes_src(ns):
    return "".join(node_src(n) for n in ns)


def strip_order(n):
    """The model AST has no source order of call arguments."""
    k = n[0]
    if k == "call":
        return n[:4]
    if k == "with":
        return ["with", n[1], [strip_order(x) for x in n[2]]]
    if k == "macro":
        return ["macro", n[1], n[2], [strip_order(x) for x in n[3]]]
    if k in ("for", "ifeq"):
        return [k, n[1], n[2], [strip_order(x) for x in n[3]]]
    return n


_ENV = {}


def get_env():
    if "e" not in _ENV:
        from liquid import Environment
        from liquid.extra import add_tags_and_filters

        env = Environment()
        add_tags_and_filters(env)
        _ENV["e"] = env
    return _ENV["e"]


def get_lax_env():
    if "lax" not in _ENV:
        from liquid import Environment, Mode
        from liquid.extra import add_tags_and_filters

        env = Environment(tolerance=Mode.LAX)
        add_tags_and_filters(env)
        _ENV["lax"] = env
    return _ENV["lax"]


def render(src, data, mode="strict"):
    try:
        env = get_lax_env() if mode == "lax" else get_env()
        return {"ok": env.from_string(src).render(**data)}
    except BaseException as e:  # noqa: BLE001
        if isinstance(e, (KeyboardInterrupt, SystemExit)):
            raise
        return {"err": type(e).__name__}


# ------------------------------------------------------------------------------------------------------
# the property, stated directly


def spec_bind(params, pos, kw):
    """params: [(name, default|None)] in source order; returns (bindings {name: expr|None}, surplus list, surplus dict)."""
    sig = {}
    for name, d in params:  # a repeated parameter name: one parameter, the last default
        sig[name] = d
    names = list(sig)
    out = {}
    for i, name in enumerate(names):
        kws = [e for k, e in kw if k == name]
        if kws:
            out[name] = kws[-1]  # keyword by name (the last of duplicates)
        elif i < len(pos):
            out[name] = pos[i]  # positional, in order
        else:
            out[name] = sig[name]  # default, else None = undefined
    surplus = list(pos[len(names):])
    skw = {}
    for k, e in kw:
        if k not in sig:
            skw[k] = e
    return out, surplus, skw


def bind_nontrivial(params, pos, kw):
    names = []
    for n, _ in params:
        if n not in names:
            names.append(n)
    knames = [k for k, _ in kw]
    return (
        len(pos) > len(names)
        or len(pos) < len(names)
        or any(k not in names for k in knames)
        or len(set(knames)) < len(knames)
        or any(k in names[: len(pos)] for k in knames)
    )


def signatures():
    sigs = []
    for k in range(0, 4):
        for flags in itertools.product([False, True], repeat=k):
            sigs.append([[n, (["lit", "D" + n] if f else None)] for n, f in zip("abc", flags)])
    # a repeated name; parameters that collide with args / kwargs
    sigs += [
        [["a", None], ["a", ["lit", "Da2"]]],
        [["a", ["lit", "Da"]], ["b", None], ["a", None]],
        [["args", None], ["b", ["lit", "Db"]]],
        [["a", None], ["kwargs", ["lit", "Dk"]]],
    ]
    return sigs


def call_cases(ctx, label):
    rng = ctx.rng_for(label)
    out = []
    kwnames = ["a", "b", "c", "z", "y"]
    for sig in signatures():
        for npos in range(0, 5):
            for nkw in range(0, 4):
                for ks in itertools.product(kwnames, repeat=nkw):
                    pos = [["lit", f"P{i}"] for i in range(npos)]
                    kw = [[k, ["lit", f"K{i}"]] for i, k in enumerate(ks)]
                    # now and then an argument is a variable (defined globally or undefined)
                    r = rng.below(8)
                    if r == 0 and pos:
                        pos[rng.below(len(pos))] = ["var", "g"]
                    elif r == 1 and kw:
                        kw[rng.below(len(kw))][1] = ["var", rng.choice(["g", "u"])]
                    # source order: positional and keyword arguments interleaved (each kind keeps its own order)
                    slots = [True] * npos + [False] * nkw
                    if rng.below(2):
                        slots = rng.shuffle(slots)
                    pi, ki, order = 0, npos, []
                    for is_pos in slots:
                        if is_pos:
                            order.append(pi)
                            pi += 1
                        else:
                            order.append(ki)
                            ki += 1
                    out.append({"params": sig, "pos": pos, "kw": kw, "order": order})
    return out


def case_template(case):
    """macro f(params) whose body prints every parameter, args and kwargs; then the call."""
    names = []
    for n, _ in case["params"]:
        if n not in names:
            names.append(n)
    body = []
    for n in names:
        body += [["text", n + "=["], ["out", ["var", n]], ["text", "];"]]
    if "args" not in names:
        body += [["text", "args=["], ["dumpList", "args"], ["text", "];"]]
    if "kwargs" not in names:
        body += [["text", "kwargs=["], ["dumpDict", "kwargs"], ["text", "]"]]
    return [["macro", "f", case["params"], body], ["call", "f", case["pos"], case["kw"], case["order"]]]


GLOBALS = {"g": "G", "b": "Gb"}  # b: a caller variable named like a parameter must not leak into an unbound parameter


def ev(e):
    if e is None:
        return ""
    if e[0] == "lit":
        return e[1]
    return GLOBALS.get(e[1], "")


class BindStream(Stream):
    """White box: CallNode.macro_args on the parsed MacroNode / CallNode."""

    name = "bind"
    exhaustive = True
    parallel = False  # cases are cheap; a fork pool costs more than it saves on a loaded machine

    def cases(self, ctx):
        return call_cases(ctx, "bind")

    def impl(self, case):
        from liquid.builtin.expressions import Path, StringLiteral
        from liquid.extra.tags.macro_tag import CallNode, Macro, MacroNode

        nodes = case_template(case)
        t = get_env().from_string(nodes_src(nodes))
        m = next(n for n in t.nodes if isinstance(n, MacroNode))
        c = next(n for n in t.nodes if isinstance(n, CallNode))

        def canon(e):
            if e is None:
                return None
            if isinstance(e, StringLiteral):
                return ["lit", e.value]
            if isinstance(e, Path):
                return ["var", e.head()]
            return ["other", str(e)]

        b = c.macro_args(Macro(args=m.args, block=m.block))
        return {
            "args": [[k, canon(v)] for k, v in b.args.items()],
            "excess_args": [canon(e) for e in b.excess_args],
            "excess_kwargs": [[k, canon(v)] for k, v in b.excess_kwargs.items()],
        }

    def line(self, case):
        return ["macro_args", case["params"], case["pos"], case["kw"]]

    def oracle(self, case, obs):
        want, surplus, skw = spec_bind(case["params"], case["pos"], case["kw"])
        got = dict((k, v) for k, v in obs["args"])
        if [k for k, _ in obs["args"]] != list(want):
            return ("bind|parameter-names", f"bound names {[k for k, _ in obs['args']]} are not the parameters {list(want)}")
        for i, name in enumerate(want):
            if got[name] != want[name]:
                kind = (
                    "keyword" if any(k == name for k, _ in case["kw"]) else "positional" if i < len(case["pos"]) else "default" if want[name] is not None else "undefined"
                )
                return (f"bind|{kind}", f"parameter {name}: bound to {got[name]}, expected {want[name]} ({kind})")
        if obs["excess_args"] != surplus:
            return ("bind|surplus-args", f"excess_args {obs['excess_args']} expected {surplus}")
        if dict((k, v) for k, v in obs["excess_kwargs"]) != skw or [k for k, _ in obs["excess_kwargs"]] != list(skw):
            return ("bind|surplus-kwargs", f"excess_kwargs {obs['excess_kwargs']} expected {skw}")
        return None

    def nontrivial(self, case, obs):
        return bind_nontrivial(case["params"], case["pos"], case["kw"])

    def tags(self, case, obs):
        return [f"params{len(case['params'])}", f"pos{len(case['pos'])}", f"kw{len(case['kw'])}"]

    def shrink_candidates(self, case):
        for key in ("kw", "pos", "params"):
            for i in range(len(case[key])):
                d = dict(case)
                d[key] = case[key][:i] + case[key][i + 1 :]
                d["order"] = list(range(len(d["pos"]) + len(d["kw"])))
                yield d


class CallStream(BindStream):
    """Rendered output of a macro that prints its parameters, args and kwargs."""

    name = "call"

    def cases(self, ctx):
        return call_cases(ctx, "call")

    def impl(self, case):
        return render(nodes_src(case_template(case)), GLOBALS)

    def line(self, case):
        return ["mrender", 30, [[k, v] for k, v in GLOBALS.items()], [strip_order(n) for n in case_template(case)]]

    def oracle(self, case, obs):
        if "err" in obs:
            return (f"call|raises-{obs['err']}", f"the call raised {obs['err']}")
        want, surplus, skw = spec_bind(case["params"], case["pos"], case["kw"])
        exp = "".join(f"{n}=[{ev(e)}];" for n, e in want.items())
        if "args" not in want:
            exp += "args=[" + "".join(f"<{ev(e)}>" for e in surplus) + "];"
        if "kwargs" not in want:
            exp += "kwargs=[" + "".join(f"<{k}={ev(e)}>" for k, e in skw.items()) + "]"
        if obs["ok"] == exp:
            return None
        got = obs["ok"]
        # which part differs
        part = "parameters"
        head = "".join(f"{n}=[{ev(e)}];" for n, e in want.items())
        if got.startswith(head):
            part = "surplus-args" if not got[len(head):].startswith("args=[" + "".join(f"<{ev(e)}>" for e in surplus) + "];") else "surplus-kwargs"
        return (f"call|{part}", f"rendered {got!r}, expected {exp!r}")


# ------------------------------------------------------------------------------------------------------
NAMES = ["a", "b", "c"]


class RefScope:
    """The scoping rules stated directly: with-namespaces innermost first, then assigned locals, then globals."""

    def __init__(self, globals_, limit=30):
        self.pushed = []
        self.locals = {}
        self.globals = [dict(globals_)]
        self.macros = {}
        self.depth = 0
        self.limit = limit
        self.base = 5  # locals, globals, builtin, counters + the namespace the template render pushes

    def get(self, name):
        for ns in self.pushed:
            if name in ns:
                return ns[name]
        if name in self.locals:
            return self.locals[name]
        for ns in self.globals:
            if name in ns:
                return ns[name]
        return ""

    def ev(self, e):
        return e[1] if e[0] == "lit" else self.get(e[1])


class DepthError(Exception):
    name = "ContextDepthError"


class Brk(Exception):
    name = "LiquidSyntaxError"  # what an interrupt outside a loop becomes


class Cnt(Exception):
    name = "LiquidSyntaxError"


class Fail(Exception):
    name = "FilterArgumentError"


class Stray(Exception):
    name = "LiquidSyntaxError"


def ref_render(sc: RefScope, nodes, out: list) -> None:
    """Writes to the shared buffer `out`; break / continue / errors are Python exceptions, and every scope that
    was entered is left again on the way out (that is the property)."""
    for n in nodes:
        k = n[0]
        if k == "text":
            out.append(n[1])
        elif k == "out":
            v = sc.ev(n[1])
            out.append("".join(str(x) for x in v) if isinstance(v, list) else str(v))
        elif k == "assign":
            sc.locals[n[1]] = sc.ev(n[2])
        elif k == "with":
            ns = {}
            for a, e in n[1]:
                ns[a] = sc.ev(e)  # evaluated outside the block
            if sc.base + len(sc.pushed) > sc.limit:
                raise DepthError
            sc.pushed.insert(0, ns)
            try:
                ref_render(sc, n[2], out)
            finally:
                sc.pushed.pop(0)  # visible only inside the block, however the block is left
        elif k == "for":
            if n[2] == 0:
                continue
            if sc.base + len(sc.pushed) > sc.limit:
                raise DepthError
            ns = {n[1]: ""}
            sc.pushed.insert(0, ns)
            try:
                for i in range(1, n[2] + 1):
                    ns[n[1]] = i
                    try:
                        ref_render(sc, n[3], out)
                    except Cnt:
                        continue
                    except Brk:
                        break
            finally:
                sc.pushed.pop(0)
        elif k == "ifeq":
            v = sc.get(n[1])
            if isinstance(v, int) and v == n[2]:
                ref_render(sc, n[3], out)
        elif k == "break":
            raise Brk
        elif k == "continue":
            raise Cnt
        elif k == "fail":
            raise Fail
        elif k == "included":
            # include: the partial runs in the SAME context (locals and macros shared both ways), under two
            # namespaces (the tag's arguments, the partial's own) that are gone afterwards; interrupts pass through
            if sc.base + len(sc.pushed) > sc.limit:
                raise DepthError
            if sc.base + len(sc.pushed) + 1 > sc.limit:
                raise DepthError
            sc.pushed.insert(0, {})
            sc.pushed.insert(0, {})
            try:
                ref_render(sc, n[1], out)
            finally:
                sc.pushed.pop(0)
                sc.pushed.pop(0)
        elif k == "isolated":
            # render: the partial runs in a COPY: no locals, no macros of the caller, arguments + caller's globals;
            # nothing it assigns or defines comes back; an interrupt reaching its top level is a syntax error
            ns = {}
            for a, e in n[1]:
                ns[a] = sc.ev(e)
            if sc.depth > sc.limit:
                raise DepthError
            inner = RefScope({}, sc.limit)
            inner.globals = [ns] + sc.globals
            inner.depth = sc.depth + 1
            inner.base = 5
            try:
                ref_render(inner, n[2], out)
            except (Brk, Cnt):
                raise Stray from None
        elif k == "macro":
            sc.macros[n[1]] = (n[2], n[3])
        elif k == "call":
            if n[1] not in sc.macros:
                continue
            params, body = sc.macros[n[1]]
            want, surplus, skw = spec_bind(params, n[2], n[3])
            ns = {"args": [sc.ev(e) for e in surplus], "kwargs": {k2: sc.ev(e) for k2, e in skw.items()}}
            for name, e in want.items():
                ns[name] = "" if e is None else sc.ev(e)
            if sc.depth > sc.limit:
                raise DepthError
            inner = RefScope({}, sc.limit)
            inner.globals = [ns] + sc.globals
            inner.depth = sc.depth + 1
            inner.base = 4  # a fresh context; the macro block is rendered without a pushed namespace
            ref_render(inner, body, out)  # interrupts and errors of the body reach the caller
        elif k == "dumpList":
            v = sc.get(n[1])
            out.append("".join(f"<{x}>" for x in v) if isinstance(v, list) else (f"<{v}>" if v != "" else ""))
        elif k == "dumpDict":
            v = sc.get(n[1])
            out.append("".join(f"<{a}={b}>" for a, b in v.items()) if isinstance(v, dict) else "")
        else:
            raise ValueError(n)


def ref_template(globals_, nodes, mode="strict"):
    """render_with_context: one top-level node at a time; strict raises, lax goes on with the next node."""
    sc = RefScope(globals_)
    out: list = []
    for n in nodes:
        try:
            ref_render(sc, [n], out)
        except (Brk, Cnt, Fail, Stray, DepthError) as e:
            if mode == "strict":
                return {"err": e.name}
        assert not sc.pushed
    return {"ok": "".join(out)}


def shadow_events(nodes, bound, acc):
    """Count with-arguments that shadow a name bound outside, and assigns to a shadowed name."""
    for n in nodes:
        if n[0] == "with":
            inner = set(a for a, _ in n[1])
            if inner & bound["any"]:
                acc["shadow"] += 1
            shadow_events(n[2], {"any": bound["any"] | inner, "with": bound["with"] | inner}, acc)
        elif n[0] == "assign":
            if n[1] in bound["with"]:
                acc["assign_shadowed"] += 1
            bound["any"].add(n[1])
        elif n[0] == "macro":
            shadow_events(n[3], {"any": set(p for p, _ in n[2]), "with": set()}, acc)
        elif n[0] in ("for", "ifeq"):
            shadow_events(n[3], bound, acc)


class WithStream(Stream):
    name = "with"
    exhaustive = False
    parallel = False  # cases are cheap; a fork pool costs more than it saves on a loaded machine

    def cases(self, ctx):
        rng = ctx.rng_for("with")
        out = []
        counter = [0]

        def lit():
            counter[0] += 1
            return ["lit", f"v{counter[0]}"]

        def expr():
            return lit() if rng.range(0, 3) == 0 else ["var", rng.choice(NAMES + ["g"])]

        def block(depth, in_macro=False, in_loop=False, lax=False):
            ns = []
            for _ in range(rng.range(1, 5)):
                r = rng.range(0, 10)
                q = rng.below(100)
                if q < 10 and depth < 5:
                    v = rng.choice(NAMES + ["i", "i"])
                    ns.append(["for", v, rng.below(4), block(depth + 1, in_macro, True, lax)])
                    continue
                if q < 16 and depth < 6:
                    ns.append(["ifeq", rng.choice(["i", "i", "a"]), rng.range(1, 3), block(depth + 1, in_macro, in_loop, lax)])
                    continue
                if q < 22 and (in_loop or in_macro or lax or rng.below(8) == 0):
                    ns.append([rng.choice(["break", "continue"])])
                    continue
                if q < 24 and (lax or rng.below(4) == 0):
                    ns.append(["fail"])
                    continue
                if r <= 2:
                    nm = rng.choice(NAMES + ["g"])
                    ns += [["text", nm + ":"], ["out", ["var", nm]], ["text", ";"]]
                elif r == 3:
                    ns.append(["assign", rng.choice(NAMES), expr()])
                elif r <= 6 and depth < 5:
                    args = [[rng.choice(NAMES), expr()] for _ in range(rng.range(1, 4))]
                    ns.append(["with", args, block(depth + 1, in_macro, in_loop, lax)])
                elif r == 7 and not in_macro:
                    params = [[p, (lit() if rng.range(0, 2) else None)] for p in NAMES[: rng.range(0, 4)]]
                    body = [["text", "("]] + block(depth + 1, True, False, lax) + [["text", ")"]]
                    ns.append(["macro", rng.choice(["f", "h"]), params, body])
                elif r == 8:
                    pos = [expr() for _ in range(rng.range(0, 3))]
                    kw = [[rng.choice(NAMES + ["z"]), expr()] for _ in range(rng.range(0, 3))]
                    ns.append(["call", rng.choice(["f", "h"]), pos, kw])
                else:
                    ns.append(["text", "."])
            return ns

        for _ in range(ctx.scale(2500, 60000)):
            counter[0] = 0
            g = {"g": "G"}
            if rng.range(0, 2):
                g[rng.choice(NAMES)] = "G" + rng.choice(NAMES)
            lax = rng.below(3) == 0
            out.append({"globals": g, "nodes": block(0, lax=lax), "mode": "lax" if lax else "strict"})
        # nesting around context_depth_limit (30): scope.size() = 4 + pushed
        # (deeper blocks hit the parser's block nesting limit first)
        for d in (24, 25, 26, 27, 28, 29):
            nodes = [["out", ["var", "a"]]]
            for i in range(d):
                nodes = [["with", [["a", ["lit", f"d{i}"]]], nodes]]
            out.append({"globals": {}, "nodes": nodes})
            if d <= 28:
                out.append({"globals": {}, "nodes": [["macro", "f", [], nodes], ["call", "f", [], []]]})
        return out

    def impl(self, case):
        return render(nodes_src(case["nodes"]), case["globals"], case.get("mode", "strict"))

    def line(self, case):
        return ["mrender", 30, [[k, v] for k, v in case["globals"].items()], [strip_order(n) for n in case["nodes"]], case.get("mode", "strict")]

    def oracle(self, case, obs):
        want = ref_template(case["globals"], case["nodes"], case.get("mode", "strict"))
        if obs == want:
            return None
        if "err" in obs:
            return (f"with|raises-{obs['err']}", f"rendering raised {obs['err']}, expected {want}")
        if "err" in want:
            return (f"with|no-{want['err']}", f"rendered {obs['ok']!r}, expected {want['err']}")
        has_call = "call" in str(case["nodes"])
        return ("with|scoping+call" if has_call else "with|scoping", f"rendered {obs['ok']!r}, expected {want['ok']!r}")

    def nontrivial(self, case, obs):
        acc = {"shadow": 0, "assign_shadowed": 0}
        shadow_events(case["nodes"], {"any": set(case["globals"]), "with": set()}, acc)
        return acc["shadow"] > 0 or acc["assign_shadowed"] > 0

    def tags(self, case, obs):
        acc = {"shadow": 0, "assign_shadowed": 0}
        shadow_events(case["nodes"], {"any": set(case["globals"]), "with": set()}, acc)
        s = str(case["nodes"])
        t = ["shadow" if acc["shadow"] else "no-shadow"]
        if acc["assign_shadowed"]:
            t.append("assign-under-with")
        if "'call'" in s:
            t.append("call")
        if "'macro'" in s:
            t.append("macro")
        for kind in ("for", "break", "continue", "fail"):
            if f"'{kind}'" in s:
                t.append(kind)
        t.append(case.get("mode", "strict"))
        t.append("ok" if "ok" in obs else "err:" + obs["err"])
        return t


class WithExitStream(Stream):
    """"visible only inside its block" must also hold when the block is left by break/continue to an enclosing loop
    or by an error that lax/warn mode suppresses. The expected text is written out by a tiny reference (direct oracle); since the deepening round
    the model (Model/MacroRender with interrupts) renders the same AST too.
    Added after seeded change C27-2 (scope popped only on normal exit) was missed."""

    name = "withexit"
    has_model = True
    exhaustive = True

    def cases(self, ctx):
        out = []
        for how in ("break", "continue", "error-lax", "error-warn", "normal"):
            for outer in (None, "o"):
                for depth in (1, 2):
                    for when in (1, 2, 3):
                        out.append({"how": how, "outer": outer, "depth": depth, "when": when})
        return out

    @staticmethod
    def nodes(case):
        """The template as a model AST (the source text is generated from it)."""
        how = case["how"]
        leave = {"break": [["break"]], "continue": [["continue"]], "error-lax": [["fail"]], "error-warn": [["fail"]], "normal": None}[how]
        body = [["text", "["], ["out", ["var", "p"]], ["text", "]"]]
        if leave is not None:
            body.append(["ifeq", "i", case["when"], leave])
        body.append(["text", "."])
        for d in range(case["depth"]):
            body = [["with", [["p", ["var", "i"]], ["q" + str(d), ["lit", "7"]]], body]]
        loop = ["for", "i", 3, body + [["text", "<"], ["out", ["var", "p"]], ["out", ["var", "q0"]], ["text", ">"]]]
        pre = [["assign", "p", ["lit", "o"]]] if case["outer"] else []
        return pre + [loop, ["text", "|"], ["out", ["var", "p"]], ["out", ["var", "q0"]], ["text", "|"]]

    @classmethod
    def source(cls, case):
        return nodes_src(cls.nodes(case))

    def line(self, case):
        mode = "lax" if case["how"].startswith("error") else "strict"
        return ["mrender", 30, [], self.nodes(case), mode]

    def canon_model(self, case, mobs):
        if isinstance(mobs, dict) and "ok" in mobs:
            return {"out": mobs["ok"]}
        return mobs

    @staticmethod
    def expected(case):
        o = case["outer"] or ""
        how, w = case["how"], case["when"]
        out = ""
        for i in (1, 2, 3):
            out += f"[{i}]"
            if i == w and how == "break":
                break
            if i == w and how == "continue":
                continue
            if i == w and how.startswith("error"):
                break  # a suppressed error abandons the rest of the top-level node that raised: the whole for loop
            out += "." + f"<{o}>"
        return out + f"|{o}|"

    def impl(self, case):
        import warnings

        from liquid import Environment, Mode
        from liquid.exceptions import LiquidError

        mode = {"error-lax": Mode.LAX, "error-warn": Mode.WARN}.get(case["how"], Mode.STRICT)
        env = Environment(extra=True, tolerance=mode)
        try:
            with warnings.catch_warnings():
                warnings.simplefilter("ignore")
                return {"out": env.from_string(self.source(case)).render()}
        except LiquidError as e:
            return {"err": type(e).__name__}
        except Exception as e:  # noqa: BLE001
            return {"err": "!" + type(e).__name__}

    def oracle(self, case, obs):
        exp = self.expected(case)
        if obs.get("out") != exp:
            return (f"withexit|{case['how']}|binding-visible-after-endwith", f"{self.source(case)!r} rendered {obs!r}, documented {exp!r}")
        return None

    def nontrivial(self, case, obs):
        return case["how"] != "normal"

    def tags(self, case, obs):
        return [case["how"], f"depth{case['depth']}"]


def inline_partials(nodes, partials):
    """The model has no template loader: `include` / `render` nodes carry the partial's nodes."""
    out = []
    for n in nodes:
        k = n[0]
        if k == "include":
            out.append(["included", inline_partials(partials[n[1]], partials)])
        elif k == "render":
            out.append(["isolated", n[2], inline_partials(partials[n[1]], partials)])
        elif k == "with":
            out.append(["with", n[1], inline_partials(n[2], partials)])
        elif k == "macro":
            out.append(["macro", n[1], n[2], inline_partials(n[3], partials)])
        elif k in ("for", "ifeq"):
            out.append([k, n[1], n[2], inline_partials(n[3], partials)])
        elif k == "call":
            out.append(n[:4])
        else:
            out.append(n)
    return out


class PartialsStream(Stream):
    """Macros (and assigned variables, interrupts) across templates: `include` renders the partial in the same
    context, `render` in an isolated copy. Strict mode."""

    name = "partials"
    exhaustive = True

    FRAGMENTS = {
        "callf": [["text", "p:"], ["call", "f", [["var", "a"]], []]],
        "defg": [["macro", "g", [["y", ["lit", "Dy"]]], [["text", "g("], ["out", ["var", "y"]], ["out", ["var", "a"]], ["text", ")"]]]],
        "assign": [["assign", "a", ["lit", "P"]]],
        "out": [["text", "a="], ["out", ["var", "a"]], ["text", ";"]],
        "withcall": [["with", [["a", ["lit", "W2"]]], [["call", "f", [["var", "a"]], []], ["call", "g", [], []]]]],
        "break": [["text", "b"], ["break"], ["text", "!"]],
        "continue": [["text", "c"], ["continue"], ["text", "!"]],
        "fail": [["text", "e"], ["fail"], ["text", "!"]],
        "redef": [["macro", "f", [["x", None]], [["text", "F2("], ["out", ["var", "x"]], ["text", ")"]]]],
    }

    def cases(self, ctx):
        out = []
        names = list(self.FRAGMENTS)
        for kind in ("include", "render", "render-args"):
            for where in ("top", "with", "for"):
                for f1 in names:
                    for f2 in names:
                        out.append({"kind": kind, "where": where, "frags": [f1, f2]})
        return out

    def build(self, case):
        partial = []
        for f in case["frags"]:
            partial += self.FRAGMENTS[f]
        if case["kind"] == "include":
            use = ["include", "p"]
        else:
            use = ["render", "p", [["a", ["lit", "R"]]] if case["kind"] == "render-args" else []]
        inner = [["text", "["], use, ["text", "]"]]
        if case["where"] == "with":
            inner = [["with", [["a", ["lit", "W"]]], inner]]
        elif case["where"] == "for":
            inner = [["for", "i", 2, [["out", ["var", "i"]]] + inner]]
        nodes = (
            [["macro", "f", [["x", None]], [["text", "f("], ["out", ["var", "x"]], ["text", ")"]]], ["assign", "a", ["lit", "A"]]]
            + inner
            + [["text", "|"], ["call", "g", [], []], ["call", "f", [["lit", "z"]], []], ["text", "a="], ["out", ["var", "a"]]]
        )
        return nodes, {"p": partial}

    def impl(self, case):
        from liquid import DictLoader, Environment

        nodes, partials = self.build(case)
        env = Environment(extra=True, loader=DictLoader({k: nodes_src(v) for k, v in partials.items()}))
        try:
            return {"ok": env.from_string(nodes_src(nodes)).render(g="G")}
        except BaseException as e:  # noqa: BLE001
            if isinstance(e, (KeyboardInterrupt, SystemExit)):
                raise
            return {"err": type(e).__name__}

    def line(self, case):
        nodes, partials = self.build(case)
        return ["mrender", 30, [["g", "G"]], inline_partials(nodes, partials), "strict"]

    def oracle(self, case, obs):
        nodes, partials = self.build(case)
        want = ref_template({"g": "G"}, inline_partials(nodes, partials), "strict")
        if obs == want:
            return None
        kind = "include" if case["kind"] == "include" else "render"
        return (f"partials|{kind}|{'+'.join(case['frags'])}"[:60], f"{nodes_src(nodes)!r} with p = {nodes_src(partials['p'])!r} rendered {obs}, expected {want}")

    def nontrivial(self, case, obs):
        return any(f in ("callf", "defg", "withcall", "redef", "break", "continue") for f in case["frags"])

    def tags(self, case, obs):
        return [case["kind"], case["where"], "ok" if "ok" in obs else "err:" + obs["err"]]


class RedefineStream(Stream):
    """The same {% call %} node executed against different definitions of the macro (a macro redefined between loop
    iterations, with the same parameter names but other defaults): each call binds against the definition that is
    current when it runs. Oracle only (expected text written out). Added after seeded change C27-3 (bound arguments
    cached on the call node, keyed by the parameter names) was missed."""

    name = "redefine"
    has_model = False
    exhaustive = True

    def cases(self, ctx):
        out = []
        for params in ("a: 'D'", "a: 'D', b: 'E'", "b: 'E', a: 'D'", "a"):
            for call in ("", "'P'", "b: 'K'", "a: 'K'", "'P', 'Q', 'R'", "zz: 1"):
                for n in (2, 3):
                    out.append({"params": params, "call": call, "n": n})
        return out

    @staticmethod
    def source(case):
        body = "[{{ a }}|{{ b }}|{{ args | join: ',' }}|{{ kwargs | size }}]"
        defs = ""
        for i in range(1, case["n"] + 1):
            p = case["params"].replace("'D'", f"'D{i}'").replace("'E'", f"'E{i}'")
            defs += ("{% if i == " + str(i) + " %}{% macro m " + p + " %}" + str(i) + body + "{% endmacro %}{% endif %}")
        return "{% for i in (1.." + str(case["n"]) + ") %}" + defs + "{% call m " + case["call"] + " %}{% endfor %}"

    @staticmethod
    def expected(case):
        import re

        out = ""
        for i in range(1, case["n"] + 1):
            params = [x.strip() for x in case["params"].split(",")]
            names, dflt = [], {}
            for x in params:
                if ":" in x:
                    k, v = x.split(":")
                    names.append(k.strip())
                    dflt[k.strip()] = v.strip().strip("'") + str(i)
                else:
                    names.append(x)
            pos, kw = [], {}
            for x in [y.strip() for y in case["call"].split(",") if y.strip()]:
                if ":" in x:
                    k, v = x.split(":")
                    kw[k.strip()] = v.strip().strip("'")
                else:
                    pos.append(x.strip("'"))
            bound = {}
            for j, nme in enumerate(names):
                if nme in kw:
                    bound[nme] = kw[nme]
                elif j < len(pos):
                    bound[nme] = pos[j]
                else:
                    bound[nme] = dflt.get(nme, "")
            args = pos[len(names):]
            extra = {k: v for k, v in kw.items() if k not in names}
            out += f"{i}[{bound.get('a', '')}|{bound.get('b', '')}|{','.join(args)}|{len(extra)}]"
        return out

    def impl(self, case):
        from liquid import Environment
        from liquid.exceptions import LiquidError

        try:
            return {"out": Environment(extra=True).from_string(self.source(case)).render()}
        except LiquidError as e:
            return {"err": type(e).__name__}
        except Exception as e:  # noqa: BLE001
            return {"err": "!" + type(e).__name__}

    def oracle(self, case, obs):
        exp = self.expected(case)
        if obs.get("out") != exp:
            return ("redefine|stale-binding", f"{self.source(case)!r} rendered {obs!r}, documented {exp!r}")
        return None

    def tags(self, case, obs):
        return [f"n{case['n']}"]

    def shrink_candidates(self, case):
        return []


def streams(ctx):
    return [BindStream(), CallStream(), WithStream(), WithExitStream(), PartialsStream(), RedefineStream()]
