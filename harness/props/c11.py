"""C11 — custom delimiters and environments are independent
(liquid/lex.py, liquid/parser.py, liquid/environment.py, liquid/builtin/tags/liquid_tag.py)."""
from __future__ import annotations

from ..core import Stream
from ..gen import delim_pieces as dp

ID = "C11"
LEAN_MODULE = "LiquidVerif.Props.C11"
TRANSLATE = True
RULE = (
    "lex: piece-level templates written with two delimiter sets (random strings of length 1-4 over punctuation, "
    "letters and regex metacharacters that do not collide with each other or with the text, or the defaults) through "
    "the real lexer and the Lean model; the two token streams must agree after erasing positions (direct oracle) and "
    "each must equal the model's. render: generated programs (all built-in/extra tags, ~90 filters, partials, liquid "
    "tags with inline comments, optionally shorthand comments) rendered as written and after rewriting main template "
    "and partials to a random non-colliding delimiter set in an environment configured with it; outputs (or error "
    "classes) must be equal. interleave: 160-185 environments with distinct delimiters / tolerance / removed tags / "
    "replaced filters created and used in interleaved order (more live configurations than the 128-entry caches "
    "hold), every result compared with the result in a fresh process state; the hit/miss pattern and the identity of "
    "the lexer and parser each parse used are compared with the Lean process model. implicit: liquid.Template() with "
    ">10 argument sets interleaved. keyclash: pairs and triples of environments whose delimiter sets differ but have the same concatenation (one character moved across the boundary of two neighbouring strings), the same strings in exchanged roles, or five equal strings out of six, used alternately; every result compared with an environment whose lexer is compiled from its own six strings, and the lexer each environment hands out must tokenise a probe as its own delimiters demand. memo: functools.lru_cache against the Lean memo. edge: hand-picked delimiter "
    "sets (every regex metacharacter, delimiters sharing characters with the defaults, letters) x small templates. "
    "Non-trivial: lex/render: the delimiter set differs from the default in all four places and the template has "
    ">= 2 markup pieces; interleave: at least one eviction from the lexer cache happened."
)
TRUSTED_BASE = [
    "Lean 4.33 kernel; axioms subset of {propext, Classical.choice, Quot.sound}",
    "hand-written models LiquidVerif/Model/LexDelims.lean (piece-level lexer, delimiters as a parameter) and Model/Memo.lean (functools.lru_cache, the process with its lexer and parser caches)",
    "tools/emitters/c11_lexer_cache.py: reads the cache keys, the argument flow get_lexer -> compile_liquid_rules -> re.escape -> f-strings, Environment.__hash__/__eq__, get_parser, get_implicit_environment/Template from the AST of the tree under test, and the live pattern for placeholder delimiters, into Gen/C11Tables.lean",
    "correspondence harness harness/props/c11.py + harness/gen/delim_pieces.py + Driver/C11.lean",
    "that the compiled regular expression finds exactly the pieces of an assembled source when the delimiters do not collide (Python `re`; `re.escape(d)` matches exactly d) — not proved; measured by stream lex under thousands of delimiter sets",
    "parsing and rendering after the lexer do not look at delimiters (no other use of the delimiter attributes in the tree: checked by the emitter's inventory of readers; rendering equality is the direct oracle)",
]
MANIFEST = {
    "technique": "Lean 4 proof (simulation between the lexer runs under two delimiter sets; invariant of an LRU-bounded memo over all call histories; refinement of the cached process to a cache-free one) + translator-generated obligations on cache keys and re.escape flow + differential correspondence and rendering equality under random delimiter sets and interleaved environments",
    "text": "tokenize_delim_independent: for every piece list and any two delimiter sets the token streams agree up to positions (the parser's input is delimiter-free). memo_transparent / memo_bounded: an lru_cache of any size returns f(k) on every call of every history and never exceeds maxsize, provided equal keys give equal results; memo_stale_counterexample shows the proviso is needed. env_isolation: the process with the 128-entry lexer and parser caches computes every parse from the asked environment's own delimiters and current tags/filters/tolerance, for every interleaving of creations, mutations and parses. implicit_env_isolation / implicit_env_bounded: liquid.Template() gives the k-th call an environment built from the k-th call's arguments, for every interleaving and with evictions from its 10-entry cache. lexer_cache_key_complete, all_delims_escaped, lex_patterns_pinned, parser_cache_key_identity, implicit_env_key_complete: the provisos hold of this tree (re-decided from the source on every run).",
    "note": "Trusted: Lean kernel, the hand models, the AST emitter, the harness; Python `re` matching of the assembled source is measured, not proved. Fixed in the tree: a tag_end_string that starts with a word character (or '#') directly after a tag name. Also fixed: a liquid-tag comment marker that starts with a word character ('a#'). Known finding: comment_start_string '{if' yields the marker 'if'.",
}
ASSUMPTIONS = [
    "non-collision = no delimiter string occurs in the assembled source except where the rewriting wrote it (raw/doc bodies may contain anything but their own end tag), no delimiter contains another, no white space in delimiters",
    "inline comments inside {% liquid %} use the environment's marker (comment_start_string without '{', or '#'): rewriting a template rewrites those markers too",
    "an end delimiter that starts with '-' and directly follows its start delimiter (empty markup such as '{{' + '-}') is read as white-space control by the text look-ahead: such delimiter sets count as colliding with the '-' syntax (delim_pieces.dash_end_adjacent)",
    "generated text stays below U+0100",
]


def envkw(d):
    return dict(tag_start_string=d[0], tag_end_string=d[1], statement_start_string=d[2], statement_end_string=d[3],
                template_comments=bool(d[4]), comment_start_string=d[4] or "{#", comment_end_string=d[5] or "#}")


def erase(tokens, error):
    out = []
    for k, v, _ in tokens:
        out.append([k, "" if k in ("output", "comment") else v])
    return out, (None if error is None else error[0])


def real_lex(d, src):
    from liquid import Environment
    from liquid.exceptions import LiquidSyntaxError

    env = Environment(**envkw(d))
    toks, err = [], None
    try:
        for t in env.tokenizer()(src):
            toks.append([t.kind, t.value, t.start_index])
    except LiquidSyntaxError as e:
        err = [e.token.kind, e.token.value, e.token.start_index]
    return toks, err


class LexStream(Stream):
    name = "lex"
    parallel = False  # cheap per case; a 16-process pool costs more than it saves

    def cases(self, ctx):
        from .c20 import gen_pieces

        rng = ctx.rng_for("lex")
        out = []
        for _ in range(ctx.scale(1200, 40000)):
            comments = rng.chance(40)
            ps = gen_pieces(rng, comments)
            if not ps:
                continue
            d1 = dp.gen_delims(rng, [ps], comments)
            d2 = (dp.DEFAULT_COMMENTS if comments else dp.DEFAULT) if rng.chance(50) else dp.gen_delims(rng, [ps], comments)
            if d1 is None or d2 is None or dp.collides(d2, ps):
                continue
            out.append({"d": d1, "d2": d2, "pieces": ps})
        return out

    def impl(self, case):
        res = {}
        for key in ("d", "d2"):
            d = case[key]
            src = dp.assemble(d, case["pieces"])
            toks, err = real_lex(d, src)
            res[key] = {"source": src, "tokens": toks, "error": err}
        return res

    def line(self, case):
        return ["lex", case["d"], dp.for_driver(case["d"], case["pieces"])]

    def compare_view(self, case, obs):
        return obs["d"]

    def canon_model(self, case, mobs):
        return dp.unwrap(mobs)

    def oracle(self, case, obs):
        a = erase(obs["d"]["tokens"], obs["d"]["error"])
        b = erase(obs["d2"]["tokens"], obs["d2"]["error"])
        if a != b:
            i = next((i for i, (x, y) in enumerate(zip(a[0], b[0])) if x != y), min(len(a[0]), len(b[0])))
            return ("lex|token-stream-differs", f"delimiters {case['d']} vs {case['d2']}: token {i} is {a[0][i:i+1]} vs {b[0][i:i+1]} (errors {a[1]} vs {b[1]})")
        return None

    def nontrivial(self, case, obs):
        d = case["d"]
        return all(d[i] != dp.DEFAULT[i] for i in range(4)) and sum(1 for p in case["pieces"] if p[0] != "text") >= 2

    def tags(self, case, obs):
        d = case["d"]
        t = ["comments" if d[4] else "nocomments", "vs-default" if case["d2"][:4] == dp.DEFAULT[:4] else "vs-custom"]
        if any(c in dp.META for x in d for c in x):
            t.append("metachar")
        if any(c.isalpha() for x in d for c in x):
            t.append("letters")
        t.append("len" + str(max(len(x) for x in d)))
        if obs["d"]["error"]:
            t.append("error")
        return t


# ---- rendering under rewritten delimiters ----------------------------------------------------------
LIQ_COMMENTS = [dp.MARK + " a note", dp.MARK + " if x", dp.MARK]


def add_comments(rng, pieces):
    """Insert shorthand comments between pieces and inline comments into liquid tags (marker placeholder)."""
    out = []
    for p in pieces:
        if rng.chance(15):
            out.append(["sc", rng.choice([" note ", "", " {% if %} {{ x }} ", "- lead", "multi\nline"]), rng.chance(25)])
        if p[0] == "tag" and p[3] == "liquid" and p[5]:
            lines = p[5].split("\n")
            for _ in range(rng.choice([0, 1, 2])):
                lines.insert(rng.below(len(lines) + 1), "  " + rng.choice(LIQ_COMMENTS))
            p = [*p[:5], "\n".join(lines), *p[6:]]
        out.append(p)
    return dp.normalize(out)


def gen_render_case(rng):
    from ..gen.templates import gen_program

    prog = gen_program(rng)
    comments = rng.chance(40)
    try:
        main = dp.split_source(prog["source"])
        parts = {k: dp.split_source(v) for k, v in prog["partials"].items()}
    except ValueError:
        return None
    if comments:
        main = add_comments(rng, main)
        parts = {k: add_comments(rng, v) for k, v in parts.items()}
    d0 = dp.DEFAULT_COMMENTS if comments else dp.DEFAULT
    allp = [main] + list(parts.values())
    if any(dp.collides(d0, ps) for ps in allp):
        return None
    d = dp.gen_delims(rng, allp, comments)
    if d is None:
        return None
    prog = dict(prog)
    prog.pop("source"), prog.pop("partials")
    return {"prog": prog, "main": main, "parts": parts, "d0": d0, "d": d}


def render_with(case, d):
    from liquid import DictLoader

    from ..impl.render import make_env, outcome

    prog = dict(case["prog"])
    prog["source"] = dp.assemble(d, case["main"])
    prog["partials"] = {k: dp.assemble(d, v) for k, v in case["parts"].items()}

    def go():
        env = make_env(prog, loader=DictLoader(prog["partials"]), **envkw(d))
        return env.from_string(prog["source"]).render(**prog["data"])

    return outcome(go), prog["source"]


class RenderStream(Stream):
    name = "render"
    has_model = False
    parallel = False  # cheap per case; a 16-process pool costs more than it saves

    def cases(self, ctx):
        rng = ctx.rng_for("render")
        out = []
        for _ in range(ctx.scale(500, 12000)):
            c = gen_render_case(rng)
            if c is not None:
                out.append(c)
        return out

    def impl(self, case):
        o0, s0 = render_with(case, case["d0"])
        o1, s1 = render_with(case, case["d"])
        return {"orig": o0, "rewritten": o1, "src": s0[:300], "src_rewritten": s1[:300]}

    def oracle(self, case, obs):
        return render_oracle(case, obs)

    def nontrivial(self, case, obs):
        d = case["d"]
        return all(d[i] != dp.DEFAULT[i] for i in range(4)) and sum(1 for p in case["main"] if p[0] != "text") >= 2 and "ok" in obs["orig"]

    def tags(self, case, obs):
        d = case["d"]
        t = ["comments" if d[4] else "nocomments", "ok" if "ok" in obs["orig"] else "err:" + obs["orig"]["err"]]
        if any(c in dp.META for x in d for c in x):
            t.append("metachar")
        if any(c.isalpha() for x in d for c in x):
            t.append("letters")
        if case["parts"]:
            t.append("partials")
        if any(p[0] == "tag" and p[3] == "liquid" for p in case["main"]):
            t.append("liquidtag")
        return t


def marker_collides(case):
    """The derived liquid-tag marker (comment_start_string without '{') starts a non-comment line."""
    d = case["d"]
    if not d[4] or "{" not in d[4]:
        return False
    m = dp.marker_of(d)
    for ps in [case["main"]] + list(case["parts"].values()):
        for p in ps:
            if p[0] == "tag" and p[3] == "liquid":
                for line in p[5].split("\n"):
                    s = line.lstrip(" \t")
                    if s.startswith(m) and not s.startswith(dp.MARK):
                        return True
    return False


def marker_word_prefix(case):
    """The derived marker starts with a word character but is not a whole word ('a#', '_+<'): the line rule
    `(\\w+|marker)` tries `\\w+` first, so the marker is never recognised and comment lines become tags."""
    d = case["d"]
    if not d[4]:
        return False
    m = dp.marker_of(d)
    wordch = lambda c: c == "_" or c.isalnum()
    if not (wordch(m[0]) and not all(wordch(c) for c in m)):
        return False
    return any(p[0] == "tag" and p[3] == "liquid" and dp.MARK in p[5] for ps in [case["main"]] + list(case["parts"].values()) for p in ps)


def render_oracle(case, obs):
    a, b = obs["orig"], obs["rewritten"]
    same = (a.get("ok") == b.get("ok")) if ("ok" in a and "ok" in b) else (a.get("err") == b.get("err") and "ok" not in a and "ok" not in b)
    if same:
        return None
    if marker_word_prefix(case):
        return ("render|liquid-marker|word-prefix", f"comment_start_string {case['d'][4]!r}: the liquid-tag marker {dp.marker_of(case['d'])!r} starts with a word character, `\\w+` wins over it and inline comments are parsed as tags")
    if marker_collides(case):
        return ("render|liquid-marker|brace-stripped", f"comment_start_string {case['d'][4]!r} gives the liquid-tag marker {dp.marker_of(case['d'])!r}, which starts an ordinary line")
    if any(dp.word_end_adjacent(case["d"], ps) for ps in [case["main"]] + list(case["parts"].values())):
        return ("lex|word-char-tag-end|adjacent-name", f"tag_end_string {case['d'][1]!r} starts with a word character / '#' and follows a tag name directly")
    kind = "output" if ("ok" in a and "ok" in b) else "outcome"
    return (f"render|{kind}-differs", f"delimiters {case['d']}: original {str(a)[:120]} vs rewritten {str(b)[:120]}")


# ---- hand-picked delimiter sets ---------------------------------------------------------------------
EDGE_DELIMS = [
    ["(", ")", "[", "]", "", ""], ["\\", "/", "^", "$", "", ""], ["[%", "%]", "[[", "]]", "[#", "#]"], [".*", "*.", "+?", "?+", "", ""],
    ["{%", "%}", "${", "}", "", ""], ["<%", "%>", "<$", "$>", "<!--", "-->"], ["{{", "}}", "{%", "%}", "", ""],
    ["@|", "|@", "@:", ":@", "", ""], ["a", "b", "xx", "yy", "", ""], ["{", "}", "{.", ".}", "", ""], ["%", "&", "{{", "}}", "", ""],
    ["{%", "%}", "{{", "}}", "{#", "#}"], ["{%", "%}", "{{", "}}", "{//", "//}"], ["{%", "%}", "{{", "}}", "<#", "#>"], ["-%", "%-", "-{", "}-", "", ""],
    ["{%", "%}", "{{", "}}", "{if", "fi}"], ["{%", "%}", "{{", "}}", "{for", "rof}"], ["{%", "%}", "{{", "}}", "a#", "#a"], ["{%", "%}", "{{", "}}", "_+{<", "~"],
    ["{%", "x%", "{{", "}}", "", ""], ["{%", "_%}", "{{", "}}", "", ""], ["{%", "#%}", "{{", "}}", "", ""],
]
EDGE_TEMPLATES = [
    "Hello {{ you | upcase }}!{% if x %} yes {% else %} no {% endif %}",
    "{% for i in (1..3) -%} {{ i }}, {%- endfor %} done\n",
    "{% raw %} {{ not }} {% markup %} {% endraw %}|{% comment %} {{ hidden }} {% endcomment %}|{% # inline %}",
    "{% liquid\n  assign v = 'a,b' | split: ','\n  for w in v\n    echo w | append: '.'\n  endfor\n  if x\n    echo 'X'\n  endif\n%}",
    "{%assign q = 3%}{%if q%}{{q}}{%endif%}{%unless q%}n{%endunless%}",
    "{%- capture c -%} {{ 'a b' | split: ' ' | join: '-' }} {%- endcapture -%}[{{ c }}]",
    "{% case x %}{% when 1 %}one{% when 2 %}two{% else %}many{% endcase %}{% cycle 'a', 'b' %}",
    "text only, with (parens) [brackets] $dollar ^caret \\back | pipe . dot * star + plus ? q",
]


class EdgeStream(Stream):
    name = "edge"
    has_model = False
    exhaustive = True

    def cases(self, ctx):
        out = []
        for d in EDGE_DELIMS:
            for t in EDGE_TEMPLATES:
                try:
                    main = dp.split_source(t)
                except ValueError:
                    continue
                comments = bool(d[4])
                if comments:
                    main = dp.normalize([["sc", " c ", False]] + main + [["sc", "- d", True]])
                    main = [[*p[:5], p[5].replace("\n  if x", "\n  " + dp.MARK + " c\n  if x"), *p[6:]] if p[0] == "tag" and p[3] == "liquid" else p for p in main]
                d0 = dp.DEFAULT_COMMENTS if comments else dp.DEFAULT
                # the property's own condition only: the delimiter strings do not occur in the text / in each other
                if not dp.delims_ok(d) or plain_collision(d, main) or plain_collision(d0, main):
                    continue
                for x in (0, 2):
                    out.append({"prog": {"data": {"x": x, "you": "w"}, "flags": {}, "extra": False, "autoescape": False}, "main": main, "parts": {}, "d0": d0, "d": d})
        return out

    def impl(self, case):
        o0, s0 = render_with(case, case["d0"])
        o1, s1 = render_with(case, case["d"])
        return {"orig": o0, "rewritten": o1, "src": s0[:300], "src_rewritten": s1[:300]}

    def oracle(self, case, obs):
        return render_oracle(case, obs)

    def nontrivial(self, case, obs):
        return "ok" in obs["orig"] and case["d"][:4] != dp.DEFAULT[:4]

    def tags(self, case, obs):
        return ["d=" + " ".join(case["d"][:4])]


def plain_collision(d, pieces) -> bool:
    """`collides` without the adjacency zone: only the letter of the property."""
    placements, protected = [], []
    s = dp.assemble(d, pieces, placements, protected)
    for x in {x for x in d if x}:
        placed = {pos for pos, y in placements if y == x}
        for pos in dp.occurrences(s, x):
            if pos not in placed and not any(a <= pos and pos + len(x) <= b for a, b in protected):
                return True
    import re

    return any(re.search(re.escape(d[0]) + r"-?\s*end(raw|doc)", s[a:b]) for a, b in protected)


# ---- many environments, interleaved ----------------------------------------------------------------
IL_TEMPLATES = [
    [["text", "A "], ["out", False, " ", "'a' | upcase", " ", False], ["tag", False, " ", "echo", " ", "1 | plus: 1", " ", False]],
    [["tag", False, " ", "if", " ", "true", " ", False], ["text", "T"], ["tag", False, " ", "endif", "", "", "", False], ["tag", False, " ", "unless", " ", "false", " ", False], ["text", "U"], ["tag", False, " ", "endunless", "", "", "", False]],
    [["text", "bad:"], ["tag", False, " ", "if", "", "", "", False], ["text", "x"], ["tag", False, " ", "endif", "", "", "", False], ["out", False, " ", "'z' | downcase", " ", False]],
    [["out", False, " ", "nosuch | upcase | nofilter", " ", False], ["text", " tail"]],
]
REMOVABLE_TAGS = ["echo", "unless", "if"]


def gen_env_specs(rng, n):
    specs, seen = [], set()
    while len(specs) < n:
        if rng.chance(12) and specs:
            d = rng.choice(specs)["d"]  # same delimiters, different tags / filters / tolerance: shares the lexer
        else:
            d = dp.gen_delims(rng, IL_TEMPLATES, False, tries=200)
            if d is None or tuple(d) in seen:
                continue
        seen.add(tuple(d))
        specs.append({"d": d, "mode": rng.choice(["strict", "strict", "lax", "warn"]), "drop": rng.sample(REMOVABLE_TAGS, rng.choice([0, 0, 1, 2])),
                      "upcase": rng.choice([None, None, "brackets", "reverse"]), "strict_filters": rng.chance(70)})
    return specs


def build_env(spec, isolated=False):
    """The environment a spec describes.  `isolated=True`: its lexer is compiled from its own six strings on
    every call, bypassing `get_lexer` (the reference the shared-cache result is compared with)."""
    from liquid import Environment, Mode

    cls = Environment
    if isolated:
        try:
            from functools import partial

            from liquid.lex import _tokenize_template, compile_liquid_rules

            class _Isolated(Environment):
                def tokenizer(self):
                    return partial(_tokenize_template, rules=compile_liquid_rules(
                        self.tag_start_string, self.tag_end_string, self.statement_start_string, self.statement_end_string,
                        self.comment_start_string, self.comment_end_string))

            cls = _Isolated
        except ImportError:  # the lexer was reorganised: fall back to cleared caches only
            cls = Environment
    env = cls(tolerance={"strict": Mode.STRICT, "lax": Mode.LAX, "warn": Mode.WARN}[spec["mode"]], strict_filters=spec["strict_filters"], **envkw(spec["d"]))
    for t in spec["drop"]:
        env.tags.pop(t, None)
    if spec["upcase"] == "brackets":
        env.add_filter("upcase", lambda s: "[" + str(s) + "]")
    elif spec["upcase"] == "reverse":
        env.add_filter("upcase", lambda s: str(s)[::-1])
    return env


def use_env(env, spec, tmpl):
    from ..impl.render import outcome

    src = dp.assemble(spec["d"], IL_TEMPLATES[tmpl])
    return outcome(lambda: env.from_string(src).render())


def _cached_functions():
    from liquid import environment, lex, parser

    return [(lex, "get_lexer"), (parser, "get_parser"), (environment, "get_implicit_environment")]


def clear_caches():
    """Empty the process-wide lexer / parser / implicit-environment caches, whatever they are made of:
    `functools.lru_cache` wrappers are cleared, and so is every private module-level dict of the three modules
    (a hand-rolled cache)."""
    for mod, name in _cached_functions():
        fn = getattr(mod, name, None)
        if hasattr(fn, "cache_clear"):
            fn.cache_clear()
        for k, v in list(vars(mod).items()):
            if k.startswith("_") and not k.startswith("__") and isinstance(v, dict):
                v.clear()


def cache_counts(mod_name):
    """(hits, misses, currsize) of a cached function, or None when it is not an lru_cache any more."""
    for mod, name in _cached_functions():
        if name == mod_name:
            fn = getattr(mod, name, None)
            if hasattr(fn, "cache_info"):
                i = fn.cache_info()
                return (i.hits, i.misses, i.currsize)
    return None


def lexes_as_own(env, spec):
    """Behavioural: the lexer the environment hands out tokenises a probe written with the environment's
    delimiters exactly as a lexer compiled from those delimiters would (independent of how lexers are cached)."""
    toks = []
    for t in (0, 1):
        src = dp.assemble(spec["d"], IL_TEMPLATES[t])
        try:
            toks.append([[k.kind, k.value] for k in env.tokenizer()(src)])
        except Exception as e:  # noqa: BLE001
            toks.append(type(e).__name__)
    want = []
    for t in (0, 1):
        ks, err = real_lex_isolated(spec["d"], dp.assemble(spec["d"], IL_TEMPLATES[t]))
        want.append([[k, v] for k, v, _ in ks] if err is None else "LiquidSyntaxError")
    return toks == want


def real_lex_isolated(d, src):
    from liquid.exceptions import LiquidSyntaxError
    from liquid.lex import _tokenize_template, compile_liquid_rules

    toks, err = [], None
    try:
        for t in _tokenize_template(src, compile_liquid_rules(*d)):
            toks.append([t.kind, t.value, t.start_index])
    except LiquidSyntaxError as e:
        err = [e.token.kind, e.token.value, e.token.start_index]
    return toks, err


class InterleaveStream(Stream):
    name = "interleave"

    def cases(self, ctx):
        rng = ctx.rng_for("interleave")
        out = []
        for _ in range(ctx.scale(4, 40)):
            n = rng.range(160, 185) if rng.chance(75) else rng.range(3, 20)
            specs = gen_env_specs(rng, n)
            sched = []
            created = 0
            while created < n or rng.chance(60):
                if created < n and (created == 0 or rng.chance(45)):
                    sched.append(["new", created])
                    created += 1
                else:
                    sched.append(["use", rng.below(created), rng.below(len(IL_TEMPLATES))])
                if len(sched) > 3 * n + 40:
                    break
            for i in range(created):  # every environment is used again at the end, oldest first
                sched.append(["use", i, rng.below(len(IL_TEMPLATES))])
            if rng.chance(50):
                k = rng.below(created)
                sched.insert(rng.range(len(sched) // 2, len(sched) - 1), ["mode", k, rng.choice(["strict", "lax"])])
            out.append({"specs": specs, "sched": sched})
        return out

    def impl(self, case):
        from liquid import Mode, parser

        modes = {"strict": Mode.STRICT, "lax": Mode.LAX, "warn": Mode.WARN}
        specs = [dict(s) for s in case["specs"]]
        clear_caches()
        envs, results, cache_obs = {}, [], []
        for op in case["sched"]:
            if op[0] == "new":
                envs[op[1]] = build_env(specs[op[1]])
            elif op[0] == "mode":
                if op[1] in envs:
                    envs[op[1]].mode = modes[op[2]]
                    specs[op[1]]["mode"] = op[2]
            else:
                _, i, t = op
                env = envs[i]
                l0, p0 = cache_counts("get_lexer"), cache_counts("get_parser")
                r = use_env(env, specs[i], t)
                l1, p1 = cache_counts("get_lexer"), cache_counts("get_parser")
                results.append([i, t, dict(specs[i]), r])
                cache_obs.append({"lexer_hit": None if l0 is None else (l1[0] > l0[0] and l1[1] == l0[1]),
                                  "parser_hit": None if p0 is None else (p1[0] > p0[0] and p1[1] == p0[1]),
                                  "lexer_is_own": lexes_as_own(env, specs[i]), "parser_is_own": parser.get_parser(env).env is env})
        lc, pc = cache_counts("get_lexer"), cache_counts("get_parser")
        final_sizes = [lc[2] if lc else 0, pc[2] if pc else 0]
        # the same uses one environment at a time: caches emptied, and the lexer compiled from the environment's own strings
        fresh = []
        for i, t, spec, _ in results:
            clear_caches()
            fresh.append(use_env(build_env(spec, isolated=True), spec, t))
        clear_caches()
        bad = [[k, results[k][0], results[k][1], results[k][3], fresh[k]] for k in range(len(results)) if results[k][3] != fresh[k]]
        evictions = sum(1 for c in cache_obs if c["lexer_hit"] is False) - len({tuple(s["d"]) for s in specs})
        return {"uses": len(results), "bad": bad[:3], "cache": cache_obs, "sizes": final_sizes, "evictions": max(0, evictions),
                "outcomes": sorted({("ok" if "ok" in r[3] else r[3]["err"]) for r in results})}

    def line(self, case):
        ops = []
        modes = {"strict": 0, "lax": 1, "warn": 2}
        for op in case["sched"]:
            if op[0] == "new":
                s = case["specs"][op[1]]
                ops.append(["new", s["d"], modes[s["mode"]], [], []])
            elif op[0] == "mode":
                ops.append(["mode", op[1], modes[op[2]]])
            else:
                ops.append(["parse", op[1]])
        return ["proc", ops]

    def compare_view(self, case, obs):
        return [{"lexer_hit": c["lexer_hit"], "parser_hit": c["parser_hit"], "lexer_is_own": c["lexer_is_own"], "parser_is_own": c["parser_is_own"]} for c in obs["cache"]]

    def canon_model(self, case, mobs):
        if not isinstance(mobs, list):
            return mobs
        mobs = dp.unwrap(mobs)
        out = []
        uses = [op for op in case["sched"] if op[0] == "use"]
        k = 0
        for op, m in zip(case["sched"], mobs):
            if op[0] != "use":
                continue
            spec = case["specs"][op[1]]
            out.append({"lexer_hit": m["lexer_hit"], "parser_hit": m["parser_hit"], "lexer_is_own": m["lexer"] == spec["d"], "parser_is_own": m["parser_env"] == op[1]})
            k += 1
        return out

    def oracle(self, case, obs):
        if obs["bad"]:
            k, i, t, got, exp = obs["bad"][0]
            d = case["specs"][i]["d"]
            return (f"{self.name}|result-differs", f"use {k}: environment {i} (delimiters {d}) template {t} gave {str(got)[:100]}; alone it gives {str(exp)[:100]}")
        for k, c in enumerate(obs["cache"]):
            if not c["lexer_is_own"]:
                return (f"{self.name}|foreign-lexer", f"use {k} got a lexer that does not tokenise with the environment's own delimiters")
            if not c["parser_is_own"]:
                return (f"{self.name}|foreign-parser", f"use {k} got a parser bound to another environment")
        if obs["sizes"][0] > 128 or obs["sizes"][1] > 128:
            return (f"{self.name}|cache-size", f"cache sizes {obs['sizes']}")
        return None

    def nontrivial(self, case, obs):
        return obs["evictions"] > 0

    def tags(self, case, obs):
        return [f"envs{'>128' if len(case['specs']) > 128 else '<=128'}", f"evictions{'>0' if obs['evictions'] else '=0'}"] + ["outcome:" + o for o in obs["outcomes"]]

    def shrink_candidates(self, case):
        s = case["sched"]
        for i in range(len(s)):
            if s[i][0] != "new":
                yield {"specs": case["specs"], "sched": s[:i] + s[i + 1 :]}


def clash_variants(d):
    """Delimiter sets that differ from d but agree with it on everything a sloppy cache key might keep:
    the same concatenation (a character moved across the boundary between two neighbouring strings), the same
    set of strings in other roles, or equality on five of the six strings."""
    n = 6 if d[4] else 4
    out = []
    for i in range(n - 1):
        a, b = d[i], d[i + 1]
        if len(a) >= 2:
            v = list(d)
            v[i], v[i + 1] = a[:-1], a[-1] + b
            out.append(["shift-right", v])
        if len(b) >= 2:
            v = list(d)
            v[i], v[i + 1] = a + b[0], b[1:]
            out.append(["shift-left", v])
    v = list(d)
    v[0], v[2], v[1], v[3] = d[2], d[0], d[3], d[1]
    out.append(["roles-tag-output", v])
    v = list(d)
    v[0], v[1], v[2], v[3] = d[1], d[0], d[3], d[2]
    out.append(["roles-start-end", v])
    if d[4]:
        v = list(d)
        v[4], v[5], v[2], v[3] = d[2], d[3], d[4], d[5]
        out.append(["roles-output-comment", v])
    for i in range(n):
        for alt in (d[i] + "~", "~" + d[i], d[i][::-1]):
            if alt != d[i]:
                v = list(d)
                v[i] = alt
                out.append([f"one-differs-{i}", v])
                break
    ok = []
    for kind, v in out:
        if v != list(d) and dp.delims_ok(v) and not any(dp.collides(v, t) for t in IL_TEMPLATES):
            ok.append([kind, v])
    return ok


CLASH_BASES = [
    ["<", "?>", "{{", "}}", "", ""], ["<?", "?>", "<=", "=>", "", ""], ["[%", "%]", "[[", "]]", "", ""], ["{%", "%}", "{{", "}}", "{#", "#}"],
    ["(:", ":)", "(=", "=)", "(*", "*)"], ["@@", "$$", "@$", "$@", "", ""], ["{%", "%}", "{{", "}}", "", ""],
]


class KeyClashStream(InterleaveStream):
    """Two or three environments whose delimiter sets differ but would be confused by a cache key that is
    anything less than the six strings in their roles, used alternately."""

    name = "keyclash"

    def cases(self, ctx):
        rng = ctx.rng_for("keyclash")
        bases = [list(b) for b in CLASH_BASES]
        for _ in range(ctx.scale(6, 120)):
            d = dp.gen_delims(rng, IL_TEMPLATES, rng.chance(40), tries=200)
            if d is not None and all(len(x) >= 2 for x in d if x):
                bases.append(d)
        out = []
        for b in bases:
            if not dp.delims_ok(b) or any(dp.collides(b, t) for t in IL_TEMPLATES):
                continue
            vs = clash_variants(b)
            groups = [[["base", b], v] for v in vs]
            shifts = [v for v in vs if v[0].startswith("shift")]
            for i in range(0, len(shifts) - 1, 2):
                groups.append([["base", b], shifts[i], shifts[i + 1]])
            for g in groups:
                order = list(range(len(g)))
                if rng.chance(50):
                    order.reverse()  # the variant is used first
                specs = [{"d": g[j][1], "mode": "strict", "drop": [], "upcase": None, "strict_filters": True} for j in order]
                sched = [["new", j] for j in range(len(specs))]
                for rnd in range(3):
                    for j in range(len(specs)):
                        sched.append(["use", j, (rnd + j) % 2])
                out.append({"specs": specs, "sched": sched, "kinds": [g[j][0] for j in order]})
        return out

    def nontrivial(self, case, obs):
        return True

    def tags(self, case, obs):
        return sorted({k.split("-")[0] + ("-" + k.split("-")[1] if k.startswith("roles") else "") for k in case["kinds"] if k != "base"}) + [f"envs{len(case['specs'])}"]

    def shrink_candidates(self, case):
        s = case["sched"]
        for i in range(len(s) - 1, -1, -1):
            if s[i][0] == "use":
                yield {"specs": case["specs"], "sched": s[:i] + s[i + 1 :], "kinds": case["kinds"]}


class ImplicitStream(Stream):
    """liquid.Template(): the implicit environment is memoised (maxsize 10) on all its arguments."""

    name = "implicit"
    has_model = False

    def cases(self, ctx):
        rng = ctx.rng_for("implicit")
        out = []
        for _ in range(ctx.scale(6, 120)):
            n = rng.range(11, 16)
            cfgs = []
            for _ in range(n):
                d = dp.gen_delims(rng, IL_TEMPLATES, False, tries=200) if rng.chance(60) else dp.DEFAULT
                cfgs.append({"d": d, "mode": rng.choice(["strict", "lax", "warn"]), "strict_filters": rng.chance(50), "autoescape": rng.chance(30), "extra": rng.chance(30)})
            sched = [[rng.below(n), rng.below(len(IL_TEMPLATES))] for _ in range(rng.range(30, 60))]
            out.append({"cfgs": cfgs, "sched": sched})
        return out

    def _use(self, cfg, t):
        import liquid
        from liquid import Mode

        from ..impl.render import outcome

        d = cfg["d"]
        src = dp.assemble(d, IL_TEMPLATES[t])
        return outcome(lambda: liquid.Template(src, tag_start_string=d[0], tag_end_string=d[1], statement_start_string=d[2], statement_end_string=d[3],
                                               tolerance={"strict": Mode.STRICT, "lax": Mode.LAX, "warn": Mode.WARN}[cfg["mode"]], strict_filters=cfg["strict_filters"],
                                               autoescape=cfg["autoescape"], extra=cfg["extra"]).render())

    def impl(self, case):
        from liquid import environment

        clear_caches()
        got = [self._use(case["cfgs"][i], t) for i, t in case["sched"]]
        c = cache_counts("get_implicit_environment")
        size = c[2] if c else 0
        exp = []
        for i, t in case["sched"]:
            clear_caches()
            exp.append(self._use(case["cfgs"][i], t))
        clear_caches()
        bad = [[k, got[k], exp[k]] for k in range(len(got)) if got[k] != exp[k]]
        return {"uses": len(got), "bad": bad[:3], "size": size}

    def oracle(self, case, obs):
        if obs["bad"]:
            k, g, e = obs["bad"][0]
            return ("implicit|result-differs", f"Template() call {k} gave {str(g)[:100]}; alone it gives {str(e)[:100]}")
        if obs["size"] > 10:
            return ("implicit|cache-size", str(obs["size"]))
        return None

    def nontrivial(self, case, obs):
        return len(case["cfgs"]) > 10


class MemoStream(Stream):
    name = "memo"

    def cases(self, ctx):
        rng = ctx.rng_for("memo")
        out = []
        for _ in range(ctx.scale(150, 5000)):
            m = rng.choice([0, 1, 2, 3, 5, 10, 128])
            nk = rng.range(1, 2 * m + 4) if m < 100 else rng.range(100, 200)
            out.append({"maxsize": m, "keys": [rng.below(nk) for _ in range(rng.range(1, 40) if m < 100 else rng.range(200, 500))]})
        return out

    def impl(self, case):
        import functools

        calls = []

        @functools.lru_cache(maxsize=case["maxsize"])
        def f(k):
            calls.append(k)
            return k * 7 + 1

        res, hits = [], []
        for k in case["keys"]:
            n = len(calls)
            res.append(f(k))
            hits.append(len(calls) == n)
        return {"results": res, "hits": hits, "size": f.cache_info().currsize}

    def line(self, case):
        return ["memo", case["maxsize"], case["keys"]]

    def oracle(self, case, obs):
        for k, r in zip(case["keys"], obs["results"]):
            if r != k * 7 + 1:
                return ("memo|wrong-result", f"f({k}) returned {r}")
        if obs["size"] > case["maxsize"]:
            return ("memo|size", "cache grew beyond maxsize")
        return None

    def nontrivial(self, case, obs):
        return len(set(case["keys"])) > case["maxsize"] > 0

    def tags(self, case, obs):
        return [f"maxsize{case['maxsize']}"]


def streams(ctx):
    return [MemoStream(), LexStream(), EdgeStream(), RenderStream(), KeyClashStream(), InterleaveStream(), ImplicitStream()]
