"""C09 — parsing and rendering always terminate within the stack.

Every case runs on the real code **in a child process** (harness/impl/c09_child.py, started by
harness/impl/c09_run.py): CPU time is limited inside the child (ITIMER_VIRTUAL, so a loaded machine does not
produce false time-outs), wall-clock by the parent, and a blown stack or a crash cannot take the check down.
Observation = error class | ok | RecursionError | timeout | crash.

A *recursion case* is a pool of templates written as a small AST over the constructs that push a scope, copy a
context or relocate a block (probe, if/unless/case/capture/… blocks, for/tablerow/with, include, render, macro/call,
extends/block); it is turned into Liquid source for the engine and sent as it is to the Lean model
(Model/Recur.lean).  Probes are `{{ id | probe }}` with a context-aware filter that records `_copy_depth`,
`scope.size()` and the Python frame depth (a `sys._getframe` walk) relative to the first probe of the render.
"""
from __future__ import annotations

from ..core import Stream

ID = "C09"
LEAN_MODULE = "LiquidVerif.Props.C09"
TRANSLATE = False

R_LIMIT = 1000  # CPython default recursion limit (the children of flavour `std` run with it)
DEFAULT_DEPTH = 30  # Environment.context_depth_limit
BLOCK_LIMIT = 30  # Environment.block_nesting_limit

PLAIN_VARIANTS = ["if", "unless", "ifelse", "elsif", "unlesselse", "caseelse", "forelse", "capture", "ifchanged"]
FOR_VARIANTS = ["for", "tablerow", "with"]


# ---- AST -> Liquid source ---------------------------------------------------------------------------
def src_nodes(nodes) -> str:
    return "".join(src_node(n) for n in nodes)


def src_node(n) -> str:
    k = n[0]
    if k == "probe":
        return "{{ %d | probe }}" % n[1]
    if k == "blk":
        kind, variant, body = n[1], n[2], src_nodes(n[3])
        if kind == "when":
            return "{% case 1 %}{% when 1 %}" + body + "{% endcase %}"
        return {
            "if": "{% if true %}" + body + "{% endif %}",
            "unless": "{% unless false %}" + body + "{% endunless %}",
            "ifelse": "{% if false %}x{% else %}" + body + "{% endif %}",
            "elsif": "{% if false %}x{% elsif true %}" + body + "{% endif %}",
            "unlesselse": "{% unless true %}x{% else %}" + body + "{% endunless %}",
            "caseelse": "{% case 1 %}{% when 2 %}x{% else %}" + body + "{% endcase %}",
            "forelse": "{% for zz in nosuchthing %}x{% else %}" + body + "{% endfor %}",
            "capture": "{% capture cc %}" + body + "{% endcapture %}",
            "ifchanged": "{% ifchanged %}" + body + "{% endifchanged %}",
        }[variant]
    if k == "for":
        cnt, variant, body = n[1], n[2], src_nodes(n[3])
        if cnt == 0:
            return "{% for zz in nosuchthing %}" + body + "{% endfor %}"
        if variant == "tablerow":
            return "{%% tablerow zz in (1..%d) %%}" % cnt + body + "{% endtablerow %}"
        if variant == "with" and cnt == 1:
            return "{% with ww: 1 %}" + body + "{% endwith %}"
        return "{%% for zz in (1..%d) %%}" % cnt + body + "{% endfor %}"
    if k == "include":
        return "{% include '" + n[1] + "' %}"
    if k == "render":
        return "{% render '" + n[1] + "' %}"
    if k == "macro":
        return "{% macro " + n[1] + " %}" + src_nodes(n[2]) + "{% endmacro %}"
    if k == "call":
        return "{% call " + n[1] + " %}"
    if k == "extends":
        return "{% extends '" + n[1] + "' %}"
    if k == "block":
        return "{% block " + n[1] + " %}" + src_nodes(n[2]) + "{% endblock %}"
    raise ValueError(n)


def wrap(node, d: int, variants):
    """`node` nested in `d` block levels (variants cycled)."""
    for i in range(d):
        v = variants[i % len(variants)]
        if v in FOR_VARIANTS:
            node = ["for", 1, v, [node]]
        elif v == "when":
            node = ["blk", "when", "when", [node]]
        else:
            node = ["blk", "plain", v, [node]]
    return node


def render_job(case, full=True, cpu=None):
    return {
        "kind": "render",
        "templates": [[name, src_nodes(body)] for name, body in case["templates"]],
        "main": case["main"],
        "mode": case["mode"],
        "limit": case["limit"],
        "async": bool(case.get("async")),
        "full": full,
        "cpu_limit": cpu if cpu is not None else case.get("cpu", 20.0),
    }


def model_line(case, full):
    return ["recur", case["mode"] != "strict", case["limit"], case["templates"], case["main"], full]


PROPERTY_ERRORS = ("ContextDepthError", "TemplateInheritanceError")
OTHER_LIQUID = ("TemplateNotFoundError", "DisabledTagError")


# ---- stream 1: random recursion families, depth accounting + frames, against the model ---------------
class Gen:
    def __init__(self, rng, names, lax):
        self.rng = rng
        self.names = names
        self.lax = lax
        self.next_id = 1
        self.calls = 0  # recursive call sites in the current template (fan-out control in lax mode)

    def pid(self):
        self.next_id += 1
        return self.next_id - 1

    def call_site(self):
        r = self.rng
        k = r.below(100)
        name = r.choice(self.names + ["nosuch"] if r.chance(4) else self.names)
        if k < 34:
            return ["render", name]
        if k < 62:
            return ["include", name]
        if k < 74:
            return ["call", r.choice(["m0", "m1"])]
        if k < 88:
            return ["block", r.choice(["b0", "b1", "b2"]), self.body(1, 2)]
        return ["extends", name]

    def node(self, depth, maxd):
        r = self.rng
        k = r.below(100)
        if k < 22 or depth >= maxd:
            if k < 12 or (self.lax and self.calls >= 2):
                return ["probe", self.pid()]
            self.calls += 1
            return self.call_site()
        if k < 50:
            kind = "when" if r.chance(20) else "plain"
            return ["blk", kind, "when" if kind == "when" else r.choice(PLAIN_VARIANTS), self.body(depth + 1, maxd)]
        if k < 66:
            n = 1 if self.lax else r.choice([0, 1, 1, 1, 2])
            v = r.choice(FOR_VARIANTS)
            if v == "with" and n != 1:
                v = "for"
            if v == "tablerow" and n == 0:
                v = "for"
            return ["for", n, v, self.body(depth + 1, maxd)]
        if k < 74:
            return ["macro", r.choice(["m0", "m1"]), self.body(depth + 1, maxd)]
        if self.lax and self.calls >= 2:
            return ["probe", self.pid()]
        self.calls += 1
        return self.call_site()

    def body(self, depth, maxd):
        n = self.rng.choice([1, 1, 2, 2, 3])
        return [self.node(depth, maxd) for _ in range(n)]

    def template(self):
        self.calls = 0
        return [["probe", self.pid()]] + self.body(0, self.rng.choice([1, 2, 3, 4]))


def events_digest(evs):
    h = 7
    P = 2305843009213693951
    for e in evs:
        for x in e:
            h = (h * 1000003 + x + 1) % P
    return str(h)


class DepthStream(Stream):
    """Random recursion families in a child with the Python stack out of the way (recursion limit 10^6,
    RLIMIT_STACK raised): error class, every probe's (_copy_depth, scope.size(), frame depth) against the model."""

    name = "depth"
    parallel = True

    def cases(self, ctx):
        rng = ctx.rng_for("depth")
        out = []
        for i in range(ctx.scale(260, 2400)):
            lax = rng.chance(30)
            names = ["main"] + [f"t{j}" for j in range(rng.choice([0, 1, 1, 2, 3]))]
            g = Gen(rng, names, lax)
            tpls = [[nm, g.template()] for nm in names]
            limit = rng.choice([4, 5]) if lax else rng.choice([3, 4, 5, 6, 7, 8, 10, 12, 16, 30, 30])
            out.append({"templates": tpls, "main": "main", "mode": rng.choice(["lax", "warn"]) if lax else "strict", "limit": limit})
        return out

    def impl(self, case):
        from ..impl.c09_run import run_job

        r = run_job(render_job(case, full=True, cpu=120.0), flavour="hi", wall_limit=600.0)
        evs = r.get("evs") or []
        return {
            "out": r["out"],
            "n": len(evs),
            "digest": events_digest(evs),
            "maxCopy": max([e[1] for e in evs], default=0),
            "maxScope": max([e[2] for e in evs], default=0),
            "maxFrames": max([e[3] for e in evs], default=0),
            "head": evs[:6],
        }

    def line(self, case):
        return model_line(case, True)

    def canon_model(self, case, m):
        if not isinstance(m, dict) or "evs" not in m:
            return m
        return {
            "out": m["out"],
            "n": m["n"],
            "digest": m["digest"],
            "maxCopy": m["maxCopy"],
            "maxScope": m["maxScope"],
            "maxFrames": m["maxFrames"],
            "head": m["evs"][:6],
        }

    def oracle(self, case, obs):
        o = obs["out"]
        lim = case["limit"]
        if o in ("timeout", "crash"):
            return (f"depth|{o}", f"render did not finish: {o}")
        if o == "RecursionError":
            return ("depth|RecursionError", "RecursionError with the recursion limit at 10^6")
        if o not in ("ok",) + PROPERTY_ERRORS + OTHER_LIQUID + ("AssertionError",):
            return (f"depth|unexpected|{o}", f"unexpected outcome {o}")
        if obs["maxCopy"] > lim + 1:
            return ("depth|copies>limit+1", f"a probe ran at _copy_depth {obs['maxCopy']} with context_depth_limit {lim}")
        if obs["maxScope"] > max(lim + 1, 4):
            return ("depth|scope>limit+1", f"a probe ran with scope.size() {obs['maxScope']} with context_depth_limit {lim}")
        return None

    def nontrivial(self, case, obs):
        return obs["out"] in PROPERTY_ERRORS or obs["maxCopy"] >= 2 or obs["maxScope"] >= 8

    def tags(self, case, obs):
        return [obs["out"], case["mode"], f"limit{case['limit']}", "frames>=1000" if obs["maxFrames"] >= 1000 else "frames<1000"]


# ---- stream 2: parser loops against the model -----------------------------------------------------------
STRAY = ["endif", "endunless", "endcase", "endfor", "endcapture", "endcomment", "enddoc", "else", "elsif x", "when 1",
         "foo", "foo bar", "endfoo", "break", "break now", "assign", "assign v = 2", "liquid", "case", "if", "for", "capture",
         "unless", "comment", "doc", "doc x", "else extra", "endif extra"]


class PGen:
    """Liquid source over the tags of Model/ParseLoops.lean, as a list of pieces (markup or text)."""

    def __init__(self, rng):
        self.r = rng

    def text(self):
        return self.r.choice(["a", " b ", "\n", "x y", "1"])

    def block(self, depth, maxd):
        out = []
        for _ in range(self.r.choice([0, 1, 1, 2, 2, 3])):
            out += self.item(depth, maxd)
        return out

    def item(self, depth, maxd):
        r = self.r
        k = r.below(100)
        if depth >= maxd or k < 24:
            return [r.choice([self.text(), "{{ x }}", "{{ x | upcase }}", "{% assign v = 1 %}", "{% break %}", "{% raw %}{{ r }}{% endraw %}",
                              "{% comment %}c {% if %} c{% endcomment %}", "{% doc %}d{% enddoc %}", "{%- assign w = x -%}"])]
        if k < 40:
            out = ["{% if a %}"] + self.block(depth + 1, maxd)
            for _ in range(r.choice([0, 0, 1, 2])):
                out += ["{% elsif b == 1 %}"] + self.block(depth + 1, maxd)
            if r.chance(45):
                out += [r.choice(["{% else %}", "{% else %}", "{% else junk %}"])] + self.block(depth + 1, maxd)
            if r.chance(8):
                out += [r.choice(["{% else %}", "{% elsif c %}"])] + self.block(depth + 1, maxd)  # extraneous, ignored
            return out + ["{% endif %}"]
        if k < 50:
            out = ["{% unless a %}"] + self.block(depth + 1, maxd)
            if r.chance(30):
                out += ["{% elsif b %}"] + self.block(depth + 1, maxd)
            if r.chance(40):
                out += ["{% else %}"] + self.block(depth + 1, maxd)
            return out + ["{% endunless %}"]
        if k < 64:
            out = ["{% case a %}"] + ([self.text()] if r.chance(40) else [])
            for _ in range(r.choice([0, 1, 2, 3])):
                if r.chance(75):
                    out += [r.choice(["{% when 1 %}", "{% when 1, 2 %}", "{% when 'a' or 'b' %}"])] + self.block(depth + 1, maxd)
                else:
                    out += ["{% else %}"] + self.block(depth + 1, maxd)
            return out + ["{% endcase %}"]
        if k < 76:
            out = ["{% for i in (1..3) %}"] + self.block(depth + 1, maxd)
            if r.chance(35):
                out += ["{% else %}"] + self.block(depth + 1, maxd)
            return out + ["{% endfor %}"]
        if k < 84:
            return ["{% capture v %}"] + self.block(depth + 1, maxd) + ["{% endcapture %}"]
        if k < 94:
            lines = []
            for _ in range(r.choice([0, 1, 2, 3])):
                lines += r.choice([["assign v = 1"], ["break"], ["if a", "assign v = 2", "endif"], ["for i in (1..2)", "break", "endfor"],
                                   ["case a", "when 1", "assign v = 3", "endcase"], ["if a"], ["endif"], ["liquid assign q = 1"],
                                   ["unless a", "else", "assign v = 4", "endunless"], ["foo"], ["capture v", "endcapture"], ["liquid if a"]])
            return ["{% liquid " + "\n ".join(lines) + " %}"]
        return ["{% " + r.choice(STRAY) + " %}"]


def damage(rng, pieces):
    pieces = list(pieces)
    for _ in range(rng.choice([1, 1, 2, 3])):
        if not pieces:
            pieces.append("{% " + rng.choice(STRAY) + " %}")
            continue
        i = rng.below(len(pieces))
        k = rng.below(7)
        pc = pieces[i]
        if k == 0:
            del pieces[i]
        elif k == 1:
            pieces.insert(i, pc)
        elif k == 2:
            pieces.insert(i, "{% " + rng.choice(STRAY) + " %}")
        elif k == 3 and pc.startswith("{%"):
            import re

            m = re.match(r"(\{%-?\s*\w+)", pc)
            pieces[i] = (m.group(1) + " %}") if m else pc  # the tag without its expression
        elif k == 4:
            pieces = pieces[: i + 1]  # unterminated: everything after is gone
        elif k == 5:
            j = rng.below(len(pieces))
            pieces[i], pieces[j] = pieces[j], pieces[i]
        else:
            pieces.insert(i, rng.choice(["{% if a %}", "{% case a %}", "{% for i in a %}", "{% unless a %}", "{% capture c %}", "{% comment %}", "{% case %}"]))
    return pieces


class ParseStream(Stream):
    """Structured and damaged sources over the modelled tags: the real lexer's tokens go to the model, which must
    reproduce the outcome class, the number of tokens consumed (`stream.pos`) and the skeleton of the tree."""

    name = "parse"
    parallel = True

    def cases(self, ctx):
        rng = ctx.rng_for("parse")
        out = []
        for i in range(ctx.scale(700, 9000)):
            g = PGen(rng)
            k = rng.below(100)
            if k < 8:
                d = rng.choice([5, 28, 29, 30, 31, 32, 40])
                opener, closer = rng.choice([("{% if a %}", "{% endif %}"), ("{% for i in a %}", "{% endfor %}"), ("{% case a %}{% when 1 %}", "{% endcase %}"),
                                             ("{% capture c %}", "{% endcapture %}"), ("{% liquid if a %}", "")])
                pieces = [opener] * d + g.block(1, 2) + [closer] * (d if rng.chance(70) else rng.below(d + 1)) + g.block(0, 1)
            else:
                pieces = g.block(0, rng.choice([1, 2, 3, 4]))
            if rng.chance(55):
                pieces = damage(rng, pieces)
            out.append({"source": "".join(pieces), "mode": rng.choice(["strict", "lax", "lax", "warn"]), "block_limit": rng.choice([30, 30, 30, 3, 5])})
        return out

    def impl(self, case):
        from ..impl.c09_run import run_job

        r = run_job({"kind": "parse", "model": True, "source": case["source"], "mode": case["mode"], "block_limit": case["block_limit"], "cpu_limit": 20.0}, "std", 120.0)
        return {k: r.get(k) for k in ("out", "liquid", "tokens", "ntokens", "pos", "skeleton", "cpu_s")}

    def line_obs(self, case, obs):
        if obs.get("tokens") is None:
            return None
        return ["parse", case["mode"] != "strict", case["block_limit"], obs["tokens"]]

    def compare_view(self, case, obs):
        return {"out": obs["out"], "pos": obs["pos"], "skeleton": obs["skeleton"]}

    def canon_model(self, case, m):
        if not isinstance(m, dict) or "pos" not in m:
            return m
        self._last = m
        return {"out": m["out"], "pos": m["pos"], "skeleton": m["skeleton"]}

    def oracle(self, case, obs):
        o = obs["out"]
        if o in ("timeout", "crash", "RecursionError"):
            return (f"parse|{o}", f"parsing did not finish normally: {o}")
        if o != "ok" and not o.startswith("lexer:") and not obs.get("liquid"):
            return (f"parse|non-liquid|{o}", f"{o} escaped the parser")
        if obs.get("cpu_s") is not None and obs["cpu_s"] > PARSE_CPU_S:
            return ("parse|slow", f"{obs['cpu_s']} s CPU for {len(case['source'])} characters")
        return None

    def nontrivial(self, case, obs):
        return obs.get("ntokens") is not None and obs["ntokens"] >= 4 and (obs["out"] != "ok" or "illegal" in (obs.get("skeleton") or []) or (obs.get("skeleton") or []).count("(") >= 2)

    def tags(self, case, obs):
        sk = obs.get("skeleton") or []
        return [obs["out"], case["mode"], "illegal-node" if "illegal" in sk else "clean", f"limit{case['block_limit']}",
                "tokens>=20" if (obs.get("ntokens") or 0) >= 20 else "tokens<20"]


PARSE_CPU_S = 5.0


def streams(ctx):
    return [DepthStream(), ParseStream()]


RULE = "wip"
TRUSTED_BASE = ["wip"]
ASSUMPTIONS = ["wip"]
MANIFEST = {"technique": "wip", "text": "wip", "note": "wip"}
