"""C09 — parsing and rendering always terminate within the stack.

Every case runs on the real code **in a child process** (harness/impl/c09_child.py, started by
harness/impl/c09_run.py): CPU time is limited inside the child (ITIMER_VIRTUAL, so a loaded machine does not
produce false time-outs), wall-clock by the parent, and a blown stack or a crash cannot take the check down.
Observation = error class | ok | RecursionError | timeout | crash.

A *recursion case* is a pool of templates written as a small AST over the constructs that push a scope, copy a
context or relocate a block (probe, if/unless/case/capture/… blocks, for/tablerow/with, include, render, macro/call,
extends/block); it is turned into Liquid source for the engine and sent as it is to the Lean model
(Model/Recur.lean).  Probes are `{{ id | probe }}` with a context-aware filter that records `_copy_depth`,
`scope.size()` and the Python frame depth (a `sys._getframe` walk) relative to the first probe of the render.
"""
from __future__ import annotations

from ..core import Stream

ID = "C09"
LEAN_MODULE = "LiquidVerif.Props.C09"
TRANSLATE = False

R_LIMIT = 1000  # CPython default recursion limit (the children of flavour `std` run with it)
DEFAULT_DEPTH = 30  # Environment.context_depth_limit
BLOCK_LIMIT = 30  # Environment.block_nesting_limit

PLAIN_VARIANTS = ["if", "unless", "ifelse", "elsif", "unlesselse", "caseelse", "forelse", "capture", "ifchanged"]
FOR_VARIANTS = ["for", "tablerow", "with"]


# ---- AST -> Liquid source ---------------------------------------------------------------------------
def src_nodes(nodes) -> str:
    return "".join(src_node(n) for n in nodes)


def src_node(n) -> str:
    k = n[0]
    if k == "probe":
        return "{{ %d | probe }}" % n[1]
    if k == "blk":
        kind, variant, body = n[1], n[2], src_nodes(n[3])
        if kind == "when":
            return "{% case 1 %}{% when 1 %}" + body + "{% endcase %}"
        return {
            "if": "{% if true %}" + body + "{% endif %}",
            "unless": "{% unless false %}" + body + "{% endunless %}",
            "ifelse": "{% if false %}x{% else %}" + body + "{% endif %}",
            "elsif": "{% if false %}x{% elsif true %}" + body + "{% endif %}",
            "unlesselse": "{% unless true %}x{% else %}" + body + "{% endunless %}",
            "caseelse": "{% case 1 %}{% when 2 %}x{% else %}" + body + "{% endcase %}",
            "forelse": "{% for zz in nosuchthing %}x{% else %}" + body + "{% endfor %}",
            "capture": "{% capture cc %}" + body + "{% endcapture %}",
            "ifchanged": "{% ifchanged %}" + body + "{% endifchanged %}",
        }[variant]
    if k == "for":
        cnt, variant, body = n[1], n[2], src_nodes(n[3])
        if cnt == 0:
            return "{% for zz in nosuchthing %}" + body + "{% endfor %}"
        if variant == "tablerow":
            return "{%% tablerow zz in (1..%d) %%}" % cnt + body + "{% endtablerow %}"
        if variant == "with" and cnt == 1:
            return "{% with ww: 1 %}" + body + "{% endwith %}"
        return "{%% for zz in (1..%d) %%}" % cnt + body + "{% endfor %}"
    if k == "include":
        return "{% include '" + n[1] + "' %}"
    if k == "render":
        return "{% render '" + n[1] + "' %}"
    if k == "macro":
        return "{% macro " + n[1] + " %}" + src_nodes(n[2]) + "{% endmacro %}"
    if k == "call":
        return "{% call " + n[1] + " %}"
    if k == "extends":
        return "{% extends '" + n[1] + "' %}"
    if k == "block":
        return "{% block " + n[1] + " %}" + src_nodes(n[2]) + "{% endblock %}"
    raise ValueError(n)


def wrap(node, d: int, variants):
    """`node` nested in `d` block levels (variants cycled)."""
    for i in range(d):
        v = variants[i % len(variants)]
        if v in FOR_VARIANTS:
            node = ["for", 1, v, [node]]
        elif v == "when":
            node = ["blk", "when", "when", [node]]
        else:
            node = ["blk", "plain", v, [node]]
    return node


def render_job(case, full=True, cpu=None):
    return {
        "kind": "render",
        "templates": [[name, src_nodes(body)] for name, body in case["templates"]],
        "main": case["main"],
        "mode": case["mode"],
        "limit": case["limit"],
        "async": bool(case.get("async")),
        "full": full,
        "cpu_limit": cpu if cpu is not None else case.get("cpu", 5.0),
    }


def model_line(case, full):
    return ["recur", case["mode"] != "strict", case["limit"], case["templates"], case["main"], full]


PROPERTY_ERRORS = ("ContextDepthError", "TemplateInheritanceError")
OTHER_LIQUID = ("TemplateNotFoundError", "DisabledTagError")


# ---- stream 1: random recursion families, depth accounting + frames, against the model ---------------
class Gen:
    def __init__(self, rng, names, lax):
        self.rng = rng
        self.names = names
        self.lax = lax
        self.next_id = 1
        self.calls = 0  # recursive call sites in the current template (fan-out control in lax mode)

    def pid(self):
        self.next_id += 1
        return self.next_id - 1

    def call_site(self):
        r = self.rng
        k = r.below(100)
        name = r.choice(self.names + ["nosuch"] if r.chance(4) else self.names)
        if k < 34:
            return ["render", name]
        if k < 62:
            return ["include", name]
        if k < 74:
            return ["call", r.choice(["m0", "m1"])]
        if k < 88:
            return ["block", r.choice(["b0", "b1", "b2"]), self.body(1, 2)]
        return ["extends", name]

    def node(self, depth, maxd):
        r = self.rng
        k = r.below(100)
        if k < 22 or depth >= maxd:
            if k < 12 or (self.lax and self.calls >= 2):
                return ["probe", self.pid()]
            self.calls += 1
            return self.call_site()
        if k < 50:
            kind = "when" if r.chance(20) else "plain"
            return ["blk", kind, "when" if kind == "when" else r.choice(PLAIN_VARIANTS), self.body(depth + 1, maxd)]
        if k < 66:
            n = 1 if self.lax else r.choice([0, 1, 1, 1, 2])
            v = r.choice(FOR_VARIANTS)
            if v == "with" and n != 1:
                v = "for"
            if v == "tablerow" and n == 0:
                v = "for"
            return ["for", n, v, self.body(depth + 1, maxd)]
        if k < 74:
            return ["macro", r.choice(["m0", "m1"]), self.body(depth + 1, maxd)]
        if self.lax and self.calls >= 2:
            return ["probe", self.pid()]
        self.calls += 1
        return self.call_site()

    def body(self, depth, maxd):
        n = self.rng.choice([1, 1, 2, 2, 3])
        return [self.node(depth, maxd) for _ in range(n)]

    def template(self):
        self.calls = 0
        return [["probe", self.pid()]] + self.body(0, self.rng.choice([1, 2, 3, 4]))


class RunMemo:
    """Observations made by this run, keyed by case. The known-finding witnesses are cases of their stream: when the
    check re-executes a witness after the streams, the observation made minutes earlier in the same run (same code,
    same tree, in a pool worker) is reused instead of spending the CPU seconds again. Cases not seen in this run
    (replay, shrinking) are executed."""

    def __init__(self):
        self.seen = {}

    def key(self, case):
        from ..core import jdump

        return jdump(case)

    def put(self, case, obs):
        self.seen[self.key(case)] = obs

    def get(self, case):
        return self.seen.get(self.key(case))


def limited_shrinks(case, cap=30):
    """Generic JSON shrinking, but at most `cap` candidates per round: a candidate that hangs costs a full CPU limit."""
    from ..core import generic_shrinks

    for i, c in enumerate(generic_shrinks(case)):
        if i >= cap:
            return
        yield c


def events_digest(evs):
    h = 7
    P = 2305843009213693951
    for e in evs:
        for x in e:
            h = (h * 1000003 + x + 1) % P
    return str(h)


class DepthStream(Stream):
    """Random recursion families in a child with the Python stack out of the way (recursion limit 150 000,
    RLIMIT_STACK raised): error class, every probe's (_copy_depth, scope.size(), frame depth) against the model."""

    name = "depth"
    parallel = True

    def cases(self, ctx):
        rng = ctx.rng_for("depth")
        out = []
        for i in range(ctx.scale(170, 1200)):
            lax = rng.chance(30)
            names = ["main"] + [f"t{j}" for j in range(rng.choice([0, 1, 1, 2, 3]))]
            g = Gen(rng, names, lax)
            tpls = [[nm, g.template()] for nm in names]
            limit = rng.choice([4, 5]) if lax else rng.choice([3, 4, 5, 6, 7, 8, 10, 12, 16, 30, 30])
            out.append({"templates": tpls, "main": "main", "mode": rng.choice(["lax", "warn"]) if lax else "strict", "limit": limit})
        return out

    def impl(self, case):
        from ..impl.c09_run import run_job

        # suppress_blank_control_flow_blocks off: `BlockNode.render_to_output` then always takes its `sum(<genexpr>)`
        # path (5 frames per block level, the constant of the model); with the flag on, a block whose children are all
        # "blank" (capture, macro, assign…) is rendered by a plain loop, one frame less per such level
        r = run_job(dict(render_job(case, full=True, cpu=20.0), suppress_blank=False), flavour="hi", wall_limit=300.0)
        evs = r.get("evs") or []
        return {
            "out": r["out"],
            "n": len(evs),
            "digest": events_digest(evs),
            "maxCopy": max([e[1] for e in evs], default=0),
            "maxScope": max([e[2] for e in evs], default=0),
            "maxFrames": max([e[3] for e in evs], default=0),
            "head": evs[:6],
        }

    def line(self, case):
        return model_line(case, True)

    def canon_model(self, case, m):
        if not isinstance(m, dict) or "evs" not in m:
            return m
        return {
            "out": m["out"],
            "n": m["n"],
            "digest": m["digest"],
            "maxCopy": m["maxCopy"],
            "maxScope": m["maxScope"],
            "maxFrames": m["maxFrames"],
            "head": m["evs"][:6],
        }

    def oracle(self, case, obs):
        o = obs["out"]
        lim = case["limit"]
        if o in ("timeout", "crash"):
            return (f"depth|{o}", f"render did not finish: {o}")
        if o == "RecursionError":
            return ("depth|RecursionError", "RecursionError with the recursion limit at 150 000")
        if o not in ("ok",) + PROPERTY_ERRORS + OTHER_LIQUID + ("AssertionError",):
            return (f"depth|unexpected|{o}", f"unexpected outcome {o}")
        if obs["maxCopy"] > lim + 1:
            return ("depth|copies>limit+1", f"a probe ran at _copy_depth {obs['maxCopy']} with context_depth_limit {lim}")
        if obs["maxScope"] > max(lim + 1, 4):
            return ("depth|scope>limit+1", f"a probe ran with scope.size() {obs['maxScope']} with context_depth_limit {lim}")
        return None

    def nontrivial(self, case, obs):
        return obs["out"] in PROPERTY_ERRORS or obs["maxCopy"] >= 2 or obs["maxScope"] >= 8

    def shrink_candidates(self, case):
        # templates only (names, mode and limit stay); few candidates: a hanging candidate costs the whole CPU limit
        for i, c in enumerate(limited_shrinks(case["templates"], 6)):
            if c and all(isinstance(t, list) and len(t) == 2 and isinstance(t[0], str) and isinstance(t[1], list) for t in c) and any(t[0] == case["main"] for t in c):
                yield dict(case, templates=c)

    def tags(self, case, obs):
        return [obs["out"], case["mode"], f"limit{case['limit']}", "frames>=1000" if obs["maxFrames"] >= 1000 else "frames<1000"]


# ---- stream 2: parser loops against the model -----------------------------------------------------------
STRAY = ["endif", "endunless", "endcase", "endfor", "endcapture", "endcomment", "enddoc", "else", "elsif x", "when 1",
         "foo", "foo bar", "endfoo", "break", "break now", "assign", "assign v = 2", "liquid", "case", "if", "for", "capture",
         "unless", "comment", "doc", "doc x", "else extra", "endif extra"]


class PGen:
    """Liquid source over the tags of Model/ParseLoops.lean, as a list of pieces (markup or text)."""

    def __init__(self, rng):
        self.r = rng

    def text(self):
        return self.r.choice(["a", " b ", "\n", "x y", "1"])

    def block(self, depth, maxd):
        out = []
        for _ in range(self.r.choice([0, 1, 1, 2, 2, 3])):
            out += self.item(depth, maxd)
        return out

    def item(self, depth, maxd):
        r = self.r
        k = r.below(100)
        if depth >= maxd or k < 24:
            return [r.choice([self.text(), "{{ x }}", "{{ x | upcase }}", "{% assign v = 1 %}", "{% break %}", "{% raw %}{{ r }}{% endraw %}",
                              "{% comment %}c {% if %} c{% endcomment %}", "{% doc %}d{% enddoc %}", "{%- assign w = x -%}"])]
        if k < 40:
            out = ["{% if a %}"] + self.block(depth + 1, maxd)
            for _ in range(r.choice([0, 0, 1, 2])):
                out += ["{% elsif b == 1 %}"] + self.block(depth + 1, maxd)
            if r.chance(45):
                out += [r.choice(["{% else %}", "{% else %}", "{% else junk %}"])] + self.block(depth + 1, maxd)
            if r.chance(8):
                out += [r.choice(["{% else %}", "{% elsif c %}"])] + self.block(depth + 1, maxd)  # extraneous, ignored
            return out + ["{% endif %}"]
        if k < 50:
            out = ["{% unless a %}"] + self.block(depth + 1, maxd)
            if r.chance(30):
                out += ["{% elsif b %}"] + self.block(depth + 1, maxd)
            if r.chance(40):
                out += ["{% else %}"] + self.block(depth + 1, maxd)
            return out + ["{% endunless %}"]
        if k < 64:
            out = ["{% case a %}"] + ([self.text()] if r.chance(40) else [])
            for _ in range(r.choice([0, 1, 2, 3])):
                if r.chance(75):
                    out += [r.choice(["{% when 1 %}", "{% when 1, 2 %}", "{% when 'a' or 'b' %}"])] + self.block(depth + 1, maxd)
                else:
                    out += ["{% else %}"] + self.block(depth + 1, maxd)
            return out + ["{% endcase %}"]
        if k < 76:
            out = ["{% for i in (1..3) %}"] + self.block(depth + 1, maxd)
            if r.chance(35):
                out += ["{% else %}"] + self.block(depth + 1, maxd)
            return out + ["{% endfor %}"]
        if k < 84:
            return ["{% capture v %}"] + self.block(depth + 1, maxd) + ["{% endcapture %}"]
        if k < 94:
            lines = []
            for _ in range(r.choice([0, 1, 2, 3])):
                lines += r.choice([["assign v = 1"], ["break"], ["if a", "assign v = 2", "endif"], ["for i in (1..2)", "break", "endfor"],
                                   ["case a", "when 1", "assign v = 3", "endcase"], ["if a"], ["endif"], ["liquid assign q = 1"],
                                   ["unless a", "else", "assign v = 4", "endunless"], ["foo"], ["capture v", "endcapture"], ["liquid if a"]])
            return ["{% liquid " + "\n ".join(lines) + " %}"]
        return ["{% " + r.choice(STRAY) + " %}"]


def damage(rng, pieces):
    pieces = list(pieces)
    for _ in range(rng.choice([1, 1, 2, 3])):
        if not pieces:
            pieces.append("{% " + rng.choice(STRAY) + " %}")
            continue
        i = rng.below(len(pieces))
        k = rng.below(7)
        pc = pieces[i]
        if k == 0:
            del pieces[i]
        elif k == 1:
            pieces.insert(i, pc)
        elif k == 2:
            pieces.insert(i, "{% " + rng.choice(STRAY) + " %}")
        elif k == 3 and pc.startswith("{%"):
            import re

            m = re.match(r"(\{%-?\s*\w+)", pc)
            pieces[i] = (m.group(1) + " %}") if m else pc  # the tag without its expression
        elif k == 4:
            pieces = pieces[: i + 1]  # unterminated: everything after is gone
        elif k == 5:
            j = rng.below(len(pieces))
            pieces[i], pieces[j] = pieces[j], pieces[i]
        else:
            pieces.insert(i, rng.choice(["{% if a %}", "{% case a %}", "{% for i in a %}", "{% unless a %}", "{% capture c %}", "{% comment %}", "{% case %}"]))
    return pieces


class ParseStream(Stream):
    """Structured and damaged sources over the modelled tags: the real lexer's tokens go to the model, which must
    reproduce the outcome class, the number of tokens consumed (`stream.pos`) and the skeleton of the tree."""

    name = "parse"
    parallel = True

    def cases(self, ctx):
        rng = ctx.rng_for("parse")
        out = []
        for i in range(ctx.scale(420, 4000)):
            g = PGen(rng)
            k = rng.below(100)
            if k < 8:
                d = rng.choice([5, 28, 29, 30, 31, 32, 40])
                opener, closer = rng.choice([("{% if a %}", "{% endif %}"), ("{% for i in a %}", "{% endfor %}"), ("{% case a %}{% when 1 %}", "{% endcase %}"),
                                             ("{% capture c %}", "{% endcapture %}"), ("{% liquid if a %}", "")])
                pieces = [opener] * d + g.block(1, 2) + [closer] * (d if rng.chance(70) else rng.below(d + 1)) + g.block(0, 1)
            else:
                pieces = g.block(0, rng.choice([1, 2, 3, 4]))
            if rng.chance(55):
                pieces = damage(rng, pieces)
            out.append({"source": "".join(pieces), "mode": rng.choice(["strict", "lax", "lax", "warn"]), "block_limit": rng.choice([30, 30, 30, 3, 5])})
        return out

    def impl(self, case):
        from ..impl.c09_run import run_job

        r = run_job({"kind": "parse", "model": True, "source": case["source"], "mode": case["mode"], "block_limit": case["block_limit"], "cpu_limit": 5.0}, "std", 120.0)
        return {k: r.get(k) for k in ("out", "liquid", "tokens", "ntokens", "pos", "skeleton", "cpu_s")}

    def line_obs(self, case, obs):
        if obs.get("tokens") is None:
            return None
        return ["parse", case["mode"] != "strict", case["block_limit"], obs["tokens"]]

    def compare_view(self, case, obs):
        return {"out": obs["out"], "pos": obs["pos"], "skeleton": obs["skeleton"]}

    def canon_model(self, case, m):
        if not isinstance(m, dict) or "pos" not in m:
            return m
        self._last = m
        return {"out": m["out"], "pos": m["pos"], "skeleton": m["skeleton"]}

    def oracle(self, case, obs):
        o = obs["out"]
        if o in ("timeout", "crash", "RecursionError"):
            return (f"parse|{o}", f"parsing did not finish normally: {o}")
        if o != "ok" and not o.startswith("lexer:") and not obs.get("liquid"):
            return (f"parse|non-liquid|{o}", f"{o} escaped the parser")
        if obs.get("cpu_s") is not None and obs["cpu_s"] > PARSE_CPU_S:
            return ("parse|slow", f"{obs['cpu_s']} s CPU for {len(case['source'])} characters")
        return None

    def shrink_candidates(self, case):
        for src in limited_shrinks(case["source"], 6):
            yield dict(case, source=src)

    def nontrivial(self, case, obs):
        return obs.get("ntokens") is not None and obs["ntokens"] >= 4 and (obs["out"] != "ok" or "illegal" in (obs.get("skeleton") or []) or (obs.get("skeleton") or []).count("(") >= 2)

    def tags(self, case, obs):
        sk = obs.get("skeleton") or []
        return [obs["out"], case["mode"], "illegal-node" if "illegal" in sk else "clean", f"limit{case['block_limit']}",
                "tokens>=20" if (obs.get("ntokens") or 0) >= 20 else "tokens<20"]


PARSE_CPU_S = 3.0  # "promptly" (parse stream, sources of a few hundred characters): CPU seconds for one parse


SLOW_FLOOR_S = 3.0  # "promptly" (sources stream): a parse that needs more user-CPU than this ...
GROWTH_MAX = 12.0  # ... must not cost more than 12x what the same shape a quarter of the size costs (linear: 4x, quadratic: 16x);
# both thresholds are deliberately coarse: user-CPU time on a shared machine swings by a factor 2-3, and a flagged case is measured twice


def cpu_budget(nchars) -> float:
    """"promptly" for the adversarial sources: linear in the size of the text, 20 microseconds per character + 0.5 s
    (well-formed and ill-formed sources of 100-200 kB measure 0.3 s; the budget leaves a factor 5-10 for a loaded machine)."""
    return 0.5 + 20e-6 * (nchars or 0)

# ---- stream 3: systematic recursive families at block depths 0..30, default Python recursion limit -----------
FRAME_BASE = 10  # Python frames between the interpreter entry of the child and the first probe (fallback; measured per case: abs_base)
BAND_LO, BAND_HI = 760, 1000
NEAR_LO = 850  # pristine tree: every RecursionError of the grid has a model peak >= 890 frames (sync) / 1077 (async)


def family(kind, d, variants):
    """(templates, main) of the family `kind` with its recursive call sites at block depth `d`."""
    w = lambda node: wrap(node, d, variants)  # noqa: E731
    P = lambda i: ["probe", i]  # noqa: E731
    if kind == "render-self":
        t = [["a", [P(1), w(["render", "a"])]]]
    elif kind == "include-self":
        t = [["a", [P(1), w(["include", "a"])]]]
    elif kind == "render-mutual":
        t = [["a", [P(1), w(["render", "b"])]], ["b", [P(2), w(["render", "a"])]]]
    elif kind == "include-mutual":
        t = [["a", [P(1), w(["include", "b"])]], ["b", [P(2), w(["include", "a"])]]]
    elif kind == "render-triple":
        t = [["a", [P(1), w(["render", "b"])]], ["b", [P(2), w(["render", "c"])]], ["c", [w(["render", "a"]), P(3)]]]
    elif kind == "include-render":
        t = [["a", [P(1), w(["include", "b"])]], ["b", [P(2), w(["render", "a"])]]]
    elif kind == "macro-self":
        t = [["a", [P(1), ["macro", "m0", [w(["render", "a"])]], w(["call", "m0"])]]]
    elif kind == "macro-include":
        t = [["a", [P(1), ["macro", "m0", [P(2)]], w(["call", "m0"]), w(["include", "a"])]]]
    elif kind == "extends-cycle":
        t = [["a", [w(P(1)), ["extends", "b"], ["block", "b0", [P(2)]]]], ["b", [["extends", "a"]]]]
    elif kind == "extends-self":
        t = [["a", [["extends", "a"], w(P(1))]]]
    elif kind in ("extends-block-include", "rendered-extends-block-include"):
        t = [["a", [["extends", "base"], ["block", "b0", [P(1), w(["include", "a"])]]]], ["base", [P(2), ["block", "b0", [P(3)]]]]]
    elif kind == "extends-block-render":
        t = [["a", [["extends", "base"], ["block", "b0", [P(1), w(["render", "a"])]]]], ["base", [P(2), ["block", "b0", [P(3)]]]]]
    elif kind == "block-include-self":
        t = [["a", [P(1), ["block", "b0", [w(["include", "a"])]]]]]
    elif kind in ("render-fanout2", "render-fanout3"):
        t = [["a", [P(1), w(["render", "a"])] + [["render", "a"]] * (int(kind[-1]) - 1)]]
    else:
        raise ValueError(kind)
    first = t[0][0]
    return t + [["main", [P(0), ["include" if kind.startswith(("include", "macro-include", "block-include", "extends-block-include")) else "render", first]]]], "main"


FAMILY_KINDS = ["render-self", "include-self", "render-mutual", "include-mutual", "render-triple", "include-render", "macro-self",
                "macro-include", "extends-cycle", "extends-self", "extends-block-include", "rendered-extends-block-include", "extends-block-render",
                "block-include-self"]
WRAPSETS = {"if": ["if"], "for": ["for"], "when": ["when"], "mixed": ["if", "for", "capture", "when", "unless", "with", "ifelse", "tablerow"]}


INSIDE_BODY = ("macro-self", "extends-block-include", "rendered-extends-block-include", "extends-block-render", "block-include-self")  # the call site is already one block level down
MECH = {  # which counter cuts the family off
    "render-self": "copy", "render-mutual": "copy", "render-triple": "copy", "macro-self": "copy", "extends-block-render": "copy", "render-fanout2": "copy", "render-fanout3": "copy",
    "include-self": "scope", "include-mutual": "scope", "macro-include": "scope", "block-include-self": "scope",
    "extends-block-include": "copy+scope", "include-render": "disabled-tag", "rendered-extends-block-include": "disabled-tag", "extends-cycle": "seen-set", "extends-self": "seen-set",
}


def fam_case(kind, d, ws, mode, asy, limit=DEFAULT_DEPTH):
    if kind in INSIDE_BODY:
        d = min(d, BLOCK_LIMIT - 1)  # block_nesting_limit counts the macro / block level too
    tpls, main = family(kind, d, WRAPSETS[ws])
    return {"kind": kind, "d": d, "wrap": ws, "templates": tpls, "main": main, "mode": mode, "async": asy, "limit": limit}


LAX_FANOUT_WITNESS = dict(fam_case("render-fanout2", 0, "if", "lax", False, DEFAULT_DEPTH), cpu=3.0)


class FamilyStream(Stream):
    """Self / mutually recursive include, render, macro-call, extends and block families with the recursive call at
    block depths 0..30, STRICT and LAX, sync and async, default limits, **default Python recursion limit**."""

    name = "families"
    parallel = True
    exhaustive = True

    def cases(self, ctx):
        depths = ctx.scale([0, 1, 3, 6, 10, 20, 30], list(range(0, 31)))
        out = []
        for kind in FAMILY_KINDS:
            for d in depths:
                for ws in ctx.scale(["if"] + (["mixed"] if d in (3, 30) else []), ["if", "mixed"] + (["for", "when"] if d in (3, 10, 30) else [])):
                    for mode in ("strict", "lax"):
                        for asy in ctx.scale([False], [False, True]):
                            out.append(fam_case(kind, d, ws, mode, asy))
                if ctx.tier == "quick" and d in (0, 10):
                    out.append(fam_case(kind, d, "if", "strict", True))
        # the fan-out family: STRICT at the default limit, LAX at small limits (2^(limit+2) executions)
        for d in (0, 3):
            out.append(fam_case("render-fanout2", d, "if", "strict", False))
            for lim in ctx.scale([4, 6, 8], [4, 5, 6, 7, 8, 9, 10]):
                out.append(fam_case("render-fanout2", d, "if", "lax", False, lim))
            # fan-out 3: (3^(limit+2) - 1) / 2 executions (theorem lax_fanout_count)
            out.append(fam_case("render-fanout3", d, "if", "strict", False))
            for lim in ctx.scale([4, 5], [4, 5, 6]):
                out.append(fam_case("render-fanout3", d, "if", "lax", False, lim))
        out.append(LAX_FANOUT_WITNESS)
        return out

    def impl(self, case):
        from ..impl.c09_run import run_job

        if not hasattr(self, "memo"):
            self.memo = RunMemo()
        hit = self.memo.get(case)
        if hit is not None:
            return hit
        job = render_job(case, full=False, cpu=case.get("cpu", 5.0))
        r = run_job(job, flavour="std", wall_limit=300.0)
        return {"out": r["out"], "liquid": r.get("liquid"), "n": r.get("n"), "max_frames": r.get("max_frames"), "abs_base": r.get("abs_base")}

    def line_obs(self, case, obs):
        if case["kind"].startswith("render-fanout") and case["mode"] != "strict" and case["limit"] > 12:
            return None  # 2^(limit+2) executions: the model is exponential here too (theorem lax_cut_counterexample)
        if not hasattr(self, "_obs"):
            self._obs = {}
        from ..core import jdump

        self._obs[jdump(case)] = obs
        return model_line(case, False)

    def canon_model(self, case, m):
        """The model run has no Python stack. Its prediction for the real interpreter: RecursionError when a probe
        would run deeper than the recursion limit; its own outcome when the deepest probe stays well below; no
        prediction in the band between (the parser and expression evaluation use frames the model does not count)."""
        if not isinstance(m, dict) or "maxFrames" not in m:
            return m
        from ..core import jdump

        if not hasattr(self, "_model"):
            self._model = {}
        self._model[jdump(case)] = m
        obs = self._obs.get(jdump(case), {})
        # absolute depth of the model's deepest probe: the child's own frames above the first probe are measured (abs_base),
        # + 1 for the frame of the probe's depth walk
        peak = m["maxFrames"] + (obs.get("abs_base") or FRAME_BASE) + 1
        if case.get("async"):
            return {"out": obs.get("out"), "n": obs.get("n")}  # frame costs of the coroutine path are not modelled
        if peak > BAND_HI:
            if case["mode"] != "strict":
                return {"out": obs.get("out"), "n": obs.get("n")}  # a RecursionError wrapped by from_string may be swallowed
            return {"out": "RecursionError", "n": obs.get("n")}
        if peak >= BAND_LO:
            return {"out": obs.get("out"), "n": obs.get("n")}
        return {"out": m["out"], "n": m["n"]}

    def compare_view(self, case, obs):
        return {"out": obs["out"], "n": obs["n"]}

    def model_for(self, case):
        """The Lean model's run of this family (no Python stack): from this run's correspondence, else asked now."""
        from ..core import jdump

        if not hasattr(self, "_model"):
            self._model = {}
        key = jdump(case)
        if key not in self._model:
            if case["kind"].startswith("render-fanout") and case["mode"] != "strict" and case["limit"] > 12:
                return None
            from ..lean import Driver

            if not hasattr(self, "_drv"):
                self._drv = Driver()
            if not self._drv.available():
                return None
            m = self._drv.batch([model_line(case, False)])[0]
            if not isinstance(m, dict) or "maxFrames" not in m:
                return None
            self._model[key] = m
        return self._model[key]

    def frame_verdict(self, case, obs):
        """What the frame bound of the model (theorems frames_bounded_partial / self_render_frames) says about this
        family: does a statement run deeper than CPython's 1000 frames before the depth limits cut the recursion off?
        Only then is a RecursionError the *known* defect; a RecursionError where the model reaches ContextDepthError
        well inside the stack is a different violation and gets a different signature."""
        m = self.model_for(case)
        if m is None:
            return "model-unavailable"
        peak = m["maxFrames"] + (obs.get("abs_base") or FRAME_BASE) + 1
        if peak > R_LIMIT:
            return "frame-bound-exceeds-1000"
        if peak >= NEAR_LO:
            return "frame-bound-within-150-of-1000"  # parser / expression frames the model does not count tip it over
        return f"model-says-{m['out']}-below-{NEAR_LO}-frames"

    def oracle(self, case, obs):
        if not hasattr(self, "memo"):
            self.memo = RunMemo()
        self.memo.put(case, obs)
        o, kind = obs["out"], case["kind"]
        if o in ("timeout", "crash"):
            return (f"family|{o}|{kind}|{case['mode']}", f"the render did not finish: {o}")
        if o == "RecursionError":
            return (f"family|{kind}|RecursionError|{self.frame_verdict(case, obs)}", f"recursive {kind} at block depth {case['d']} exhausted the Python stack instead of ContextDepthError/TemplateInheritanceError")
        if o == "ok":
            if case["mode"] == "strict":
                return (f"family|not-cut|{kind}", "an unconditionally recursive family rendered without an error in STRICT mode")
            return None
        if o in PROPERTY_ERRORS:
            return None
        if obs.get("liquid") and o in OTHER_LIQUID and kind in ("include-render", "macro-include", "rendered-extends-block-include"):
            return None  # include is disabled inside render / macro (and, since repo fix c3aa6de, inside the blocks of a rendered template): DisabledTagError cuts the recursion first
        return (f"family|unexpected|{kind}|{o}", f"recursion ended in {o}")

    def nontrivial(self, case, obs):
        return True

    def tags(self, case, obs):
        return [obs["out"], case["kind"], f"d{case['d']}", case["mode"], "async" if case["async"] else "sync"]

    def shrink_candidates(self, case):
        if case["d"] > 0:
            for d in sorted({0, case["d"] // 2, case["d"] - 1}):
                if d < case["d"]:
                    yield fam_case(case["kind"], d, case["wrap"], case["mode"], case["async"], case["limit"])


# ---- stream 4: adversarial sources (oracle only) --------------------------------------------------------------
REPEATS = {
    "open_out": "{{", "open_tag": "{%", "close_out": "}}", "close_tag": "%}", "out": "{{ x }}", "if_noexpr": "{% if %}", "if": "{% if a %}",
    "endif": "{% endif %}", "else": "{% else %}", "raw": "{% raw %}", "endraw": "{% endraw %}", "comment": "{% comment %}", "endcomment": "{% endcomment %}",
    "case": "{% case a %}", "case_bare": "{% case %}", "when": "{% when 1 %}", "for": "{% for i in a %}", "liquid": "{% liquid if a %}",
    "wsctl": "{{- ", "brace": "{", "tagdash": "{%- -%}", "quote": "{{ ' }}", "doc": "{% doc %}", "ifelse": "{% if a %}{% else %}", "elsif": "{% elsif a %}",
    "capture": "{% capture x %}", "hash": "{% # %}", "assign": "{% assign x = 1 %}", "tablerow": "{% tablerow i in a %}", "unless": "{% unless a %}",
    "inline_if": "{% if a %}x", "nl_liquid": "{% liquid\nif a\n%}", "ifchanged": "{% ifchanged %}", "include": "{% include 'x' %}", "cycle": "{% cycle 1, 2 %}",
}
SUPERLINEAR = ("open_out", "raw", "doc", "brace")  # the lexer regex backtracks on these (known findings)
NESTED = {
    "parens": lambda n: "{% if " + "(" * n + "a" + ")" * n + " %}x{% endif %}",
    "nots": lambda n: "{% if " + "not " * n + "a %}x{% endif %}",
    "nested-brackets": lambda n: "{{ a" + "[a" * n + "]" * n + " }}",
    "dots": lambda n: "{{ a" + ".b" * n + " }}",
    "filters": lambda n: "{{ a" + " | upcase" * n + " }}",
    "and-chain": lambda n: "{% if a" + " and a" * n + " %}x{% endif %}",
    "or-chain": lambda n: "{% if a" + " or a" * n + " %}x{% endif %}",
    "args": lambda n: "{{ a | f: " + ", ".join(["1"] * n) + " }}",
    "whens": lambda n: "{% case a %}{% when " + ", ".join(["1"] * n) + " %}{% endcase %}",
    "ranges": lambda n: "{% for i in " + "(" * n + "1..2" + ")" * n + " %}{% endfor %}",
    "balanced-if": lambda n: "{% if a %}" * n + "{% endif %}" * n,
    "balanced-for-30": lambda n: ("{% for i in a %}" * 30 + "{% endfor %}" * 30) * (n // 30 + 1),
    "case-whens": lambda n: "{% case a %}" + "{% when 1 %}x" * n + "{% endcase %}",
    "elsifs": lambda n: "{% if a %}" + "{% elsif a %}x" * n + "{% endif %}",
    "liquid-lines": lambda n: "{% liquid\n" + "assign x = 1\n" * n + "%}",
    "liquid-nest": lambda n: "{% liquid " + "liquid " * n + "assign x = 1 %}",
}


class SourceStream(Stream):
    """Adversarial source texts through `Environment.from_string`: 10^3/10^4 repetitions of every delimiter and tag
    fragment (unterminated / unbalanced), deeply nested expressions, and generated programs damaged by
    harness/gen/templates.malform. Oracle only: finishes within the CPU budget, no RecursionError, no crash."""

    name = "sources"
    parallel = True
    has_model = False

    def cases(self, ctx):
        out = []
        for name, piece in REPEATS.items():
            for mode in ("strict", "lax"):
                if ctx.tier == "quick" and mode == "lax" and name in SUPERLINEAR:
                    continue  # same lexer, same cost: strict only in the quick tier
                for n in ctx.scale([10000], [1000, 3000, 10000]):
                    if name == "brace" and n == 10000:
                        n = 16000  # a run of '{' needs this size to cost seconds (known finding, same case as its witness)
                    out.append({"family": "repeat|" + name, "source": piece, "repeat": n, "mode": mode})
        for name in NESTED:
            for n in ctx.scale([100, 10000], [30, 100, 300, 1000, 3000, 10000]):
                out.append({"family": "nested|" + name, "nested": name, "n": n, "mode": "strict"})
        rng = ctx.rng_for("sources")
        from ..gen.templates import gen_program, malform

        for i in range(ctx.scale(100, 600)):
            prog = gen_program(rng)
            src = prog["source"] if isinstance(prog, dict) and "source" in prog else str(prog)
            for _ in range(rng.choice([1, 1, 2, 3])):
                src = malform(rng, src)
            out.append({"family": "malformed", "source": src, "repeat": 1, "mode": rng.choice(["strict", "lax", "warn"])})
        return out

    def impl(self, case):
        from ..impl.c09_run import run_job

        if not hasattr(self, "memo"):
            self.memo = RunMemo()
        hit = self.memo.get(case)
        if hit is not None:
            return hit

        def one(scale):
            if "nested" in case:
                src, rep = NESTED[case["nested"]](max(1, case["n"] // scale)), 1
            else:
                src, rep = case["source"], max(1, case.get("repeat", 1) // scale)
            return run_job({"kind": "parse", "source": src, "repeat": rep, "mode": case["mode"], "extra": True, "cpu_limit": 20.0}, "std", 300.0)

        r = one(1)
        obs = {"out": r["out"], "liquid": r.get("liquid"), "cpu_s": r.get("cpu_s"), "len": r.get("len")}
        if case["family"] != "malformed" and (r.get("cpu_s") or 0) > SLOW_FLOOR_S:
            q = one(4)  # the same shape a quarter of the size: linear cost -> a quarter of the time
            obs["cpu_quarter_s"] = q.get("cpu_s")
            if obs["cpu_s"] > GROWTH_MAX * max(q.get("cpu_s") or 0, 0.001):
                # measure again; keep the measurement that looks *less* super-linear
                r2, q2 = one(1), one(4)
                if (r2.get("cpu_s") or 0) * max(obs["cpu_quarter_s"] or 0, 0.001) < obs["cpu_s"] * max(q2.get("cpu_s") or 0, 0.001):
                    obs["cpu_s"], obs["cpu_quarter_s"] = r2.get("cpu_s"), q2.get("cpu_s")
        return obs

    def oracle(self, case, obs):
        if not hasattr(self, "memo"):
            self.memo = RunMemo()
        self.memo.put(case, obs)
        o = obs["out"]
        fam = case["family"]
        if o in ("timeout", "crash"):
            return (f"source|{o}|{fam}", f"parsing did not finish: {o} after {obs.get('cpu_s')} s CPU")
        if o == "RecursionError":
            return (f"source|RecursionError|{fam}", f"parsing exhausted the Python stack ({obs.get('len')} characters)")
        cq = obs.get("cpu_quarter_s")
        if cq is not None and obs["cpu_s"] > SLOW_FLOOR_S and obs["cpu_s"] > GROWTH_MAX * max(cq, 0.001):
            return (f"source|slow|{fam}", f"{obs['cpu_s']} s CPU for {obs.get('len')} characters, {cq} s for a quarter of them: super-linear")
        return None

    def nontrivial(self, case, obs):
        return (obs.get("len") or 0) >= 1000 or obs["out"] != "ok"

    def tags(self, case, obs):
        return [case["family"].split("|")[0], "liquid-error" if obs.get("liquid") else obs["out"], case["mode"]]

    def shrink_candidates(self, case):
        for k in ("repeat", "n"):
            if k in case and case[k] > 16:
                for div in (16, 4, 2):
                    c = dict(case)
                    c[k] = case[k] // div
                    yield c


def streams(ctx):
    # families first: when a mutation makes recursion hang, its violations are the cheapest to shrink
    return [FamilyStream(), SourceStream(), ParseStream(), DepthStream()]


RULE = (
    "Every case runs in a child process with a CPU-time limit. stream depth: random pools of 1-4 templates over probe / "
    "if-unless-case-capture-ifchanged blocks / for-tablerow-with / include / render / macro-call / extends-block with recursive "
    "and mutually recursive call sites, STRICT (context_depth_limit 3..30) and LAX/WARN (limit 4-5, fan-out <= 2), rendered with the "
    "Python recursion limit out of the way; outcome class and every probe's (_copy_depth, scope.size(), Python frame depth) "
    "compared with Model/Recur.lean. stream parse: structured sources over if/unless/case/for/capture/comment/doc/liquid/assign/"
    "break + stray and unknown tags, 55% damaged (pieces dropped, duplicated, swapped, truncated, expressions removed, openers "
    "inserted), nests of 5..40 levels, block_nesting_limit 3/5/30, STRICT/LAX/WARN: the real lexer's tokens go to "
    "Model/ParseLoops.lean which must reproduce outcome class, tokens consumed (stream.pos) and the skeleton of the tree. "
    "stream families (exhaustive over its grid): 14 self/mutually recursive families (render, include, macro, extends cycle, "
    "extends+block with include/render, block+include) x call-site block depth 0..30 x wrapper kinds x STRICT/LAX x sync/async, "
    "default limits and default Python recursion limit, plus the fan-out-2 and fan-out-3 families (LAX at limits 4..10: the execution counts of lax_fanout_count); oracle: ContextDepthError / "
    "TemplateInheritanceError (LAX: ok), never RecursionError / timeout / other; model: same outcome, or RecursionError when a "
    "probe would run deeper than 1000 frames. A RecursionError is signed family|<kind>|RecursionError|<what the model's frame bound "
    "says>: frame-bound-exceeds-1000, frame-bound-within-150-of-1000, or model-says-<outcome>-below-850-frames; only the first two "
    "(per family) are listed known findings. stream sources (oracle only): 10^4 repetitions of 35 delimiter / tag fragments, 16 "
    "nested-expression and nested-block shapes up to 10^4, generated programs damaged by gen.templates.malform; oracle: no "
    "timeout, no RecursionError, CPU <= 0.5 s + 20 us/char. Non-trivial: depth - an error of the property or >= 2 copies or >= 4 "
    "pushes; parse - >= 4 tokens and an error, an IllegalNode or >= 2 blocks; families - all; sources - >= 1000 characters or an error."
)
TRUSTED_BASE = [
    "Lean 4.33 kernel; axioms subset of {propext, Classical.choice, Quot.sound}",
    "hand-written model LiquidVerif/Model/Recur.lean of RenderContext.extend/copy, BoundTemplate.render_with_context (STRICT/LAX), "
    "include/render/macro-call/extends/block nodes and _build_block_stacks (expressions pre-evaluated; output reduced to probe executions)",
    "hand-written model LiquidVerif/Model/ParseLoops.lean of Parser._parse/parse_block/eat_block, Tag.get_node and the if/unless/case/"
    "for/capture/comment/doc/liquid/assign/break/illegal tag parsers over the lexer's token list (expression syntax assumed valid)",
    "correspondence harness harness/props/c09.py + harness/impl/c09_child.py/c09_run.py + Driver/C09.lean (child-process isolation, "
    "ITIMER_VIRTUAL CPU limits, sys._getframe depth probes, TokenStream.pos, AST skeleton)",
    "the per-construct Python frame costs kBlock=5, kWhen=7, kPartial=3, kCall=5 (CPython 3.12, synchronous path): Lean definitions "
    "compared with measured probe depths on every case of the depth stream",
    "CPython: default recursion limit 1000; RecursionError is raised when the frame depth exceeds it",
]
ASSUMPTIONS = [
    "wall-clock time ('promptly') and the CPython stack are runtime facts: the model bounds loop iterations / token consumption and counts "
    "frames, the harness measures CPU time and RecursionError (this part of the property is checked by test, not proved)",
    "the lexer (one regular-expression scan) is outside ParseLoops; its termination is the regex engine's, its cost is measured by the sources stream",
    "expression parsing inside a tag is outside ParseLoops (expressions are valid or absent in the parse stream); the sources stream exercises it",
    "frame constants are those of the non-suppressed BlockNode path (the depth stream runs with suppress_blank_control_flow_blocks=False); "
    "a block whose children are all blank costs one frame less per level with the flag on, so the proved upper bound still holds",
    "block.super, required blocks, break/continue, loop limits and the asynchronous frame costs are not in Recur (async families are checked by the direct oracle only)",
    "in LAX/WARN mode a RecursionError raised while a partial is being parsed is wrapped by from_string into LiquidError and then dropped: such a stack overflow is invisible to the observation 'ok'",
]
MANIFEST = {
    "technique": "Lean 4 proof (total fuel-free models: rendering terminates on the lexicographic measure (limit+2-copy depth, limit+2-scope size, node size), "
    "parsing on the remaining token weight; invariants by mutual functional induction; closure arguments for recursive families) + child-process differential "
    "correspondence and direct oracles with CPU-time limits",
    "text": "Proved for every template pool / token list, no bound: context_depth_bounded (<= limit+1 copies, <= limit+1 scope maps, <= (limit+1)(limit+2)+limit+1 "
    "nested activations at every executed statement), depth_cut_render / depth_cut_include (any self- or mutually recursive render/include family, call sites at "
    "any block depth, ends in ContextDepthError in STRICT mode), extends_cycle_cut (TemplateInheritanceError), tokens_strictly_consumed / parse_never_rewinds / "
    "case_loop_eof_raises / lax_parse_total (every parser loop pass continues on a strictly lighter stream; LAX parsing always completes), frames_bounded_partial "
    "(<= 5 frames per activation + 7 per block level), depth_cut_call / depth_cut_block (macro and direct-block recursion), parse_steps_le_weight (all loop passes of a parse "
    "<= weight of the token stream, potential phi), lax_fanout_count (LAX: exactly 1+f+...+f^(limit+1) executions for fan-out f). Counter-examples proved and replayed: stack_counterexample (self-render at block depth 10 needs 1693 frames > "
    "1000: RecursionError), lax_cut_counterexample (LAX mode: 2^(limit+2)-1 executions, no error).",
    "note": "Trusted: Lean kernel, the two hand models, the harness (child processes, frame probes), the measured frame constants, CPython's recursion limit. "
    "'Promptly' and 'within the stack' are runtime facts measured by the sources/families streams; 11 known findings (RecursionError x3 mechanisms, LAX fan-out hang, "
    "4 quadratic lexer inputs, 3 expression-parser recursion shapes).",
}
