"""C22 — template loaders never read outside their search paths.

Anchors: liquid/builtin/loaders/file_system_loader.py, caching_file_system_loader.py, package_loader.py.
Model:   lean/LiquidVerif/Model/PathSafe.lean   Driver: lean/Driver/C22.lean
"""
from __future__ import annotations

import os
import shutil
import sys
import tempfile

from ..core import Stream

ID = "C22"
LEAN_MODULE = "LiquidVerif.Props.C22"
TRANSLATE = False
RULE = (
    "stream pathlib: every string of length<=L over the alphabet {'/', '.', 'a', 'b'} (exhaustive) plus random "
    "strings with NUL/control/unicode/surrogates: pathlib.PurePosixPath root/parts/name/suffix/is_absolute/str "
    "and with_suffix(ext) against the model (stream suffix); stream join: a.joinpath(b) and a.joinpath(str(b)) for every "
    "pair of strings of length<=3 over {'/', '.', 'a'} plus random pairs. stream fsprim: random sandbox trees (directories, files with "
    "distinctive contents, links: inside, outside, absolute, chains up to 41 long, loops, dangling, directory "
    "links, links back in) and paths through them: os.stat kind, Path.exists/is_file, Path.resolve(strict=False), "
    "open().read() against the model's walk. streams fsl / pkg: FileSystemLoader, CachingFileSystemLoader "
    "(each name twice) and PackageLoader (a temporary package on sys.path) over a sandbox tree with decoys "
    "outside the search path, via Environment.get_template / get_template_async and via an include tag, for "
    "names built from the tree's own paths mutated with separators, '.', '..', absolute prefixes, NUL/control "
    "characters, unicode and lone surrogates, suffix dropping under every ext setting, 255/256/300-byte "
    "components and >=4096-byte paths, traversal/absolute names spelled with compatibility characters. stream cache: "
    "CachingFileSystemLoader asked repeatedly (6..15 steps) while files are replaced by other files, inside links, "
    "links to decoys, directories, or removed, with equal or different mtimes, auto_reload on/off, capacity 1..3, "
    "sync or async, against the model's cachedRun. Non-trivial: the name is not a plain hit of an ordinary file (it carries a "
    "mutation, or goes through a link, or misses) for fsl/pkg; the path crosses a link or fails for fsprim; "
    "the string has a root, a dot component or a suffix decision for pathlib."
)
TRUSTED_BASE = [
    "Lean 4.33 kernel; axioms subset of {propext, Classical.choice, Quot.sound}",
    "hand-written model LiquidVerif/Model/PathSafe.lean of FileSystemLoader.resolve_path/_read, PackageLoader._resolve_path and of the pathlib.PurePosixPath primitives they call (CPython 3.12)",
    "the model's file system: a finite tree with the kernel's link-following walk (MAXSYMLINKS as fuel, NAME_MAX/PATH_MAX, ENOENT/ENOTDIR/ELOOP/ENAMETOOLONG) — a definition sampled by the fsprim stream against the real kernel and os.path.realpath, not an axiom",
    "correspondence harness harness/props/c22.py + Driver/C22.lean (every case runs on the real loaders over a real temporary directory tree and on the model)",
    "the file system does not change between resolve_path's checks and the read (no TOCTOU in the model)",
]
ASSUMPTIONS = [
    "PackageLoader is modelled for a regular package on the file system (importlib.resources.files() is a PosixPath); zip/namespace packages are outside the model",
    "ext settings are those pathlib accepts as a suffix (FileSystemLoader's constructor enforces it; PackageLoader's does not, an invalid ext is a configuration error outside the property)",
    "the caching theorems take namespace_key = '' (cache key = name) and one mode (sync or async) per loader instance; they promise containment of cached answers, not freshness (C23 covers transparency)",
    "without reject_symlinks a link inside the search path may legitimately lead out of it (the property only forbids it with rejection enabled); containment is then lexical (theorem fsl_resolved_inside) and physical only for link-free search directories (fsl_contents_inside_linkfree)",
    "permissions (EACCES), non-UTF-8 file contents and files changing during a load are outside the model; the sandbox has none",
    "POSIX only",
]
MANIFEST = {
    "technique": "Lean 4 proof over all strings and all finite file systems (pathlib parsing, loader decision logic, link-following path walk) + differential correspondence on real sandbox trees with decoys and symlinks",
    "text": "Deepening: ordinary_names_load / pkg_ordinary_names_load (completeness: an ordinary name whose file exists under a search directory loads exactly that file, first directory that has it), name_used_verbatim / pkg_name_used_verbatim (the returned path is search_dir + exactly Path(name)'s components, ext appended to a suffix-less last one: no folding or normalisation), str_round_trip / returned_name_parses_inside (Path(str(p)) = p, PackageLoader's joinpath(str(..)) modelled as written), cached_answers_are_past_answers / cached_contents_were_inside (CachingFileSystemLoader over any sequence of file-system changes only serves what get_source returned for the same name earlier; outside bytes are never served, staleness is possible and shown). Theorems fsl_resolved_inside / pkg_resolved_inside (any returned path is search_dir/rel with rel non-empty, free of '..', '.', '' and '/'), fsl_contents_inside_rejecting (with reject_symlinks the bytes returned are those of a regular file that sits, link-free, below the directory the search path canonically denotes), *_contents_inside_linkfree (same without the flag when the search directory contains no links), fsl_only_not_found / pkg_only_not_found (the only exception is TemplateNotFoundError — ENAMETOOLONG, NUL, unencodable names, symlink loops included) hold for every name string and every finite file system; the pre-fix code is kept as Old.* with kernel-decided counter-examples (absolute name escapes the package, '' raises ValueError, a 256-byte name raises OSError).",
    "note": "Trusted: Lean kernel (axioms propext/Classical.choice/Quot.sound only), the hand model of pathlib 3.12 and of the kernel path walk (sampled by the pathlib and fsprim streams), the correspondence harness; no TOCTOU; PackageLoader only for file-system packages. Four fix: commits in the tree under test (FSL ENAMETOOLONG, PackageLoader absolute / empty name / ENAMETOOLONG).",
}

CONTENT_PREFIX = "C22-"
MAXLINKS = 40


# ---------------------------------------------------------------------------------------------
# sandbox trees.  node = {"f": id} | {"d": {name: node}} | {"l": "target"}   ("$SB" = sandbox root)
# ---------------------------------------------------------------------------------------------
def cps(s: str) -> list:
    return [ord(c) for c in s]


def build_tree(dirpath: str, node: dict, sb: str):
    for name, ch in node["d"].items():
        p = os.path.join(dirpath, name)
        if "f" in ch:
            with open(p, "w", encoding="utf-8") as fd:
                # a package's __init__.py must stay importable: it is an empty decoy
                fd.write("" if name == "__init__.py" else CONTENT_PREFIX + str(ch["f"]))
            if "t" in ch:
                os.utime(p, (ch["t"], ch["t"]))
        elif "l" in ch:
            os.symlink(ch["l"].replace("$SB", sb), p)
        else:
            os.mkdir(p)
            build_tree(p, ch, sb)


def model_node(node: dict, sb: str):
    if "f" in node:
        return {"f": node["f"]}
    if "l" in node:
        t = node["l"].replace("$SB", sb)
        return {"l": [t.startswith("/"), [cps(x) for x in t.split("/")]]}
    return {"d": [[cps(k), model_node(v, sb)] for k, v in node["d"].items()]}


def model_fs(tree: dict, sb: str, cwd: str | None = None):
    node = model_node(tree, sb)
    for comp in reversed([c for c in sb.split("/") if c]):
        node = {"d": [[cps(comp), node]]}
    return {"root": node, "cwd": [cps(c) for c in (cwd or sb).split("/") if c], "max": MAXLINKS, "extra": 1000}


class Sandbox:
    def __init__(self, tree: dict):
        self.tree = tree

    def __enter__(self):
        # a memory-backed directory when there is one: thousands of small trees are created and removed
        shm = "/dev/shm" if os.path.isdir("/dev/shm") and os.access("/dev/shm", os.W_OK) else None
        self.sb = os.path.realpath(tempfile.mkdtemp(prefix="c22sb-", dir=os.environ.get("C22_SANDBOX_DIR", shm)))
        build_tree(self.sb, self.tree, self.sb)
        return self

    def __exit__(self, *a):
        shutil.rmtree(self.sb, ignore_errors=True)
        return False


# ---------------------------------------------------------------------------------------------
# generators
# ---------------------------------------------------------------------------------------------
FILE_NAMES = ["a.txt", "b.liquid", "noext", "c.tar.gz", ".hidden", "we ird.txt", "ünï.txt", "x.", "...liquid",
              "t.liquid", "index.html", "a", "A.TXT", "a.txt.liquid", "noext.liquid", "b.txt"]
DIR_NAMES = ["sub", "deep", "d.d", "s p"]


class TreeGen:
    def __init__(self, rng):
        self.rng = rng
        self.next_id = 1

    def fid(self):
        self.next_id += 1
        return self.next_id - 1

    def plain_dir(self, depth, always=()):
        r = self.rng
        d = {}
        for n in always:
            d[n] = {"f": self.fid()}
        for n in r.sample(FILE_NAMES, r.range(1, 5)):
            d.setdefault(n, {"f": self.fid()})
        if depth > 0:
            for n in r.sample(DIR_NAMES, r.range(0, 2)):
                d[n] = self.plain_dir(depth - 1)
        return {"d": d}

    def add_links(self, root_dir, up, with_links):
        """links placed in a search directory; `up` = relative way from it to the sandbox root"""
        r = self.rng
        d = root_dir["d"]
        pool = [
            ("lnk_in", "a.txt"), ("lnk_in2.txt", "./sub/../a.txt"), ("lnk_out.txt", up + "/outside/secret.txt"),
            ("lnk_out", up + "/outside/secret.liquid"), ("dir_out", up + "/outside"), ("abs_out.txt", "$SB/outside/secret.txt"),
            ("abs_in.txt", "$SB/root/a.txt"), ("loopA", "loopB"), ("loopB", "loopA"), ("self", "self"), ("dangling.txt", "nothing"),
            ("dir_in", "sub"), ("up", ".."), ("viaback.txt", up + "/outside/back/in.txt"), ("dirback", up + "/outside/back"),
            ("ch1.txt", "ch2"), ("ch2", "ch3"), ("ch3", "a.txt"), ("slashy", "sub//./"), ("abs_dir_out", "$SB/outside/"),
            ("long_chain.txt", "$SB/chains/c0"), ("too_long_chain.txt", "$SB/chains/d0"), ("tolink", "lnk_out.txt"),
            # a sibling directory whose name has the search directory's name as a prefix (root / root2)
            ("sib.txt", up + "/root2/only2.txt"), ("sibdir", up + "/root2"), ("abs_sib.txt", "$SB/root2/a.txt"),
        ]
        if with_links:
            for n, t in r.sample(pool, r.range(3, len(pool))):
                d[n] = {"l": t}

    def tree(self, links=True):
        r = self.rng
        root = self.plain_dir(2, always=["a.txt"])
        root["d"].setdefault("sub", self.plain_dir(1))
        root["d"]["sub"]["d"]["in.txt"] = {"f": self.fid()}
        root2 = self.plain_dir(1, always=["a.txt", "only2.txt"])
        outside = {"d": {"secret.txt": {"f": self.fid()}, "secret.liquid": {"f": self.fid()}, "a.txt": {"f": self.fid()},
                         "noext": {"f": self.fid()}, "back": {"l": "../root/sub"}, "sub": self.plain_dir(0, always=["in.txt"])}}
        self.add_links(root, "..", links)
        if links and r.chance(50):
            self.add_links(root["d"]["sub"], "../..", True)
        # link chains: c0 -> c1 -> … -> c<n> -> target ; 39 links resolve, 41 do not (MAXSYMLINKS = 40)
        chains = {}
        for pre, n in (("c", 38), ("d", 41)):
            for i in range(n):
                chains[f"{pre}{i}"] = {"l": f"{pre}{i + 1}"}
            chains[f"{pre}{n}"] = {"l": "../root/a.txt"}
        pkg_templates = self.plain_dir(1, always=["t.liquid", "a.txt"])
        if links:
            pkg_templates["d"]["lnk_out.txt"] = {"l": "../../../outside/secret.txt"}
            pkg_templates["d"]["dir_out"] = {"l": "$SB/outside"}
        pkg = {"d": {"__init__.py": {"f": self.fid()}, "secret.liquid": {"f": self.fid()}, "templates": pkg_templates,
                     "more": self.plain_dir(0, always=["m.liquid"])}}
        top = {"root": root, "root2": root2, "outside": outside, "chains": {"d": chains}, "pk": {"d": {"PKG": pkg}},
               "rootlnk": {"l": "root"}, "a.txt": {"f": self.fid()}}
        return {"d": top}


def shrink_tree(case):
    """the same case over a smaller tree: drop one entry (two levels deep) at a time"""
    import copy

    tree = case["tree"]
    for top, sub in list(tree["d"].items()):
        if top != "root" and not (top == "pk" and case.get("flavour") == "PackageLoader"):
            t = copy.deepcopy(tree)
            del t["d"][top]
            yield {**case, "tree": t}
        if "d" in sub and top != "pk" and top in tree["d"]:
            for name in list(sub["d"]):
                t = copy.deepcopy(tree)
                del t["d"][top]["d"][name]
                yield {**case, "tree": t}
                if "d" in sub["d"][name]:
                    for n2 in list(sub["d"][name]["d"]):
                        t = copy.deepcopy(tree)
                        del t["d"][top]["d"][name]["d"][n2]
                        yield {**case, "tree": t}


def walk_paths(node, prefix=""):
    """every lexical relative path of the spec (files, dirs, links), not following links"""
    out = []
    for n, ch in node["d"].items():
        p = prefix + n
        out.append(p)
        if "d" in ch:
            out += walk_paths(ch, p + "/")
    return out


def mutate_name(rng, base: str, sb_expr: str, through: list) -> tuple:
    """(name, tag) — `base` is a relative path that exists in the search directory"""
    r = rng
    k = r.below(34)
    if r.chance(30):  # keep a good share of names that are expected to load
        k = r.choice([0, 1, 2, 3, 21, 25, 28, 29, 30])
    stem = base.rsplit(".", 1)[0] if "." in base.split("/")[-1][1:] else base
    if k == 0:
        return base, "plain"
    if k == 1:
        return stem, "dropsuffix"
    if k == 2:
        return "./" + base, "dotslash"
    if k == 3:
        return base.replace("/", "//") + r.choice(["", "/", "/.", "//"]), "slashes"
    if k == 4:
        return "sub/../" + base, "dotdot-inside"
    if k == 5:
        return "../" + r.choice(["outside/secret.txt", "root/" + base, "a.txt", "outside/" + base]), "dotdot-out"
    if k == 6:
        return sb_expr + "/" + r.choice(["outside/secret.txt", "outside/a.txt", "root/" + base, "a.txt"]), "absolute"
    if k == 7:
        return r.choice(["//", "///", "////"]) + sb_expr.lstrip("/") + "/outside/secret.txt", "absolute-multi"
    if k == 8:
        return r.choice(["/etc/passwd", "/etc/hostname", "/", "//", "/.", "/..", "/proc/self/environ"]), "absolute-sys"
    if k == 9:
        i = r.below(len(base) + 1)
        return base[:i] + "\x00" + base[i:], "nul"
    if k == 10:
        i = r.below(len(base) + 1)
        return base[:i] + r.choice(["\n", "\x7f", "\x01", "\t", "\r", "\x1b"]) + base[i:], "control"
    if k == 11 and r.chance(50):
        # traversal / absolute names spelled with compatibility characters (a loader must not normalise them into
        # '..' or '/'): added after seeded change C22-2 (NFKC normalisation after the '..' test) was missed
        dot = r.choice(["\uff0e", "\u2024", "\ufe52"])
        sl = r.choice(["/", "\uff0f", "\u2215"])
        if r.chance(50):
            return dot + dot + sl + r.choice(["outside/secret.txt", "a.txt", "outside/" + base]), "compat-dotdot"
        return "\uff0f" + sb_expr.lstrip("/") + "/" + r.choice(["outside/secret.txt", "a.txt"]), "compat-absolute"
    if k == 11:
        i = r.below(len(base) + 1)
        return base[:i] + r.choice(["é", "\U0001d518", "‮", "／", "∕", "﻿", "．．"]) + base[i:], "unicode"
    if k == 12:
        i = r.below(len(base) + 1)
        return base[:i] + r.choice(["\udc80", "\ud800", "\udfff", "\udcff"]) + base[i:], "surrogate"
    if k == 13:
        return base.replace("/", "\\") + r.choice(["", "\\..\\x"]), "backslash"
    if k == 14:
        n = r.choice([254, 255, 256, 300, 1000])
        return r.choice(["", "sub/"]) + "x" * n, f"long-comp"
    if k == 15:
        n = r.choice([127, 128, 85, 86])
        return r.choice(["é", "€"]) * n + r.choice(["", ".txt"]), "long-comp-multibyte"
    if k == 16:
        return "sub/" * r.choice([800, 1022, 1023, 1024, 1100]) + "in.txt", "long-path"
    if k == 17:
        return r.choice(["", ".", "..", "...", " ", "./", "./.", "a/..", "../", "..\x00", ". .", "~", "~/a.txt", "-", "*", "?"]), "tiny"
    if k == 18:
        return base + "/" + r.choice(["x", "..", ".", "a.txt", "../a.txt"]), "file-as-dir"
    if k == 19:
        return base.upper() if r.chance(50) else base.swapcase(), "case"
    if k == 20:
        return base + r.choice([".", "..", ".liquid", ".txt", " ", ".tar.gz"]), "suffix-added"
    if k in (21, 22, 23, 24) and through:
        t = r.choice(through)
        return t, "through-link"
    if k == 25 and through:
        t = r.choice(through)
        return (t.rsplit(".", 1)[0] if "." in t.split("/")[-1][1:] else t), "through-link-dropsuffix"
    if k == 26:
        return r.choice(["missing.txt", "sub/missing", "nodir/a.txt", "sub/deep/none.liquid"]), "missing"
    if k == 27:
        return "x" * r.choice([248, 249, 250, 251, 252]), "near-long"
    if k == 28:
        return r.choice(["lnk_out.txt", "dir_out/secret.txt", "abs_out.txt", "up/outside/secret.txt", "up/a.txt", "dir_out/sub/in.txt",
                         "loopA", "self", "dangling.txt", "long_chain.txt", "too_long_chain.txt", "tolink", "dirback/in.txt", "viaback.txt",
                         "abs_dir_out/secret.txt", "lnk_out", "dir_out/secret", "dir_out/noext", "up/root/a.txt", "slashy/in.txt",
                         "sib.txt", "sibdir/only2.txt", "sibdir/a.txt", "abs_sib.txt", "up/root2/only2.txt"]), "link-probe"
    if k == 29:
        return "./" * r.range(2, 5) + base + "/." * r.range(0, 3), "dots"
    if k == 30:
        return base.replace("/", "/./"), "dots-inner"
    if k == 31:
        return r.choice(["..a", "a..", "..", ".a.", "a...b", ".a.b", "a.b.", ".."+base, "sub/..hidden", "...", "...."]), "dotty"
    if k == 32:
        return "sub/" + "../" * r.range(1, 4) + r.choice(["outside/secret.txt", "a.txt"]), "dotdot-climb"
    return base, "plain"


def through_link_paths(tree_root: dict, sb_tree: dict) -> list:
    """paths that go through links of the search directory (built from what the generator places)"""
    out = []
    names = tree_root["d"]
    outside_files = [p for p in walk_paths(sb_tree["d"]["outside"])]
    sub_files = list(names.get("sub", {"d": {}})["d"].keys())
    for n, ch in names.items():
        if "l" not in ch:
            continue
        out.append(n)
        if n in ("dir_out", "abs_dir_out"):
            out += [n + "/" + f for f in outside_files] + [n + "/back/in.txt"]
        if n in ("dir_in", "dirback", "slashy"):
            out += [n + "/" + f for f in sub_files]
        if n == "sibdir":
            out += ["sibdir/only2.txt", "sibdir/a.txt"]
        if n == "up":
            out += ["up/a.txt", "up/outside/secret.txt", "up/root/a.txt", "up/root2/only2.txt"]
    return out


EXTS = [None, None, None, "", ".liquid", ".liquid", ".txt", ".txt", "..", ".tar.gz", ".x y", "liquid", ".a/b", "."]
SEARCHES = [["$SB/root"], ["$SB/root"], ["$SB/root", "$SB/root2"], ["$SB/root2", "$SB/root"], ["$SB/rootlnk"], ["root"],
            ["$SB/root/sub/.."], ["$SB/missing", "$SB/root"], ["$SB/root/sub", "$SB/root"], ["$SB//root/./"], ["//$SB/root"],
            ["$SB/root/a.txt", "$SB/root"], ["."], [""], ["$SB/root/loopA", "$SB/root"]]


def name_class(name: str) -> str:
    name = name.replace("$SB", "/tmp/c22sb")
    if "\x00" in name:
        return "nul"
    if name.startswith("/"):
        return "absolute"
    parts = [p for p in name.split("/") if p and p != "."]
    if not parts:
        return "empty"
    if ".." in parts:
        return "dotdot"
    if any(0xD800 <= ord(c) <= 0xDFFF for c in name):
        return "surrogate"
    if any(len(p.encode("utf-8", "surrogateescape")) > 240 for p in parts) or len(name) > 3500:
        return "long"
    return "other"


# ---------------------------------------------------------------------------------------------
# running the real loaders
# ---------------------------------------------------------------------------------------------
def _cid(text: str):
    if text.startswith(CONTENT_PREFIX) and text[len(CONTENT_PREFIX):].isdigit():
        return int(text[len(CONTENT_PREFIX):])
    return "unexpected:" + text[:40]


def _load(env, name, mode, via, loop=None):
    """-> {"ok": [path | None, content-id]} | {"err": class}"""
    from liquid.exceptions import TemplateNotFoundError

    def run_async(coro_fn):  # one event loop (and one executor) per case
        return loop.run_until_complete(coro_fn())

    try:
        if via == "include":
            t = env.from_string("{% include n %}")
            text = t.render(n=name) if mode == "sync" else run_async(lambda: t.render_async(n=name))
            return {"ok": [None, _cid(text)]}
        t = env.get_template(name) if mode == "sync" else run_async(lambda: env.get_template_async(name))
        return {"ok": [str(t.path), _cid(t.render())]}
    except TemplateNotFoundError:
        return {"err": "TemplateNotFoundError"}
    except BaseException as e:  # noqa: BLE001 — any other class is what the property forbids
        if isinstance(e, (KeyboardInterrupt, SystemExit)):
            raise
        return {"err": type(e).__name__}


def _under(rp: str, rb: str) -> bool:
    return rp.startswith(rb.rstrip("/") + "/")


def allowed_ids(bases: list, reject: bool) -> list:
    """The property's own reading of 'inside the search directories', computed with os primitives only:
    ids of regular files reachable by descending from a search directory; with rejection, only those whose
    real path is below the real path of that directory."""
    ok = set()
    for base in bases:
        if not os.path.isdir(base):
            continue
        rb = os.path.realpath(base)
        seen = set()
        stack = [base]
        while stack:
            d = stack.pop()
            rd = os.path.realpath(d)
            if rd in seen:
                continue
            seen.add(rd)
            try:
                entries = list(os.scandir(d))
            except OSError:
                continue
            for e in entries:
                p = os.path.join(d, e.name)
                try:
                    if e.is_dir(follow_symlinks=True):
                        stack.append(p)
                    elif e.is_file(follow_symlinks=True):
                        if reject and not _under(os.path.realpath(p), rb):
                            continue
                        with open(p, encoding="utf-8") as fd:
                            c = _cid(fd.read())
                        if isinstance(c, int):
                            ok.add(c)
                except OSError:
                    continue
    return sorted(ok)


def lexically_inside(path: str, bases: list) -> bool:
    from pathlib import PurePosixPath

    p = PurePosixPath(path).parts
    for b in bases:
        bp = PurePosixPath(b).parts
        if p[: len(bp)] == bp and len(p) > len(bp) and ".." not in p[len(bp):]:
            return True
    return False


def used_verbatim(path: str, bases: list, name: str, ext) -> bool:
    """the path a loader returns is a search directory followed by exactly the components pathlib sees in the
    name (ext appended to the last one when it has no suffix): no case folding, no unicode normalisation"""
    from pathlib import PurePosixPath

    pp = PurePosixPath(path).parts
    want = list(PurePosixPath(name).parts)
    if want and ext and not PurePosixPath(name).suffix:
        want[-1] += ext
    return any(pp[: len(bp)] == bp and list(pp[len(bp):]) == want for bp in (PurePosixPath(b).parts for b in bases))


_PKG_COUNTER = [0]


class LoaderStream(Stream):
    """shared by the fsl and pkg streams: one case = one sandbox tree, one loader configuration, several names"""

    parallel = True
    kind = "fsl"
    sizes = (10, 10)

    def gen_case(self, rng, i):
        raise NotImplementedError

    def cases(self, ctx):
        # a few hundred cases run faster in-process than through a 16-worker pool on a busy machine
        self.parallel = ctx.tier == "thorough"
        rng = ctx.rng_for(self.name)
        return [self.gen_case(rng, i) for i in range(ctx.scale(*self.sizes))]

    def make_loader(self, case, sb, pkg, cleanup):
        raise NotImplementedError

    def bases(self, case, sb, pkg):
        raise NotImplementedError

    @staticmethod
    def tree_of(case, pkg):
        tree = case["tree"]
        top = dict(tree["d"])
        pk = top.get("pk")
        if pk and "PKG" in pk["d"]:
            top["pk"] = {"d": {pkg: pk["d"]["PKG"]}}
        return {"d": top}

    def impl(self, case):
        from liquid import Environment

        _PKG_COUNTER[0] += 1
        pkg = f"c22p_{os.getpid()}_{_PKG_COUNTER[0]}"
        with Sandbox(self.tree_of(case, pkg)) as box:
            sb = box.sb
            names = [n.replace("$SB", sb) for n in case["names"]]
            old_cwd = os.getcwd()
            os.chdir(sb)
            cleanup = []
            try:
                try:
                    env = Environment(loader=self.make_loader(case, sb, pkg, cleanup))
                except ValueError:
                    # documented: "Raise: ValueError if `ext` is not a valid suffix" — a configuration error
                    return {"sb": sb, "pkg": pkg, "ctor": "ValueError", "results": [], "allowed": [], "checks": []}
                import asyncio

                loop = asyncio.new_event_loop() if case["mode"] == "async" else None
                try:
                    results = [_load(env, n, case["mode"], case["via"], loop) for n in names]
                    again = [_load(env, n, case["mode"], case["via"], loop) for n in names] if case.get("caching") else None
                finally:
                    if loop is not None:
                        loop.run_until_complete(loop.shutdown_default_executor())
                        loop.close()
                bases = [b if b.startswith("/") else os.path.join(sb, b) for b in self.bases(case, sb, pkg)]
                allowed = allowed_ids(bases, bool(case.get("rej")))
                checks = []
                for r, real_name in zip(results, names):
                    if "ok" in r and r["ok"][0] is not None:
                        p = r["ok"][0]
                        ap = p if p.startswith("/") else os.path.join(sb, p)
                        try:
                            with open(ap, encoding="utf-8") as fd:
                                same = _cid(fd.read()) == r["ok"][1]
                        except (OSError, ValueError):
                            same = False
                        real = any(_under(os.path.realpath(ap), os.path.realpath(b)) for b in bases)
                        checks.append([lexically_inside(ap, bases), same, real, used_verbatim(ap, bases, real_name, case["ext"])])
                    else:
                        checks.append(None)
            finally:
                os.chdir(old_cwd)
                for fn in cleanup:
                    fn()
            obs = {"sb": sb, "pkg": pkg, "results": results, "allowed": allowed, "checks": checks}
            if again is not None:
                obs["again"] = again
            return obs

    # -- model ------------------------------------------------------------------------------
    def compare_view(self, case, obs):
        if "ctor" in obs:
            return {"ctor": obs["ctor"]}
        return obs["results"]

    def canon_model(self, case, mobs):
        if not isinstance(mobs, list):
            return mobs
        out = []
        for r in mobs:
            if isinstance(r, dict) and "ok" in r:
                p = "".join(chr(c) for c in r["ok"][0])
                out.append({"ok": [None if case["via"] == "include" else p, r["ok"][1]]})
            else:
                out.append(r)
        return out

    # -- oracle -----------------------------------------------------------------------------
    def oracle(self, case, obs):
        if not isinstance(obs, dict) or "allowed" not in obs:  # a model observation carries no sandbox facts
            return None
        allowed = set(obs["allowed"])
        for which in ("results", "again"):
            for i, r in enumerate(obs.get(which) or []):
                name = case["names"][i]
                nc = name_class(name)
                if "err" in r:
                    if r["err"] != "TemplateNotFoundError":
                        return (f"{self.kind}|raises-{r['err']}|{nc}", f"name {name[:80]!r} ({len(name)} chars) raised {r['err']}")
                    continue
                path, cid = r["ok"]
                if cid not in allowed:
                    return (f"{self.kind}|outside|{nc}", f"name {name[:120]!r} returned content {cid!r} of {path!r}, not a file inside the search path (reject_symlinks={case.get('rej')})")
                if which == "results" and obs["checks"][i] is not None:
                    lex, same, real, verb = obs["checks"][i]
                    if not verb and lex:
                        return (f"{self.kind}|name-not-used-verbatim|{nc}", f"name {name[:120]!r} resolved to {path!r}: not the components pathlib sees in the name")
                    if not lex:
                        return (f"{self.kind}|path-not-under-search-dir|{nc}", f"name {name[:120]!r} resolved to {path!r}")
                    if not same:
                        return (f"{self.kind}|content-not-of-path|{nc}", f"name {name[:120]!r}: source differs from the file at {path!r}")
                    if case.get("rej") and not real:
                        return (f"{self.kind}|followed-link-out|{nc}", f"name {name[:120]!r} resolved to {path!r} whose real path is outside")
        if obs.get("again") is not None and obs["again"] != obs["results"]:
            return (f"{self.kind}|cached-differs", "a second request through the caching loader answered differently")
        return None

    def nontrivial(self, case, obs):
        return any(t != "plain" for t in case["tags"])

    def tags(self, case, obs):
        t = [case["mode"], case["via"], case["flavour"]] + [f"name:{x}" for x in case["tags"]]
        if "ctor" in obs:
            t.append("ctor-" + obs["ctor"])
        for r in obs["results"]:
            t.append("hit" if "ok" in r else "notfound" if r["err"] == "TemplateNotFoundError" else "raises-" + r["err"])
        return t

    def shrink_candidates(self, case):
        names, tags = case["names"], case["tags"]
        if len(names) == 1:
            yield from shrink_tree(case)
        if len(names) > 1:
            for i in range(len(names)):
                d = dict(case)
                d["names"], d["tags"] = [names[i]], [tags[i]]
                yield d
        else:
            n = names[0]
            for cand in ([n[: len(n) // 2], n[1:], n[:-1]] if n else []):
                d = dict(case)
                d["names"] = [cand]
                yield d


class FslStream(LoaderStream):
    name = "fsl"
    kind = "fsl"
    sizes = (150, 2000)

    def gen_case(self, rng, i):
        tg = TreeGen(rng)
        tree = tg.tree(links=rng.chance(80))
        first_root = tree["d"]["root"]
        through = through_link_paths(first_root, tree)
        basepaths = walk_paths(first_root) + ["only2.txt"]
        names, tags = [], []
        for _ in range(rng.range(10, 18)):
            n, t = mutate_name(rng, rng.choice(basepaths), "$SB", through)
            names.append(n)
            tags.append(t)
        flavour = rng.choice(["FileSystemLoader", "CachingFileSystemLoader"])
        return {"tree": tree, "search": rng.choice(SEARCHES), "ext": rng.choice(EXTS), "rej": rng.chance(50), "flavour": flavour,
                "caching": flavour == "CachingFileSystemLoader", "mode": rng.choice(["sync", "async"]),
                "via": rng.choice(["direct", "direct", "include"]), "names": names, "tags": tags}

    def make_loader(self, case, sb, pkg, cleanup):
        from pathlib import Path

        from liquid import CachingFileSystemLoader
        from liquid import FileSystemLoader

        sp = [Path(s.replace("$SB", sb)) if i % 2 == 0 else s.replace("$SB", sb) for i, s in enumerate(case["search"])]
        if len(sp) == 1 and len(case["names"]) % 2:
            sp = sp[0]
        kw = {"ext": case["ext"], "reject_symlinks": case["rej"]}
        if case["flavour"] == "CachingFileSystemLoader":
            return CachingFileSystemLoader(sp, **kw)
        return FileSystemLoader(sp, **kw)

    def bases(self, case, sb, pkg):
        return [s.replace("$SB", sb) or "." for s in case["search"]]

    def line_obs(self, case, obs):
        sb = obs["sb"]
        cfg = {"search": [cps(s.replace("$SB", sb)) for s in case["search"]], "ext": None if case["ext"] is None else cps(case["ext"]), "rej": case["rej"]}
        return ["c22_fsl", model_fs(self.tree_of(case, obs["pkg"]), sb), cfg, [cps(n.replace("$SB", sb)) for n in case["names"]]]


PKG_EXTS = [".liquid", ".liquid", ".liquid", ".txt", ".txt", "", "..", ".tar.gz", "liquid", ".a/b", "."]
PKG_PATHS = ["templates", "templates", ["templates", "more"], ["more", "templates"], "", ".", "templates/sub/..", ["missing", "templates"]]


class PkgStream(LoaderStream):
    name = "pkg"
    kind = "pkg"
    sizes = (100, 1000)

    def gen_case(self, rng, i):
        tg = TreeGen(rng)
        tree = tg.tree(links=rng.chance(70))
        tdir = tree["d"]["pk"]["d"]["PKG"]["d"]["templates"]
        through = [n for n, ch in tdir["d"].items() if "l" in ch] + ["dir_out/secret.txt", "dir_out/secret", "lnk_out"]
        basepaths = walk_paths(tdir) + ["m.liquid", "m"]
        names, tags = [], []
        for _ in range(rng.range(10, 18)):
            n, t = mutate_name(rng, rng.choice(basepaths), "$SB", through)
            if t == "dotdot-out" and rng.chance(50):
                n = rng.choice(["../__init__.py", "../secret.liquid", "../secret", "../more/m.liquid", "templates/../../secret"])
            if t == "absolute" and rng.chance(50):
                n = "$SB/pk/PKG/" + rng.choice(["__init__.py", "secret.liquid", "secret"])
            names.append(n)
            tags.append(t)
        return {"tree": tree, "paths": rng.choice(PKG_PATHS), "ext": rng.choice(PKG_EXTS), "flavour": "PackageLoader",
                "mode": rng.choice(["sync", "async"]), "via": rng.choice(["direct", "direct", "include"]),
                "by": rng.choice(["name", "module"]), "names": names, "tags": tags}

    def impl(self, case):
        # "$SB/pk/PKG/" inside names needs the package name, known only inside impl: handled by tree_of/real names
        return super().impl(case)

    def make_loader(self, case, sb, pkg, cleanup):
        import importlib

        from liquid import PackageLoader

        root = os.path.join(sb, "pk")
        sys.path.insert(0, root)
        importlib.invalidate_caches()

        def undo():
            if root in sys.path:
                sys.path.remove(root)
            sys.modules.pop(pkg, None)

        cleanup.append(undo)
        target = importlib.import_module(pkg) if case["by"] == "module" else pkg
        return PackageLoader(target, package_path=case["paths"], ext=case["ext"])

    def bases(self, case, sb, pkg):
        pp = case["paths"]
        return [os.path.join(sb, "pk", pkg, p) for p in ([pp] if isinstance(pp, str) else pp)]

    def line_obs(self, case, obs):
        sb, pkg = obs["sb"], obs["pkg"]
        pp = case["paths"]
        paths = [cps(sb + "/pk/" + pkg + "/" + p) for p in ([pp] if isinstance(pp, str) else pp)]
        cfg = {"paths": paths, "ext": cps(case["ext"])}
        return ["c22_pkg", model_fs(self.tree_of(case, pkg), sb), cfg, [cps(n.replace("$SB", sb).replace("/pk/PKG/", f"/pk/{pkg}/")) for n in case["names"]]]


# ---------------------------------------------------------------------------------------------
# primitives: pathlib parsing / with_suffix, and the kernel walk
# ---------------------------------------------------------------------------------------------
def _s(cpl):
    return "".join(chr(c) for c in cpl)


WEIRD = ["\x00", "\n", "\x7f", "é", "\U0001d518", "\udc80", "\ud800", " ", "\\", "~", "．", "-", "A"]


def random_names(rng, n):
    out = []
    for _ in range(n):
        k = rng.range(0, 14)
        alphabet = ["/", "/", ".", ".", "a", "b", "txt", "liquid", "..", "//", "./"] + ([rng.choice(WEIRD)] if rng.chance(50) else [])
        out.append("".join(rng.choice(alphabet) for _ in range(k)))
    return out


class PathlibStream(Stream):
    """PurePosixPath(s): root, parts, name, suffix, is_absolute, str — against `parse`/`suffixOf`."""

    name = "pathlib"
    exhaustive = True
    parallel = False

    def cases(self, ctx):
        import itertools

        out = []
        for alphabet, L in (("/.ab", ctx.scale(6, 7)), ("/.a", ctx.scale(8, 10))):
            for n in range(0, L + 1):
                for t in itertools.product(alphabet, repeat=n):
                    out.append("".join(t))
        out = sorted(set(out))
        out += random_names(ctx.rng_for("pathlib"), ctx.scale(600, 6000))
        return out

    def impl(self, case):
        from pathlib import PurePosixPath

        p = PurePosixPath(case)
        return {"root": len(p.root), "parts": list(p.parts[1:] if p.root else p.parts), "name": p.name, "suffix": p.suffix,
                "abs": p.is_absolute(), "str": str(p)}

    def line(self, case):
        return ["c22_path", cps(case)]

    def canon_model(self, case, mobs):
        if not isinstance(mobs, dict) or "parts" not in mobs:
            return mobs
        return {"root": mobs["root"], "parts": [_s(x) for x in mobs["parts"]], "name": _s(mobs["name"]), "suffix": _s(mobs["suffix"]),
                "abs": mobs["abs"], "str": _s(mobs["str"])}

    def oracle(self, case, obs):
        # what the loaders rely on: a component never contains a separator, is never '' or '.'
        for c in obs["parts"]:
            if "/" in c or c in ("", "."):
                return ("pathlib|dirty-component", f"PurePosixPath({case!r}).parts = {obs['parts']}")
        return None

    def nontrivial(self, case, obs):
        return obs["root"] > 0 or "." in case or obs["suffix"] != ""

    def tags(self, case, obs):
        return [f"root{obs['root']}", "suffix" if obs["suffix"] else "nosuffix", "dotdot" if ".." in obs["parts"] else "nodotdot"]


SUFFIXES = ["", ".", "..", ".x", "x", ".a/b", "/", ".tar.gz", ". ", ".\x00", ".liquid", "...", "./", ".é"]


class SuffixStream(Stream):
    """PurePosixPath(s).with_suffix(ext) — result or ValueError — against `withSuffix`."""

    name = "suffix"
    exhaustive = True

    def cases(self, ctx):
        import itertools

        names = []
        for n in range(0, ctx.scale(4, 5) + 1):
            for t in itertools.product("/.ab", repeat=n):
                names.append("".join(t))
        names += random_names(ctx.rng_for("suffix"), ctx.scale(100, 1000))
        return [[n, e] for n in names for e in SUFFIXES]

    def impl(self, case):
        from pathlib import PurePosixPath

        try:
            return {"ok": str(PurePosixPath(case[0]).with_suffix(case[1]))}
        except ValueError:
            return {"err": "ValueError"}

    def line(self, case):
        return ["c22_suffix", cps(case[0]), cps(case[1])]

    def canon_model(self, case, mobs):
        if isinstance(mobs, dict) and "ok" in mobs:
            return {"ok": _s(mobs["ok"])}
        return mobs

    def nontrivial(self, case, obs):
        return True

    def tags(self, case, obs):
        return ["ok" if "ok" in obs else "ValueError"]


class JoinStream(Stream):
    """`base.joinpath(tp)` as FileSystemLoader calls it and `base.joinpath(str(tp))` as PackageLoader calls it
    (pathlib joins the raw strings and parses again) against the model's `join` on parsed paths."""

    name = "join"
    exhaustive = True

    def cases(self, ctx):
        import itertools

        small = ["".join(t) for n in range(0, ctx.scale(3, 4) + 1) for t in itertools.product("/.a", repeat=n)]
        out = [[a, b] for a in small for b in small]
        rng = ctx.rng_for("join")
        rn = random_names(rng, ctx.scale(400, 4000))
        out += [[rng.choice(rn), rng.choice(rn)] for _ in range(ctx.scale(2000, 20000))]
        return out

    def impl(self, case):
        from pathlib import PurePosixPath

        a, b = PurePosixPath(case[0]), PurePosixPath(case[1])
        return {"path": str(a.joinpath(b)), "via_str": str(a.joinpath(str(b)))}

    def line(self, case):
        return ["c22_join", cps(case[0]), cps(case[1])]

    def canon_model(self, case, mobs):
        if isinstance(mobs, dict) and "ok" in mobs:
            return {"path": _s(mobs["ok"]), "via_str": _s(mobs["ok"])}
        return mobs

    def nontrivial(self, case, obs):
        return case[1].startswith("/") or "." in case[1] or case[0] == ""

    def tags(self, case, obs):
        return ["abs-right" if case[1].startswith("/") else "rel-right"]


FS_PREFIXES = ["$SB/root/", "$SB/root/", "root/", "$SB/root/sub/../", "$SB/rootlnk/", "$SB/outside/", "", "./root/", "$SB/root/sub/",
               "$SB/chains/", "//$SB/root/", "$SB/pk/PKG/templates/"]


class FsPrimStream(Stream):
    """os.stat / Path.exists / Path.is_file / Path.resolve(strict=False) / open().read() on a real sandbox
    tree against the model's walk (`kstat`, `pyExists`, `pyIsFile`, `pyResolve`, `pyRead`)."""

    name = "fsprim"
    parallel = True

    def cases(self, ctx):
        self.parallel = ctx.tier == "thorough"
        rng = ctx.rng_for("fsprim")
        out = []
        for _ in range(ctx.scale(100, 1000)):
            tg = TreeGen(rng)
            tree = tg.tree(links=True)
            root = tree["d"]["root"]
            through = through_link_paths(root, tree)
            basepaths = walk_paths(root)
            paths = []
            for _ in range(rng.range(12, 20)):
                n, t = mutate_name(rng, rng.choice(basepaths), "$SB", through)
                if t == "absolute-sys":  # the model tree holds the sandbox only
                    n = rng.choice(["/", "//", "/.", "/..", "/c22-no-such-dir/x"])
                pre = "" if n.startswith("/") or n.startswith("$SB") else rng.choice(FS_PREFIXES)
                paths.append(pre + n)
            paths += [rng.choice(["$SB/chains/c0", "$SB/chains/d0", "$SB/chains/c1", "$SB/chains/d1", "$SB/chains/d2", "$SB/root/long_chain.txt",
                                  "$SB/root/too_long_chain.txt", "$SB/root/loopA", "$SB/root/self/x", "$SB/root/dangling.txt", "$SB/root/up/root/up/a.txt",
                                  "$SB/root/dirback/../a.txt", "$SB/root/dir_out/../a.txt", "$SB/root/lnk_in/..", "$SB/root/a.txt/..", "$SB/root/sub/..",
                                  "$SB/root/missing/..", "$SB/root/missing/../a.txt"])]
            out.append({"tree": tree, "paths": paths})
        return out

    def impl(self, case):
        import errno
        from pathlib import Path

        pkg = "PKG"
        with Sandbox(case["tree"]) as box:
            sb = box.sb
            old = os.getcwd()
            os.chdir(sb)
            res = []
            try:
                for raw in case["paths"]:
                    P = Path(raw.replace("$SB", sb))
                    r = {}
                    try:
                        st = os.stat(P)
                        import stat as _st

                        if _st.S_ISDIR(st.st_mode):
                            r["stat"] = "dir"
                        else:
                            with open(P, encoding="utf-8") as fd:
                                r["stat"] = ["file", _cid(fd.read())]
                    except OSError as e:
                        r["stat"] = errno.errorcode.get(e.errno, str(e.errno))
                    except ValueError:
                        r["stat"] = "ValueError"
                    for key, fn in (("exists", P.exists), ("is_file", P.is_file)):
                        try:
                            r[key] = bool(fn())
                        except OSError:
                            r[key] = {"err": "OSError"}
                        except Exception as e:  # noqa: BLE001
                            r[key] = {"err": type(e).__name__}
                    try:
                        r["resolve"] = {"ok": str(P.resolve(strict=False))}
                    except OSError:
                        r["resolve"] = {"err": "OSError"}
                    except Exception as e:  # noqa: BLE001
                        r["resolve"] = {"err": "ValueError" if isinstance(e, ValueError) else type(e).__name__}
                    try:
                        with open(P, encoding="utf-8") as fd:
                            r["read"] = _cid(fd.read())
                    except OSError:
                        r["read"] = {"err": "OSError"}
                    except ValueError:
                        r["read"] = {"err": "ValueError"}
                    res.append(r)
            finally:
                os.chdir(old)
            return {"sb": sb, "res": res}

    def line_obs(self, case, obs):
        sb = obs["sb"]
        return ["c22_fsop", model_fs(case["tree"], sb), [cps(p.replace("$SB", sb)) for p in case["paths"]]]

    @staticmethod
    def _mask(r):
        # resolve() on a path whose stat() is ELOOP is outside what the loaders can reach (exists() is False
        # there) and outside the model: os.path.realpath leaves a looping link unresolved and a later '..' may
        # cancel it lexically, where the model's budgeted walk reports the loop.
        if r.get("stat") == "ELOOP":
            r = dict(r)
            r["resolve"] = "not-compared"
        return r

    def compare_view(self, case, obs):
        return [self._mask(r) for r in obs["res"]]

    def canon_model(self, case, mobs):
        if not isinstance(mobs, list):
            return mobs
        out = []
        for r in mobs:
            r = dict(r)
            if isinstance(r.get("resolve"), dict) and "ok" in r["resolve"]:
                r["resolve"] = {"ok": _s(r["resolve"]["ok"])}
            out.append(self._mask(r))
        return out

    def oracle(self, case, obs):
        if not isinstance(obs, dict):
            return None
        # the facts the theorems lean on, stated on the real kernel: stat OK => resolve() succeeds
        for raw, r in zip(case["paths"], obs["res"]):
            if isinstance(r["stat"], list) and not (isinstance(r["resolve"], dict) and "ok" in r["resolve"]):
                return ("fsprim|resolve-fails-on-existing-file", f"{raw[:80]!r}: stat ok but resolve() gave {r['resolve']}")
        return None

    def nontrivial(self, case, obs):
        return True

    def tags(self, case, obs):
        t = []
        for r in obs["res"]:
            t.append("stat:" + (r["stat"] if isinstance(r["stat"], str) else "file"))
            t.append("resolve:" + ("ok" if "ok" in r["resolve"] else r["resolve"]["err"]))
        return t

    def shrink_candidates(self, case):
        if len(case["paths"]) > 1:
            for p in case["paths"]:
                yield {"tree": case["tree"], "paths": [p]}


# ---------------------------------------------------------------------------------------------
# the caching loader over a file system that changes between requests
# ---------------------------------------------------------------------------------------------
def mtime_table(tree: dict, sb: str) -> list:
    out = []

    def rec(node, comps):
        for n, ch in node["d"].items():
            if "f" in ch:
                out.append([[cps(c) for c in comps + [n]], ch.get("t", 0)])
            elif "d" in ch:
                rec(ch, comps + [n])

    rec(tree, [c for c in sb.split("/") if c])
    return out


def tree_set(tree: dict, path: str, node):
    """pure update of a spec tree: put `node` (or delete when None) at the relative `path`"""
    import copy

    t = copy.deepcopy(tree)
    parts = path.split("/")
    d = t
    for c in parts[:-1]:
        d = d["d"][c]
    if node is None:
        d["d"].pop(parts[-1], None)
    else:
        d["d"][parts[-1]] = node
    return t


class CacheStream(Stream):
    """CachingFileSystemLoader asked repeatedly while files are replaced (by other files, by links that stay
    inside, by links to decoys, by directories, or removed) with equal or different mtimes, auto-reload on/off,
    capacities 1..3, sync or async — against `cachedRun`. Direct oracle: no answer is ever a content that was
    not inside the search directories at this or an earlier request; only TemplateNotFoundError is raised."""

    name = "cache"

    def cases(self, ctx):
        self.parallel = ctx.tier == "thorough"
        rng = ctx.rng_for("cache")
        out = []
        for _ in range(ctx.scale(50, 1000)):
            nid = [1]

            def f(t=None):
                nid[0] += 1
                return {"f": nid[0], "t": t if t is not None else rng.choice([1000, 2000, 3000])}

            tree = {"d": {"root": {"d": {"a.txt": f(), "b.txt": f(), "noext": f(), "sub": {"d": {"c.txt": f()}}}},
                          "root2": {"d": {"a.txt": f(), "only2.txt": f()}},
                          "outside": {"d": {"secret.txt": f(), "s2.txt": f(1000), "dir": {"d": {"c.txt": f()}}}}}}
            targets = ["root/a.txt", "root/b.txt", "root/sub/c.txt", "root/sub", "root/noext", "root2/only2.txt", "outside/secret.txt"]
            names = ["a.txt", "a.txt", "b.txt", "./a.txt", "sub/c.txt", "noext", "only2.txt", "sub//c.txt", "a", "missing.txt"]
            steps = []
            for _ in range(rng.range(6, 14)):
                if rng.chance(55):
                    steps.append({"op": "load", "name": rng.choice(names)})
                else:
                    path = rng.choice(targets)
                    up = "../" * (path.count("/"))
                    node = rng.choice([f(), f(1000), f(2000), {"l": up + "outside/secret.txt"}, {"l": up + "outside/s2.txt"},
                                       {"l": "b.txt"}, {"l": "$SB/outside/secret.txt"}, {"l": up + "outside/dir"}, {"d": {}}, None,
                                       {"l": up + "root2/only2.txt"}])
                    steps.append({"op": "set", "path": path, "node": node})
            steps.append({"op": "load", "name": "a.txt"})
            out.append({"tree": tree, "search": rng.choice([["$SB/root"], ["$SB/root"], ["$SB/root", "$SB/root2"], ["$SB/rootlnk"]]),
                        "ext": rng.choice([None, None, ".txt"]), "rej": rng.chance(60), "auto": rng.chance(60), "cap": rng.range(1, 3),
                        "mode": rng.choice(["sync", "async"]), "steps": steps})
        return out

    @staticmethod
    def start_tree(case):
        t = dict(case["tree"]["d"])
        t["rootlnk"] = {"l": "root"}
        return {"d": t}

    def impl(self, case):
        import asyncio

        from liquid import CachingFileSystemLoader
        from liquid import Environment
        from liquid import FileSystemLoader

        with Sandbox(self.start_tree(case)) as box:
            sb = box.sb
            bases = [s.replace("$SB", sb) for s in case["search"]]
            kw = {"ext": case["ext"], "reject_symlinks": case["rej"]}
            env = Environment(loader=CachingFileSystemLoader(bases, auto_reload=case["auto"], capacity=case["cap"], **kw))
            plain = Environment(loader=FileSystemLoader(bases, **kw))
            loop = asyncio.new_event_loop() if case["mode"] == "async" else None
            results, allowed_hist, stale = [], [], 0
            allowed: set = set()
            try:
                for st in case["steps"]:
                    if st["op"] == "load":
                        allowed |= set(allowed_ids(bases, case["rej"]))
                        r = _load(env, st["name"], case["mode"], "direct", loop)
                        fresh = _load(plain, st["name"], case["mode"], "direct", loop)
                        stale += int(r != fresh)
                        results.append(r)
                        allowed_hist.append(sorted(allowed))
                    else:
                        p = os.path.join(sb, st["path"])
                        parent = os.path.dirname(p)
                        if os.path.realpath(parent) != parent or not os.path.isdir(parent):
                            continue  # the parent is no longer a plain directory: the step does not apply
                        if os.path.islink(p) or os.path.isfile(p):
                            os.remove(p)
                        elif os.path.isdir(p):
                            shutil.rmtree(p)
                        if st["node"] is not None and os.path.isdir(os.path.dirname(p)):
                            build_tree(os.path.dirname(p), {"d": {os.path.basename(p): st["node"]}}, sb)
            finally:
                if loop is not None:
                    loop.run_until_complete(loop.shutdown_default_executor())
                    loop.close()
            return {"sb": sb, "results": results, "allowed": allowed_hist, "stale": stale}

    def line_obs(self, case, obs):
        sb = obs["sb"]
        tree = self.start_tree(case)
        steps = []
        for st in case["steps"]:
            if st["op"] == "load":
                steps.append([model_fs(tree, sb), mtime_table(tree, sb), cps(st["name"])])
            else:
                parent = tree
                ok = True
                for c in st["path"].split("/")[:-1]:
                    parent = parent["d"].get(c) if "d" in parent else None
                    if parent is None or "d" not in parent:
                        ok = False
                        break
                if ok:
                    tree = tree_set(tree, st["path"], st["node"])
        cfg = {"search": [cps(s.replace("$SB", sb)) for s in case["search"]], "ext": None if case["ext"] is None else cps(case["ext"]), "rej": case["rej"]}
        return ["c22_cache", cfg, case["auto"], case["cap"], steps]

    def compare_view(self, case, obs):
        return obs["results"]

    def canon_model(self, case, mobs):
        if not isinstance(mobs, list):
            return mobs
        return [({"ok": [_s(r["ok"][0]), r["ok"][1]]} if isinstance(r, dict) and "ok" in r else r) for r in mobs]

    def oracle(self, case, obs):
        if not isinstance(obs, dict) or "allowed" not in obs:
            return None
        for r, allowed in zip(obs["results"], obs["allowed"]):
            if "err" in r:
                if r["err"] != "TemplateNotFoundError":
                    return (f"cache|raises-{r['err']}", f"a request through the caching loader raised {r['err']}")
            elif r["ok"][1] not in allowed:
                return ("cache|outside", f"the caching loader returned content {r['ok'][1]!r} of {r['ok'][0]!r}, never inside the search path so far (reject_symlinks={case['rej']})")
        return None

    def nontrivial(self, case, obs):
        return any(st["op"] == "set" for st in case["steps"])

    def tags(self, case, obs):
        return ["auto" if case["auto"] else "noauto", "rej" if case["rej"] else "norej", case["mode"], "stale" if obs["stale"] else "fresh"]

    def shrink_candidates(self, case):
        for i in range(len(case["steps"])):
            yield {**case, "steps": case["steps"][:i] + case["steps"][i + 1:]}


def streams(ctx):
    return [PathlibStream(), SuffixStream(), JoinStream(), FsPrimStream(), FslStream(), PkgStream(), CacheStream()]
