"""C16 — strict undefined types only refine the default behaviour (liquid/undefined.py and everything that pokes it)."""
from __future__ import annotations

import copy

from ..core import Stream
from ..gen.templates import gen_program
from ..impl.render import make_env, outcome

ID = "C16"
LEAN_MODULE = "LiquidVerif.Props.C16"
TRANSLATE = False
RULE = (
    "stream pokes: every Python-level access (str, iter/items, len, getitem, contains, int, hash, reversed, bool, ==, "
    "__liquid__, __class__, other attribute) on an instance of each of the four undefined classes, == against "
    "None/False/0/''/an Undefined (exhaustive; model = the pokeErr table; oracle: a strict kind that answers must give "
    "the default kind's answer); stream model: random programs of the modelled sub-language (text, output, assign, "
    "if/else with == != < contains and or, for/else, paths with keys, indexes and .size, the filters upcase append size "
    "first join plus default split round) over data with randomly deleted keys and sub-paths, rendered under each of the four "
    "undefined types on the implementation and on the Lean interpreter (observation: ok out | UndefinedError | other); "
    "stream refine: gen_program templates (all built-in and extra tags, ~90 filters, partials, flags) over data with "
    "deleted keys/sub-paths under the four types, Mode.STRICT; stream constructs: every registered filter applied to a "
    "missing variable plus a table of output/iterate/compare constructs, under StrictUndefined (must raise "
    "UndefinedError) and under Undefined (must not); stream engine (exhaustive): every place where the engine itself makes "
    "an undefined value (missing variable/key/sub-path, index out of range, .first/.last of an empty list or a string, "
    ".size of an int, key on a list, index on a dict/string, forloop outside a loop, forloop.parentloop of a loop that is "
    "not nested — directly, in `render ... for`, nested —, missing forloop/tablerowloop attributes, block.super without a "
    "parent, a macro parameter that was not passed, a caller's variable inside `render`) x every way of using a value "
    "(output, echo, filter input of each decorator family, required and optional filter argument, tested, compared on either "
    "side, iterated, for-limit, case/when, assigned or captured then output, cycle item and group, index key, liquid tag), "
    "sync and async, under the four types: StrictUndefined and StrictDefaultUndefined must raise UndefinedError, the "
    "default type must not, a strict success must equal the default render; stream filterargs (exhaustive over the filter "
    "register): a missing variable in every positional and keyword argument position of every registered filter (argument "
    "lists found by trying candidates on defined inputs) — StrictUndefined must raise UndefinedError unless the "
    "(filter, position) pair is in the reviewed table ARG_UNTOUCHED (default's argument and allow_false); stream shapes "
    "(exhaustive over the filter register, model): the row of Model/FilterRegistry.lean for every registered filter — which "
    "kinds raise UndefinedError on a missing left value and on a missing value in each positional argument, and which plain "
    "value (nil, '', 0, [], 1) the missing operand stands for under the default type; stream lax (model): top-level "
    "text/output/assign nodes under Mode.LAX and the four types against renderLax, first case = the kernel-decided "
    "counter-example to refinement in LAX mode; oracle: a strict-mode success equals the lax output. Non-trivial: the program touches at least one missing "
    "variable/path (the default and the StrictUndefined outcomes differ, or a strict kind succeeded on a program whose "
    "data had deletions)."
)
TRUSTED_BASE = [
    "Lean 4.33 kernel; axioms subset of {propext, Classical.choice, Quot.sound}",
    "hand-written model LiquidVerif/Model/UndefKind.lean (poke table of the four undefined classes; RenderContext.get/get_item, to_liquid_string, is_truthy/_eq/_lt/_contains, LoopExpression._to_iter, filter decorators, default's force_liquid_default)",
    "correspondence harness harness/props/c16.py + Driver/C16.lean (every generated program runs on the real code under each undefined type and on the model)",
    "CPython semantics the model abstracts: isinstance() falls back to obj.__class__ (an attribute access) when type(obj) does not match; special-method lookup bypasses __getattribute__; str/repr of plain data",
    "filters outside the eight modelled ones are covered by the abstract-filter hypothesis `Refines` and sampled by the refine/constructs streams only",
]
ASSUMPTIONS = [
    "Mode.STRICT (the default tolerance): under LAX/WARN an UndefinedError is swallowed per top-level node by design (C03), so 'rendering succeeds' is read for Mode.STRICT; the refinement is false under LAX (Props.C16.lax_refinement_counterexample, replayed by the lax stream) and what holds there is lax_agrees_when_no_node_raises",
    "render data contains no Undefined objects (the quantifier: data from which keys and sub-paths were removed); undefined objects are never nested inside containers in the model",
    "the theorems quantify over every filter table satisfying `Refines`; every registered filter is given a shape (operand conversions = fixed poke sequences, then an arbitrary computation on plain data) for which Refines is proved; that the real filter has that shape is what the shapes stream checks (raise pattern per operand and kind, stand-for value)",
    "'the default undefined type never raises' is read as: never raises UndefinedError (slice/truncate reject an undefined argument with FilterArgumentError under every type)",
]
MANIFEST = {
    "technique": "Lean 4 proof (simulation relation carried through an interpreter by structural induction; filters abstract) + differential correspondence under the four undefined types + direct refinement oracle on generated templates",
    "text": "strict_refines_default: for every template of the modelled language, all plain data, every undefined kind and every filter table that only refines, a render that succeeds equals the default-kind render; strict_undefined_raises_{output,iterate,compare,filter}; default_never_raises_undefined. The model is tied to the code by running every generated program under all four undefined classes on both sides; the refinement itself is checked directly on the real engine over gen_program templates with deleted data.",
    "note": "Trusted: Lean kernel, the hand model of the undefined classes and of the poking sites, the harness. Tags and filters outside the modelled sub-language are covered by the abstract-filter hypothesis and by the direct oracle only.",
}

KINDS = ["default", "strict", "falsy", "strictDefault"]


def undefined_class(kind: str):
    import liquid
    from liquid.undefined import FalsyStrictUndefined, StrictDefaultUndefined

    return {
        "default": liquid.Undefined,
        "strict": liquid.StrictUndefined,
        "falsy": FalsyStrictUndefined,
        "strictDefault": StrictDefaultUndefined,
    }[kind]


def coarse(o: dict) -> dict:
    """ok out | UndefinedError | other"""
    if "ok" in o:
        return {"ok": o["ok"]}
    return {"err": "UndefinedError" if o["err"] == "UndefinedError" else "other"}


# ---- pokes ------------------------------------------------------------------------------------
POKES = ["str", "iter", "len", "getitem", "contains", "int", "hash", "reversed", "bool", "eq", "liquid", "cls", "attr"]
EQ_OPERANDS = ["None", "False", "0", "''", "undefined", "True"]


def _canon_value(v):
    from liquid.undefined import Undefined

    if isinstance(v, Undefined):
        return "<undefined>"
    if isinstance(v, (list, tuple)):
        return [_canon_value(x) for x in v]
    if isinstance(v, type):
        return "<class>"
    return repr(v)


def do_poke(kind: str, poke: str, operand: str = "None"):
    from liquid.exceptions import UndefinedError

    cls = undefined_class(kind)
    u = cls("x", token=None)
    other = {"None": None, "False": False, "0": 0, "''": "", "True": True}.get(operand)
    if operand == "undefined":
        other = cls("y", token=None)
    try:
        if poke == "str":
            v = str(u)
        elif poke == "iter":
            v = [list(iter(u)), list(u.items())]
        elif poke == "len":
            v = len(u)
        elif poke == "getitem":
            v = u["k"]
        elif poke == "contains":
            v = "k" in u
        elif poke == "int":
            v = int(u)
        elif poke == "hash":
            hash(u)
            v = "hashable"
        elif poke == "reversed":
            v = list(reversed(u))
        elif poke == "bool":
            v = bool(u)
        elif poke == "eq":
            v = [u == other, other == u, u != other]
        elif poke == "liquid":
            v = [hasattr(u, "__liquid__"), u.__liquid__()]
        elif poke == "cls":
            from liquid.undefined import is_undefined

            v = [isinstance(u, (int, str)), u.__class__ is cls, is_undefined(u)]
        elif poke == "attr":
            v = u.poke()
        else:
            raise ValueError(poke)
    except UndefinedError:
        return {"outcome": "UndefinedError"}
    except Exception as e:
        return {"outcome": "other", "cls": type(e).__name__}
    return {"outcome": "ok", "value": _canon_value(v)}


class PokeStream(Stream):
    name = "pokes"
    exhaustive = True

    def cases(self, ctx):
        out = []
        for k in KINDS:
            for p in POKES:
                for op in EQ_OPERANDS if p == "eq" else ["None"]:
                    out.append({"kind": k, "poke": p, "operand": op})
        return out

    def impl(self, case):
        o = do_poke(case["kind"], case["poke"], case["operand"])
        o["default"] = do_poke("default", case["poke"], case["operand"])
        o["force"] = bool(getattr(undefined_class(case["kind"])("x", token=None), "force_liquid_default", False))
        return o

    def line(self, case):
        return ["c16poke", case["kind"], case["poke"]]

    def compare_view(self, case, obs):
        return "ok" if obs["outcome"] == "ok" else obs["outcome"]

    def oracle(self, case, obs):
        d = obs["default"]
        if d["outcome"] != "ok":
            return (f"pokes|default|{case['poke']}|raises", f"the default Undefined raised on {case['poke']}")
        if obs["outcome"] == "ok" and obs["value"] != d["value"]:
            return (
                f"pokes|{case['kind']}|{case['poke']}|differs-from-default",
                f"{case['kind']} answers {obs['value']} where the default Undefined answers {d['value']} (operand {case['operand']})",
            )
        if case["kind"] == "strict" and obs["outcome"] != "UndefinedError":
            return (f"pokes|strict|{case['poke']}|does-not-raise", f"StrictUndefined did not raise UndefinedError on {case['poke']}")
        return None

    def nontrivial(self, case, obs):
        return case["kind"] != "default"

    def tags(self, case, obs):
        return [case["kind"] + ":" + obs["outcome"]]


# ---- the modelled sub-language ---------------------------------------------------------------
SAFE_STRS = ["", "a", "abc", "Hello World", "42", "7", "x y", "a,b,c", "-7"]
TEXTS = ["x", "T ", "-", "[", "] ", "ok", "E"]
ROOTS = ["a", "b", "c", "user", "items", "n", "s", "q"]
KEYS = ["name", "id", "tags", "size", "zz"]
FILTERS0 = ["upcase", "size", "first"]
FILTERS1 = ["append", "join", "plus", "default", "split", "round"]


def gen_model_data(rng):
    def atom():
        k = rng.below(6)
        if k == 0:
            return None
        if k in (1, 2):
            return rng.choice([0, 1, 2, 5, -3, 42])
        return rng.choice(SAFE_STRS)

    def flat_list():
        return [x for x in (atom() for _ in range(rng.below(4))) if x is not None or rng.chance(30)]

    def user():
        return {"name": rng.choice(SAFE_STRS), "id": rng.choice([0, 1, 7]), "tags": [rng.choice(SAFE_STRS) for _ in range(rng.below(3))]}

    d = {
        "a": atom() if rng.chance(70) else rng.chance(50),
        "b": flat_list(),
        "c": rng.chance(50) if rng.chance(40) else atom(),
        "user": user(),
        "items": [user() if rng.chance(50) else {"name": rng.choice(SAFE_STRS), "id": rng.below(4)} for _ in range(rng.below(4))] if rng.chance(60) else flat_list(),
        "n": rng.choice([0, 1, 3, -2]),
        "s": rng.choice(SAFE_STRS),
    }
    return d


def delete_paths(rng, data, top=35, nested=30):
    """Remove random keys and sub-paths (never adds or changes a value)."""
    out = {}
    for k, v in data.items():
        if rng.chance(top):
            continue
        out[k] = _delete_in(rng, v, nested)
    return out


def _delete_in(rng, v, p):
    if isinstance(v, dict):
        return {k: _delete_in(rng, x, p) for k, x in v.items() if not rng.chance(p)}
    if isinstance(v, list):
        keep = [_delete_in(rng, x, p) for x in v]
        if keep and rng.chance(p):
            keep = keep[: rng.below(len(keep))]
        return keep
    return v


def path_value(data, root, segs):
    """Value of a path in plain data ('MISSING' when absent); mirrors get_item for the shapes generated here."""
    if root not in data:
        return "MISSING"
    v = data[root]
    for s in segs:
        try:
            if isinstance(s, str):
                if isinstance(v, dict) and s in v:
                    v = v[s]
                elif s == "size" and isinstance(v, (dict, list, str)):
                    v = len(v)
                else:
                    return "MISSING"
            else:
                if isinstance(v, list):
                    v = v[s]
                else:
                    return "MISSING"
        except IndexError:
            return "MISSING"
    return v


class ModelGen:
    def __init__(self, rng, full):
        self.r = rng
        self.full = full  # data before deletions: decides which paths may be used where
        self.loopvars: list = []

    def lit(self, strs_only=False):
        r = self.r
        k = r.below(8)
        if strs_only or k < 3:
            return ["lit", r.choice(SAFE_STRS)]
        if k < 5:
            return ["lit", r.choice([0, 1, 2, 5, -3, 42])]
        if k == 5:
            return ["lit", r.chance(50)]
        if k == 6:
            return ["lit", None]
        return ["lit", r.choice(SAFE_STRS)]

    def path(self):
        r = self.r
        root = r.choice(ROOTS + ["nosuch"] + self.loopvars * 2)
        segs = []
        for _ in range(r.choice([0, 0, 1, 1, 2])):
            segs.append(r.choice(KEYS) if r.chance(60) else r.choice([0, 1, -1, 5]))
        return ["path", root, segs]

    def prim(self):
        return self.path() if self.r.chance(65) else self.lit()

    def value_of(self, p):
        """Value in the undeleted data ('UNKNOWN' for loop variables and assigned names)."""
        if p[0] == "lit":
            return p[1]
        if p[1] in self.loopvars or p[1] == "q":
            return "UNKNOWN"
        return path_value(self.full, p[1], p[2])

    def atomish(self, p):
        v = self.value_of(p)
        return v == "MISSING" or v is None or isinstance(v, (str, int, bool))

    def fexpr(self):
        r = self.r
        head = self.prim()
        hv = self.value_of(head)
        maybe_dict = isinstance(hv, dict) or hv == "UNKNOWN"
        fs = []
        for _ in range(r.choice([0, 0, 1, 1, 2, 3])):
            if r.chance(40):
                f = r.choice(FILTERS0)
                if f == "first":
                    if maybe_dict:
                        f = "size"
                    else:
                        maybe_dict = True  # an element may be a dict
                if f in ("upcase", "size"):
                    maybe_dict = False
                fs.append([f, []])
            else:
                f = r.choice(FILTERS1)
                if f == "split":
                    a = self.prim()
                    if not self.atomish(a) or (a[0] == "lit" and isinstance(a[1], str) and len(a[1]) > 1):
                        a = ["lit", r.choice([",", " ", "", "x", None])]
                    maybe_dict = False
                elif f == "round":
                    a = self.prim()
                    if not self.atomish(a):
                        a = ["lit", r.choice([0, 1, -1, 2, None, "a", "7"])]
                    maybe_dict = False
                elif f == "default":
                    a = self.prim()
                    av = self.value_of(a)
                    maybe_dict = maybe_dict or isinstance(av, dict) or av == "UNKNOWN"
                else:
                    a = self.prim()
                    maybe_dict = False
                fs.append([f, [a]])
        return [head, fs]

    def cond(self, depth=0):
        r = self.r
        k = r.below(10)
        if k < 3:
            c = ["prim", self.prim()]
        else:
            c = ["cmp", r.choice(["==", "!=", "<", "contains", "==", "!="]), self.prim(), self.prim()]
        if depth < 2 and r.chance(30):
            return [r.choice(["and", "or"]), c, self.cond(depth + 1)]
        return c

    def iterable(self):
        for _ in range(8):
            p = self.path()
            v = self.value_of(p)
            if v != "UNKNOWN" and not isinstance(v, dict):
                return p
        return ["path", "nosuch", []]

    def stmt(self, depth=0):
        r = self.r
        k = r.below(100)
        if depth >= 3 or k < 30:
            return ["out", self.fexpr()]
        if k < 40:
            return ["text", r.choice(TEXTS)]
        if k < 52:
            return ["assign", r.choice(["q", "a", "n", "zz"]), self.fexpr()]
        if k < 68:
            return ["if", self.cond(), self.block(depth + 1), self.block(depth + 1) if r.chance(60) else ["nop"]]
        if k < 82:
            var = r.choice(["i", "x", "a"])
            it = self.iterable()
            self.loopvars.append(var)
            body = self.block(depth + 1)
            self.loopvars.pop()
            return ["for", var, it, body, self.block(depth + 1) if r.chance(40) else ["nop"]]
        return self.block(depth + 1)

    def block(self, depth):
        n = self.r.choice([1, 1, 2, 3])
        s = self.stmt(depth)
        for _ in range(n - 1):
            s = ["seq", s, self.stmt(depth)]
        return s


def lit_src(v):
    if v is None:
        return "nil"
    if v is True:
        return "true"
    if v is False:
        return "false"
    if isinstance(v, int):
        return str(v)
    return "'" + v + "'"


def prim_src(p):
    if p[0] == "lit":
        return lit_src(p[1])
    s = p[1]
    for seg in p[2]:
        s += "." + seg if isinstance(seg, str) else f"[{seg}]"
    return s


def fexpr_src(x):
    s = prim_src(x[0])
    for name, args in x[1]:
        s += " | " + name + (": " + ", ".join(prim_src(a) for a in args) if args else "")
    return s


def cond_src(c):
    if c[0] == "prim":
        return prim_src(c[1])
    if c[0] == "cmp":
        return f"{prim_src(c[2])} {c[1]} {prim_src(c[3])}"
    return f"{cond_src(c[1])} {c[0]} {cond_src(c[2])}"


def stmt_src(s):
    k = s[0]
    if k == "nop":
        return ""
    if k == "text":
        return s[1]
    if k == "out":
        return "{{ " + fexpr_src(s[1]) + " }}"
    if k == "assign":
        return "{% assign " + s[1] + " = " + fexpr_src(s[2]) + " %}"
    if k == "if":
        return "{% if " + cond_src(s[1]) + " %}" + stmt_src(s[2]) + "{% else %}" + stmt_src(s[3]) + "{% endif %}"
    if k == "for":
        return "{% for " + s[1] + " in " + prim_src(s[2]) + " %}" + stmt_src(s[3]) + "{% else %}" + stmt_src(s[4]) + "{% endfor %}"
    if k == "seq":
        return stmt_src(s[1]) + stmt_src(s[2])
    raise ValueError(k)


def data_json(v):
    """Plain data -> the driver's encoding (dicts keep their order)."""
    if isinstance(v, dict):
        return {"d": [[k, data_json(x)] for k, x in v.items()]}
    if isinstance(v, list):
        return [data_json(x) for x in v]
    return v


def render_kind(source, data, kind, prog=None):
    def go():
        from liquid import Environment

        if prog is not None:
            env = make_env(prog, undefined=undefined_class(kind))
        else:
            env = Environment(undefined=undefined_class(kind))
        return env.from_string(source).render(**copy.deepcopy(data))

    return coarse(outcome(go))


def refine_violation(prefix, outs):
    """The property, stated on the four outcomes."""
    d = outs["default"]
    if d.get("err") == "UndefinedError":
        return (f"{prefix}|default|raises-UndefinedError", "the default undefined type raised UndefinedError")
    for k in KINDS[1:]:
        o = outs[k]
        if "ok" in o and o != d:
            what = "raises" if "err" in d else "differs"
            return (f"{prefix}|{k}|default-{what}", f"render succeeded with {k} -> {o['ok']!r} but the default type gives {d}")
    return None


class ModelStream(Stream):
    name = "model"
    parallel = True

    def cases(self, ctx):
        rng = ctx.rng_for("model")
        out = []
        for i in range(ctx.scale(1500, 10000)):
            r = rng.fork(str(i))
            full = gen_model_data(r)
            g = ModelGen(r, full)
            stmt = g.block(0)
            data = delete_paths(r, full)
            for k in KINDS:
                out.append({"kind": k, "data": data, "stmt": stmt})
        return out

    def impl(self, case):
        src = stmt_src(case["stmt"])
        o = render_kind(src, case["data"], case["kind"])
        return {"out": o, "dflt": o if case["kind"] == "default" else render_kind(src, case["data"], "default"), "src": src}

    def line(self, case):
        return ["c16render", case["kind"], data_json(case["data"]), case["stmt"]]

    def compare_view(self, case, obs):
        return obs["out"]

    def oracle(self, case, obs):
        outs = {k: {"err": "other"} for k in KINDS}
        outs["default"] = obs["dflt"]
        outs[case["kind"]] = obs["out"]
        return refine_violation("model", outs)

    def nontrivial(self, case, obs):
        return case["kind"] != "default" and obs["out"] != obs["dflt"] or (case["kind"] != "default" and "ok" in obs["out"] and len(obs["out"]["ok"]) > 0)

    def tags(self, case, obs):
        o = obs["out"]
        return [case["kind"] + ":" + ("ok" if "ok" in o else o["err"])]

    def shrink_candidates(self, case):
        s = case["stmt"]

        def subs(t):
            if t[0] == "seq":
                yield t[1]
                yield t[2]
                for a in subs(t[1]):
                    yield ["seq", a, t[2]]
                for b in subs(t[2]):
                    yield ["seq", t[1], b]
            elif t[0] == "if":
                yield t[2]
                yield t[3]
                for a in subs(t[2]):
                    yield ["if", t[1], a, t[3]]
            elif t[0] == "for":
                yield t[3]
                yield t[4]
                for a in subs(t[3]):
                    yield ["for", t[1], t[2], a, t[4]]
            elif t[0] in ("out", "assign"):
                x = t[-1]
                for i in range(len(x[1])):
                    yield t[:-1] + [[x[0], x[1][:i] + x[1][i + 1 :]]]

        for c in subs(s):
            d = dict(case)
            d["stmt"] = c
            yield d
        for k in list(case["data"]):
            d = dict(case)
            d["data"] = {a: b for a, b in case["data"].items() if a != k}
            yield d


class RefineStream(Stream):
    name = "refine"
    has_model = False
    parallel = True

    def cases(self, ctx):
        rng = ctx.rng_for("refine")
        out = []
        for i in range(ctx.scale(1200, 10000)):
            r = rng.fork(str(i))
            prog = gen_program(r)
            prog["full_keys"] = len(prog["data"])
            prog["data"] = delete_paths(r, prog["data"], top=30, nested=25)
            out.append(prog)
        return out

    def impl(self, case):
        return {k: render_kind(case["source"], case["data"], k, prog=case) for k in KINDS}

    def oracle(self, case, obs):
        return refine_violation("refine", obs)

    def nontrivial(self, case, obs):
        return obs["default"] != obs["strict"] or any("ok" in obs[k] and obs[k]["ok"] for k in KINDS[1:])

    def tags(self, case, obs):
        t = [k + ":" + ("ok" if "ok" in obs[k] else obs[k]["err"]) for k in KINDS]
        if case["extra"]:
            t.append("extra")
        return t

    def shrink_candidates(self, case):
        import re

        pieces = re.split(r"(\{%.*?%\}|\{\{.*?\}\})", case["source"], flags=re.S)
        for i in range(len(pieces)):
            if pieces[i]:
                d = dict(case)
                d["source"] = "".join(pieces[:i] + pieces[i + 1 :])
                yield d
        for k in list(case["data"]):
            d = dict(case)
            d["data"] = {a: b for a, b in case["data"].items() if a != k}
            yield d
        for k in list(case["partials"]):
            d = dict(case)
            d["partials"] = {a: b for a, b in case["partials"].items() if a != k}
            yield d


CONSTRUCTS = [
    "{{ m }}", "{{ m.a }}", "{{ d.x }}", "{{ d.x.y }}", "{{ l[9] }}", "{% echo m %}", "{{ m | upcase }}",
    "{% if m %}T{% endif %}", "{% unless m %}T{% endunless %}", "{% if m == nil %}T{% endif %}", "{% if m == 1 %}T{% endif %}",
    "{% if 1 == m %}T{% endif %}", "{% if m != 1 %}T{% endif %}", "{% if m < 1 %}T{% endif %}", "{% if 1 < m %}T{% endif %}",
    "{% if m contains 'a' %}T{% endif %}", "{% if 'abc' contains m %}T{% endif %}", "{% if m and true %}T{% endif %}",
    "{% if false or m %}T{% endif %}", "{% if m == empty %}T{% endif %}", "{% if d.x == blank %}T{% endif %}",
    "{% case m %}{% when 1 %}a{% else %}b{% endcase %}", "{% case 1 %}{% when m %}a{% else %}b{% endcase %}",
    "{% for i in m %}x{% else %}E{% endfor %}", "{% for i in d.x %}x{% endfor %}", "{% for i in (1..m) %}x{% endfor %}",
    "{% for i in l limit: m %}x{% endfor %}", "{% for i in l offset: m %}x{% endfor %}", "{% tablerow i in m %}x{% endtablerow %}",
    "{% tablerow i in l cols: m %}x{% endtablerow %}", "{% assign q = m %}{{ q }}", "{% capture q %}{{ m }}{% endcapture %}",
    "{% cycle m, 2 %}", "{% ifchanged %}{{ m }}{% endifchanged %}", "{{ l[m] }}", "{{ d[m] }}", "{{ 'a' | append: m }}",
    "{{ 1 | plus: m }}", "{{ l | join: m }}", "{{ 's' | split: m }}", "{{ l | map: m }}", "{{ l | concat: m }}",
    "{{ m | date: '%Y' }}", "{{ 'March 14, 2016' | date: m }}", "{{ forloop.index }}", "{% for i in l %}{{ forloop.parentloop.index }}{% endfor %}",
    "{% liquid\n echo m\n%}", "{% liquid\n for i in m\n echo i\n endfor\n%}",
    # Python equality reaching an undefined operand (was: FalsyStrictUndefined.__eq__ answered `other is False`)
    "{{ lf | index: m }}", "{{ ln | index: m }}", "{% assign q = m %}{{ lf | index: q }}",
]
# constructs that legitimately do not touch the value (so StrictUndefined does not raise)
UNTOUCHED = ["{% assign q = m %}ok", "{% if true or m %}T{% endif %}", "{% if false and m %}T{% else %}F{% endif %}", "{% if nil contains m %}T{% else %}F{% endif %}"]
FILTER_ARGS = [[], ["'x'"], ["1"], ["'x'", "'y'"], ["1", "2"], ["'a'", "1"], ["'x'", "'y'", "1"], ["'c'", "'x'", "'y'", "1"]]
FILTER_INPUTS = {"str": "'abc'", "list": "l", "int": "5"}


class ConstructStream(Stream):
    name = "constructs"
    has_model = False
    exhaustive = True

    def cases(self, ctx):
        from liquid import Environment

        out = [{"tpl": t, "expect": "touched"} for t in CONSTRUCTS] + [{"tpl": t, "expect": "untouched"} for t in UNTOUCHED]
        env = Environment(extra=True)
        data = {"d": {"a": 1}, "l": [{"a": 1}, {"a": 2}]}
        for name in sorted(env.filters):
            chosen = None
            for args in FILTER_ARGS:
                for inp in FILTER_INPUTS.values():
                    tpl = "{{ " + inp + " | " + name + (": " + ", ".join(args) if args else "") + " }}"
                    try:
                        env.from_string(tpl).render(**copy.deepcopy(data))
                        chosen = args
                        break
                    except Exception:
                        continue
                if chosen is not None:
                    break
            expect = "touched"
            if chosen is None:  # no argument list of ours suits this filter: only the refinement is checked
                chosen, expect = [], "any"
            out.append({"tpl": "{{ m | " + name + (": " + ", ".join(chosen) if chosen else "") + " }}", "expect": expect, "filter": name})
        return out

    def impl(self, case):
        data = {"d": {"a": 1}, "l": [{"a": 1}, {"a": 2}], "lf": [1, False], "ln": [1, None, False]}
        prog = {"extra": True, "partials": {}, "flags": {}, "autoescape": False}
        return {k: render_kind(case["tpl"], data, k, prog=prog) for k in KINDS}

    def oracle(self, case, obs):
        v = refine_violation("constructs", obs)
        if v:
            return v
        what = "filter:" + case["filter"] if "filter" in case else case["tpl"]
        if case["expect"] == "touched" and obs["strict"].get("err") != "UndefinedError":
            return (f"constructs|strict|no-UndefinedError|{what[:60]}", f"StrictUndefined: {case['tpl']} -> {obs['strict']}")
        if case["expect"] == "untouched" and "ok" not in obs["strict"]:
            return (f"constructs|strict|raises-on-untouched|{what[:60]}", f"StrictUndefined: {case['tpl']} -> {obs['strict']}")
        return None

    def tags(self, case, obs):
        return ["filter" if "filter" in case else case["expect"], "falsy:" + ("ok" if "ok" in obs["falsy"] else obs["falsy"]["err"])]

    def shrink_candidates(self, case):
        return []


# ---- engine-made undefined values x every way of using one ------------------------------------
# (name, expression, wrapper with {USE}, partial body with {USE} or None)
SOURCES = [
    ("missing-variable", "m", "{USE}", None),
    ("missing-key", "d.x", "{USE}", None),
    ("missing-sub-path", "d.x.y", "{USE}", None),
    ("index-out-of-range", "l[9]", "{USE}", None),
    ("negative-index-out-of-range", "l[-9]", "{USE}", None),
    ("first-of-empty-list", "e.first", "{USE}", None),
    ("last-of-empty-list", "e.last", "{USE}", None),
    ("first-of-empty-hash", "eh.first", "{USE}", None),
    ("last-of-empty-hash", "eh.last", "{USE}", None),
    ("first-of-empty-string", "es.first", "{USE}", None),
    ("first-of-nil", "nl.first", "{USE}", None),
    ("size-of-int", "n.size", "{USE}", None),
    ("first-of-string", "s.first", "{USE}", None),
    ("last-of-string", "s.last", "{USE}", None),
    ("key-on-list", "l.a", "{USE}", None),
    ("index-on-dict", "d[0]", "{USE}", None),
    ("index-on-string", "s[0]", "{USE}", None),
    ("forloop-outside-a-loop", "forloop", "{USE}", None),
    ("forloop.parentloop-not-nested", "forloop.parentloop", "{% for i in (1..1) %}{USE}{% endfor %}", None),
    ("forloop.parentloop.index-not-nested", "forloop.parentloop.index", "{% for i in (1..1) %}{USE}{% endfor %}", None),
    ("forloop.parentloop-in-render-for", "forloop.parentloop", "{% render 'pp' for one as q %}", "{USE}"),
    ("forloop.parentloop-in-render-for-nested", "forloop.parentloop", "{% for i in (1..1) %}{% render 'pp' for one as q %}{% endfor %}", "{USE}"),
    ("forloop.missing-attribute", "forloop.nosuch", "{% for i in (1..1) %}{USE}{% endfor %}", None),
    ("tablerowloop.missing-attribute", "tablerowloop.nosuch", "{% tablerow i in (1..1) %}{USE}{% endtablerow %}", None),
    ("forloop-inside-tablerow", "forloop", "{% tablerow i in (1..1) %}{USE}{% endtablerow %}", None),
    ("block.super-without-parent", "block.super", "{% block b %}{USE}{% endblock %}", None),
    ("macro-parameter-not-passed", "a", "{% macro f a %}{USE}{% endmacro %}{% call f %}", None),
    ("variable-hidden-in-render", "l", "{% assign hidden = 1 %}{% render 'pp' %}", "{USE_HIDDEN}"),
]
USES = [
    ("output", "{{ S }}"),
    ("echo", "{% echo S %}"),
    ("filter-input-string", "{{ S | upcase }}"),
    ("filter-input-size", "{{ S | size }}"),
    ("filter-input-math", "{{ S | plus: 1 }}"),
    ("filter-input-array", "{{ S | join: ',' }}"),
    ("filter-argument-string", "{{ 'a' | append: S }}"),
    ("filter-argument-math", "{{ 1 | plus: S }}"),
    ("filter-argument-optional", "{{ 2.5 | round: S }}"),
    ("tested", "{% if S %}T{% else %}F{% endif %}"),
    ("tested-unless", "{% unless S %}T{% endunless %}"),
    ("tested-and", "{% if true and S %}T{% endif %}"),
    ("compared-left", "{% if S == 1 %}T{% else %}F{% endif %}"),
    ("compared-right", "{% if 1 == S %}T{% else %}F{% endif %}"),
    ("compared-nil", "{% if S == nil %}T{% else %}F{% endif %}"),
    ("compared-ne", "{% if S != 1 %}T{% endif %}"),
    ("compared-lt", "{% if S < 1 %}T{% endif %}"),
    ("compared-contains", "{% if S contains 'a' %}T{% endif %}"),
    ("iterated-for", "{% for x in S %}x{% else %}E{% endfor %}"),
    ("iterated-tablerow", "{% tablerow x in S %}x{% endtablerow %}"),
    ("iterated-limit", "{% for x in l limit: S %}x{% endfor %}"),
    ("case-subject", "{% case S %}{% when 1 %}a{% else %}b{% endcase %}"),
    ("case-when", "{% case 1 %}{% when S %}a{% else %}b{% endcase %}"),
    ("assigned-then-output", "{% assign z = S %}{{ z }}"),
    ("captured", "{% capture z %}{{ S }}{% endcapture %}{{ z }}"),
    ("cycle-item", "{% cycle S, 2 %}"),
    ("cycle-group", "{% assign g = S %}{% cycle g: 1, 2 %}"),
    ("index-key", "{{ l[S] }}"),
    ("liquid-tag-echo", "{% liquid\n echo S\n%}"),
]
# (source, use) pairs that legitimately do not raise under StrictUndefined, with the reason — reviewed by hand
ENGINE_UNTOUCHED: dict = {}
ENGINE_DATA = {"d": {"a": 1}, "l": [{"a": 1}, {"a": 2}], "e": [], "eh": {}, "es": "", "nl": None, "n": 5, "s": "abc", "one": [1]}


def _render_both(source, data, kind, prog):
    """sync and async outcome (coarse); they must agree for the answer to be used."""
    def sync():
        env = make_env(prog, undefined=undefined_class(kind))
        return env.from_string(source).render(**copy.deepcopy(data))

    def asyn():
        from ..impl.render import run_async

        env = make_env(prog, undefined=undefined_class(kind))
        t = env.from_string(source)
        return run_async(lambda: t.render_async(**copy.deepcopy(data)))

    return coarse(outcome(sync)), coarse(outcome(asyn))


def strictness_violation(prefix, what, tpl, obs, untouched_reason=None):
    """The second sentence of the property, stated on the four kinds x (sync, async):
    StrictUndefined (and StrictDefaultUndefined, which differs only inside `default`) raise UndefinedError when a
    missing value is used; the default type never raises UndefinedError; any strict success equals the default."""
    for mode in ("sync", "async"):
        outs = {k: obs[k][mode] for k in KINDS}
        v = refine_violation(prefix + "|" + mode, outs)
        if v:
            return v
        if untouched_reason is None:
            for k in ("strict", "strictDefault"):
                if outs[k].get("err") != "UndefinedError":
                    return (f"{prefix}|{k}|no-UndefinedError|{what}"[:110], f"{k} ({mode}): {tpl} -> {outs[k]} (no UndefinedError)")
    return None


class EngineStream(Stream):
    """Every place where the engine itself manufactures an undefined value x every way of using a value."""

    name = "engine"
    has_model = False
    exhaustive = True
    parallel = True

    def cases(self, ctx):
        out = []
        for sname, expr, wrapper, partial in SOURCES:
            for uname, use in USES:
                u = use.replace("S", expr) if "{USE_HIDDEN}" not in (partial or "") else use.replace("S", "hidden")
                if partial is None:
                    tpl, parts = wrapper.replace("{USE}", u), {}
                else:
                    tpl, parts = wrapper, {"pp": partial.replace("{USE}", u).replace("{USE_HIDDEN}", u)}
                out.append({"source": sname, "use": uname, "tpl": tpl, "partials": parts})
        return out

    def impl(self, case):
        prog = {"extra": True, "partials": case["partials"], "flags": {}, "autoescape": False}
        res = {}
        for k in KINDS:
            a, b = _render_both(case["tpl"], ENGINE_DATA, k, prog)
            res[k] = {"sync": a, "async": b}
        return res

    def oracle(self, case, obs):
        key = (case["source"], case["use"])
        return strictness_violation("engine", case["source"] + "|" + case["use"], case["tpl"], obs, ENGINE_UNTOUCHED.get(key))

    def tags(self, case, obs):
        return [case["use"], "falsy:" + ("ok" if "ok" in obs["falsy"]["sync"] else obs["falsy"]["sync"]["err"])]

    def shrink_candidates(self, case):
        return []


# ---- every registered filter x every argument position ---------------------------------------
ARG_LISTS = [
    [], ["'a'"], ["1"], ["'a'", "1"], ["1", "2"], ["'x'", "'y'"], ["'a'", "'x'"], ["'x'", "'y'", "1"], ["'c'", "'x'", "'y'", "1"],
    ["nums"], ["'a'", "1", "'z'"],
]
ARG_INPUTS = ["l", "nums", "'abc def'", "5", "'March 14, 2016'", "d", "nil"]
ARG_DATA = {"d": {"a": 1}, "l": [{"a": 1, "t": "x"}, {"a": 2, "t": "y"}], "nums": [3, 1, 2]}
# (filter, position) pairs whose argument is legitimately not evaluated, with the reason — reviewed by hand.
# position: 0-based index of a positional argument, or the keyword's name.
ARG_UNTOUCHED = {
    ("default", 0): "default returns its argument as is (or ignores it when the input is not empty); whoever uses the result pokes it",
    ("default", "allow_false"): "compared with `is True` only",
}
TRANSLATION_ARG_TEMPLATES = [
    ("t", "you", "{{ 'Hello %(you)s' | t: you: m }}"),
    ("t", "you+context", "{{ 'Hello %(you)s' | t: 'ctx', you: m }}"),
    ("gettext", "you", "{{ 'Hello %(you)s' | gettext: you: m }}"),
    ("ngettext", "you", "{{ 'Hello %(you)s' | ngettext: 'Hellos %(you)s', 2, you: m }}"),
    ("pgettext", "you", "{{ 'Hello %(you)s' | pgettext: 'ctx', you: m }}"),
    ("npgettext", "you", "{{ 'Hello %(you)s' | npgettext: 'ctx', 'Hellos %(you)s', 2, you: m }}"),
]


class FilterArgStream(Stream):
    """A missing variable in every argument position (positional and keyword) of every registered filter."""

    name = "filterargs"
    has_model = False
    exhaustive = True
    parallel = True

    def cases(self, ctx):
        import inspect

        from liquid import Environment

        env = Environment(extra=True)

        def works(tpl):
            try:
                env.from_string(tpl).render(**copy.deepcopy(ARG_DATA))
                return True
            except Exception:
                return False

        out = []
        for name in sorted(env.filters):
            found: dict = {}
            for inp in ARG_INPUTS:
                for args in ARG_LISTS:
                    if len(args) in found:
                        continue
                    if works("{{ " + inp + " | " + name + (": " + ", ".join(args) if args else "") + " }}"):
                        found[len(args)] = (inp, args)
            for n, (inp, args) in sorted(found.items()):
                for i in range(n):
                    a2 = list(args)
                    a2[i] = "m"
                    out.append({"filter": name, "pos": i, "arity": n, "tpl": "{{ " + inp + " | " + name + ": " + ", ".join(a2) + " }}"})
            try:
                kws = [q.name for q in inspect.signature(env.filters[name]).parameters.values()
                       if q.kind == q.KEYWORD_ONLY and q.name not in ("context", "environment")]
            except (TypeError, ValueError):
                kws = []
            if kws and found:
                inp, args = found[min(found)]
                for kw in kws:
                    out.append({"filter": name, "pos": kw, "arity": len(args),
                                "tpl": "{{ " + inp + " | " + name + ": " + ", ".join(list(args) + [kw + ": m"]) + " }}"})
        for name, pos, tpl in TRANSLATION_ARG_TEMPLATES:
            out.append({"filter": name, "pos": pos, "arity": -1, "tpl": tpl})
        return out

    def impl(self, case):
        prog = {"extra": True, "partials": {}, "flags": {}, "autoescape": False}
        res = {}
        for k in KINDS:
            a, b = _render_both(case["tpl"], ARG_DATA, k, prog)
            res[k] = {"sync": a, "async": b}
        return res

    def oracle(self, case, obs):
        reason = ARG_UNTOUCHED.get((case["filter"], case["pos"]))
        return strictness_violation("filterargs", f"{case['filter']}#{case['pos']}", case["tpl"], obs, reason)

    def nontrivial(self, case, obs):
        return True

    def tags(self, case, obs):
        return ["kw" if isinstance(case["pos"], str) else "positional", "falsy:" + ("ok" if "ok" in obs["falsy"]["sync"] else obs["falsy"]["sync"]["err"])]

    def shrink_candidates(self, case):
        return []


# ---- the shape table of every registered filter ----------------------------------------------
SUBST = [("nil", None), ("''", ""), ("0", 0), ("e", []), ("1", 1)]


class ShapeStream(Stream):
    """Model/FilterRegistry.lean against the code: for every registered filter, which operand positions raise
    UndefinedError under which undefined type, and which plain value a missing operand stands for."""

    name = "shapes"
    exhaustive = True
    parallel = True

    def cases(self, ctx):
        from liquid import Environment

        return [{"filter": n} for n in sorted(Environment(extra=True).filters)]

    def _discover(self, name):
        from liquid import Environment

        env = Environment(extra=True)
        data = dict(ARG_DATA, e=[])
        found: dict = {}
        for inp in ARG_INPUTS:
            for args in ARG_LISTS:
                if len(args) in found:
                    continue
                try:
                    env.from_string("{{ " + inp + " | " + name + (": " + ", ".join(args) if args else "") + " }}").render(**copy.deepcopy(data))
                    found[len(args)] = (inp, args)
                except Exception:
                    pass
        return found

    def impl(self, case):
        name = case["filter"]
        found = self._discover(name)
        if not found:
            return {"found": False}
        data = dict(ARG_DATA, e=[])
        prog = {"extra": True, "partials": {}, "flags": {}, "autoescape": False}
        n = max(found)
        inp, args = found[n]
        a0 = found[min(found)][1]

        def pattern(tpl):
            outs = {k: render_kind(tpl, data, k, prog=prog) for k in KINDS}
            return [outs[k].get("err") == "UndefinedError" for k in KINDS], outs

        def tpl_of(i, a):
            return "{{ " + i + " | " + name + (": " + ", ".join(a) if a else "") + " }}"

        in_pat, in_outs = pattern(tpl_of("m", a0))
        in_cands = [v for (lit, v) in SUBST if render_kind(tpl_of(lit, a0), data, "default", prog=prog) == in_outs["default"]]
        refine = refine_violation("shapes", in_outs)
        rows = []
        for i in range(n):
            a2 = list(args)
            a2[i] = "m"
            pat, outs = pattern(tpl_of(inp, a2))
            refine = refine or refine_violation("shapes", outs)
            cands = []
            for lit, v in SUBST:
                a3 = list(args)
                a3[i] = lit
                if render_kind(tpl_of(inp, a3), data, "default", prog=prog) == outs["default"]:
                    cands.append(v)
            rows.append({"raises": pat, "cands": cands})
        return {"found": True, "input": in_pat, "in_cands": in_cands, "in_ok": "ok" in in_outs["default"], "args": rows,
                "refine": list(refine) if refine else None}

    def line_obs(self, case, obs):
        if not obs.get("found"):
            return None
        return ["c16shape", case["filter"], obs["in_cands"], [r["cands"] for r in obs["args"]]]

    def compare_view(self, case, obs):
        # default: not a shape (kind dependent); its input row is compared, its argument is the reviewed exception
        return {"input": obs["input"], "args": [{"raises": r["raises"], "as": True} for r in obs["args"]]}

    def canon_model(self, case, mobs):
        if not isinstance(mobs, dict) or "input" not in mobs:
            return mobs
        args = [{"raises": a["raises"], "as": True if a["as"] is None else a["as"]} for a in mobs["args"]]
        inp = mobs["input"]
        if mobs.get("special"):  # `default`: StrictUndefined raises through __liquid__, StrictDefaultUndefined is forced
            inp = [False, True, False, False]
        return {"input": inp, "args": args, "_inAs": mobs["inAs"]} if mobs["inAs"] is False else {"input": inp, "args": args}

    def oracle(self, case, obs):
        if obs.get("refine"):
            return tuple(obs["refine"])
        return None

    def nontrivial(self, case, obs):
        return bool(obs.get("found"))

    def tags(self, case, obs):
        if not obs.get("found"):
            return ["not-driven"]
        return [f"args{len(obs['args'])}", "input-deep" if obs["input"][2] else "input-shallow"]

    def shrink_candidates(self, case):
        return []


# ---- Mode.LAX --------------------------------------------------------------------------------
LAX_WITNESS = {"data": {}, "stmts": [["text", "a"], ["out", [["path", "m", []], [["append", [["lit", "x"]]]]]], ["text", "b"]]}


class LaxStream(Stream):
    """Top-level text / output / assign nodes under Mode.LAX and each undefined type, against `renderLax`.
    The refinement is *not* claimed there (Props.C16.lax_refinement_counterexample is the first case); the oracle is
    what does hold: when the strict-mode render succeeds, the lax render gives the same output."""

    name = "lax"
    parallel = True

    def cases(self, ctx):
        rng = ctx.rng_for("lax")
        out = [dict(LAX_WITNESS, kind=k) for k in KINDS]
        for i in range(ctx.scale(300, 3000)):
            r = rng.fork(str(i))
            full = gen_model_data(r)
            g = ModelGen(r, full)
            stmts = []
            for _ in range(r.range(2, 6)):
                k = r.below(10)
                stmts.append(["text", r.choice(TEXTS)] if k < 2 else (["assign", r.choice(["q", "a", "zz"]), g.fexpr()] if k < 4 else ["out", g.fexpr()]))
            data = delete_paths(r, full)
            for k in KINDS:
                out.append({"kind": k, "data": data, "stmts": stmts})
        return out

    def impl(self, case):
        from liquid import Environment, Mode

        src = "".join(stmt_src(s) for s in case["stmts"])

        def lax():
            env = Environment(undefined=undefined_class(case["kind"]), tolerance=Mode.LAX)
            return env.from_string(src).render(**copy.deepcopy(case["data"]))

        return {"lax": coarse(outcome(lax)), "strict_mode": render_kind(src, case["data"], case["kind"]), "src": src}

    def line(self, case):
        return ["c16renderlax", case["kind"], data_json(case["data"]), case["stmts"]]

    def compare_view(self, case, obs):
        return obs["lax"]

    def oracle(self, case, obs):
        if "ok" not in obs["lax"]:
            return (f"lax|{case['kind']}|raises", f"Mode.LAX render raised: {obs['lax']}")
        if "ok" in obs["strict_mode"] and obs["strict_mode"] != obs["lax"]:
            return (f"lax|{case['kind']}|differs-from-strict-mode-success", f"strict mode gives {obs['strict_mode']}, lax mode {obs['lax']}")
        return None

    def nontrivial(self, case, obs):
        return "err" in obs["strict_mode"]

    def tags(self, case, obs):
        return [case["kind"] + ":" + ("dropped-a-node" if "err" in obs["strict_mode"] else "no-error")]

    def shrink_candidates(self, case):
        for i in range(len(case["stmts"])):
            d = dict(case)
            d["stmts"] = case["stmts"][:i] + case["stmts"][i + 1 :]
            yield d


def streams(ctx):
    return [PokeStream(), ModelStream(), RefineStream(), ConstructStream(), EngineStream(), FilterArgStream(), ShapeStream(), LaxStream()]
