"""C26 — null translations leave message text intact
(liquid/extra/filters/translate.py, liquid/extra/tags/translate_tag.py)."""
from __future__ import annotations

import itertools

from ..core import Stream

ID = "C26"
LEAN_MODULE = "LiquidVerif.Props.C26"
TRANSLATE = False
RULE = (
    "stream prim: Python's own `fmt % dict` against Model/PyFormat on every format string of <=N pieces over the "
    "alphabet {%, %%, %s, %(x)s, %(y)s, %(, (, ), s, d, c, 5, ., -, *, l, space, <b>, k} (exhaustive) plus random longer ones; "
    "stream filters: messages over the same alphabet through the real filters t / gettext / ngettext / pgettext / "
    "npgettext in a rendered template (message as a variable and as a literal), every combination of context / "
    "plural / count in {absent, None, True, False, 0, 1, 2, -1, 7, '2', ' 1 ', 'abc', '', 1.5, 0.5, 2.0} and message "
    "variables given as filter keyword arguments, as render globals or missing; stream tag: translate blocks built "
    "from content pieces (same alphabet plus newlines / blank runs) and {{ var }} pieces, with and without "
    "{% plural %}, count, context, with trim_messages on and off. Non-trivial: the message contains a percent sign "
    "that is not part of a %(name)s placeholder, or a placeholder, or a plural with a count other than 1 "
    "(prim: the format contains a specifier other than %%)."
)
TRUSTED_BASE = [
    "Lean 4.33 kernel; axioms subset of {propext, Classical.choice, Quot.sound}",
    "hand-written models LiquidVerif/Model/PyFormat.lean (CPython `str % dict`) and Model/Translate.lean (the two regular expressions "
    "of the filters, validate_message_block, whitespace trimming, _count / int_arg / resolve_count, NullTranslations)",
    "correspondence harness harness/props/c26.py + Driver/C26.lean (differential: every case runs through a rendered template on the real "
    "code and through the model; stream prim samples the CPython primitive itself)",
    "CPython semantics of `%`-formatting, `re` (\\w, \\s, lookahead), `int()`, `str.strip` — modelled as Lean definitions, sampled by the streams",
    "the harness resolves message variables (filter keyword arguments shadow render globals; missing -> '') before calling the model",
]
ASSUMPTIONS = [
    "'collapses whitespace runs' is read as the tag's documented trim_messages behaviour: the message is stripped and every whitespace run "
    "that contains a newline becomes one space; blank runs inside a line are kept (that is what the code does and what is checked)",
    "the count that null translations see is the Python int() of the count argument (1.5 -> 1, '2' -> 2); an unconvertible count counts as "
    "no count (filter t) or as 1 (ngettext, npgettext, tag), as the code documents",
    "\\w is modelled as ASCII [A-Za-z0-9_] and \\s as the ASCII/Latin-1 whitespace set; the theorems hold for every \\w that excludes % ( ) ; "
    "generators stay ASCII",
    "the tag's placeholder name class (\\w before, [^()%] after fix c47e079) is read from TranslateNode.re_vars of the code under test and passed to the model, whose theorems hold for every class excluding % ( )",
    "autoescape is off in the model streams; an oracle-only stream checks the autoescape variant (message and values HTML-escaped)",
    "conversions %r / %a of CPython formatting are not modelled (they never occur after the fix: every stray % is escaped first)",
]
MANIFEST = {
    "technique": "Lean 4 proof (well-founded induction over the message text: escaping + CPython %-formatting = placeholder substitution) "
    "+ differential correspondence through rendered templates and against CPython's % operator",
    "text": "Theorems format_is_substitution, tag_format_is_expansion_partial, tag_format_trimmed_partial (trimming commutes with the %/placeholder encoding), plural_choice_* and the end-to-end t/ngettext/tag corollaries hold for "
    "every message text, every variable assignment and every \\w class that excludes %, ( and ); the model is tied to translate.py / "
    "translate_tag.py by exhaustive small-message and random differential runs through the five filters and the tag, and the "
    "CPython %-formatting model by a differential run against the real operator.",
    "note": "Trusted: Lean kernel, the hand models of CPython %-formatting / re / int(), the correspondence harness. Catalogue-backed translations are out of scope "
    "(the property is about null translations).",
}

WORDCH = "abcdefghijklmnopqrstuvwxyzABCDEFGHIJKLMNOPQRSTUVWXYZ0123456789_"

# ------------------------------------------------------------------------------------------------------
# the property, stated directly (independent of the implementation's regular expressions and of Lean)


def spec_substitute(text: str, val) -> str:
    """Every %(name)s replaced by val(name); every other character untouched."""
    out = []
    i, n = 0, len(text)
    while i < n:
        if text[i] == "%" and i + 1 < n and text[i + 1] == "(":
            j = i + 2
            while j < n and text[j] in WORDCH:
                j += 1
            if j > i + 2 and text[j : j + 2] == ")s":
                out.append(val(text[i + 2 : j]))
                i = j + 2
                continue
        out.append(text[i])
        i += 1
    return "".join(out)


WS = " \t\n\r\x0b\x0c"


def spec_trim(atoms: list) -> list:
    """Atoms are characters or ('v', name). Strip; every whitespace run containing a newline -> one space."""
    def is_ws(a):
        return isinstance(a, str) and a in WS

    while atoms and is_ws(atoms[0]):
        atoms = atoms[1:]
    while atoms and is_ws(atoms[-1]):
        atoms = atoms[:-1]
    out, i = [], 0
    while i < len(atoms):
        if is_ws(atoms[i]):
            j = i
            while j < len(atoms) and is_ws(atoms[j]):
                j += 1
            run = atoms[i:j]
            out += [" "] if "\n" in run else run
            i = j
        else:
            out.append(atoms[i])
            i += 1
    return out


def spec_py_int(c):
    """The int a count stands for, or None when it is not a usable count."""
    kind = c[0]
    if kind in ("none",):
        return None
    if kind == "bool":
        return int(c[1])
    if kind == "int":
        return int(c[1])
    if kind == "float":
        num, den = int(c[1]), int(c[2])
        q = abs(num) // den  # int() truncates toward zero
        return q if num >= 0 else -q
    if kind == "str":
        s = c[1].strip()
        body = s[1:] if s[:1] in "+-" else s
        if body and all(ch in "0123456789" for ch in body):
            return int(s)
        return None
    raise ValueError(c)


def count_to_py(c):
    if c is None:
        return None
    kind = c[0]
    if kind == "none":
        return None
    if kind == "bool":
        return bool(c[1])
    if kind == "int":
        return int(c[1])
    if kind == "float":
        return int(c[1]) / int(c[2])
    return c[1]


COUNTS = [
    None,
    ["none"],
    ["bool", True],
    ["bool", False],
    ["int", "0"],
    ["int", "1"],
    ["int", "2"],
    ["int", "-1"],
    ["int", "7"],
    ["str", "2"],
    ["str", " 1 "],
    ["str", "abc"],
    ["str", ""],
    ["str", "-0"],
    ["float", "3", "2"],
    ["float", "1", "2"],
    ["float", "2", "1"],
    ["int", "100000000000000000000"],
]

PIECES = ["%", "%%", "%s", "%(x)s", "%(y)s", "%(", "(", ")", "s", "d", "c", "5", ".", "-", "*", "l", " ", "<b>", "k"]
MORE_PIECES = ["%(name)s", "%(x)", "%(x)d", "%()s", "%(x y)s", "%((x))s", ")s", "&", "100", "%(x)5s", "%-5s", "% ", "x", "%(_a1)s", "'", '"']


def stray_kind(text: str) -> str:
    """Classify the first % that is not the start of a %(name)s placeholder (for signatures and tags)."""
    i, n = 0, len(text)
    while i < n:
        if text[i] == "%":
            j = i + 2
            if i + 1 < n and text[i + 1] == "(":
                while j < n and text[j] in WORDCH:
                    j += 1
                if j > i + 2 and text[j : j + 2] == ")s":
                    i = j + 2
                    continue
            nxt = text[i + 1 : i + 2]
            if nxt == "":
                return "%-at-end"
            if nxt == "%":
                return "%%"
            if nxt == "s":
                return "%s"
            if nxt == "(":
                return "%(-not-placeholder"
            return "%-other"
        i += 1
    return "no-stray"


def has_placeholder(text: str) -> bool:
    return spec_substitute(text, lambda k: "\x00") != text


def canon_exc(e: BaseException) -> str:
    n = type(e).__name__
    return {"LiquidTypeError": "TypeError", "LiquidValueError": "ValueError", "FilterArgumentError": "TypeError"}.get(n, n)


_ENVS: dict = {}


def get_env(trim: bool = True, autoescape: bool = False):
    key = (trim, autoescape)
    if key not in _ENVS:
        from liquid import Environment
        from liquid.extra import add_tags_and_filters
        from liquid.extra.tags.translate_tag import TranslateTag

        env = Environment(autoescape=autoescape)
        add_tags_and_filters(env)
        if not trim:
            class NoTrimTranslateTag(TranslateTag):
                trim_messages = False

            env.add_tag(NoTrimTranslateTag)
        _ENVS[key] = env
    return _ENVS[key]


def render(src: str, data: dict, trim: bool = True, autoescape: bool = False):
    try:
        return {"ok": get_env(trim, autoescape).from_string(src).render(**data)}
    except BaseException as e:  # noqa: BLE001
        if isinstance(e, (KeyboardInterrupt, SystemExit)):
            raise
        return {"err": canon_exc(e)}


# ------------------------------------------------------------------------------------------------------
class PrimStream(Stream):
    """CPython `fmt % dict` vs Model/PyFormat (the primitive the filters and the tag rest on)."""

    name = "prim"
    exhaustive = False
    parallel = False

    def cases(self, ctx):
        out = []
        n = ctx.scale(3, 4)
        d = {"x": "XY", "c": "Z"}
        for k in range(0, n + 1):
            for combo in itertools.product(PIECES, repeat=k):
                out.append({"fmt": "".join(combo), "d": d})
        rng = ctx.rng_for("prim")
        allp = PIECES + MORE_PIECES
        for _ in range(ctx.scale(3000, 30000)):
            k = rng.range(4, 12)
            dd = {}
            for name in ("x", "y", "name", "c", "_a1"):
                if rng.range(0, 2) > 0:
                    dd[name] = rng.choice(["", "Z", "XY", "v%sv", "%(x)s", "<i>", "long value"])
            out.append({"fmt": "".join(rng.choice(allp) for _ in range(k)), "d": dd})
        # de-duplicate, keep order
        seen, res = set(), []
        for c in out:
            key = (c["fmt"], tuple(sorted(c["d"].items())))
            if key not in seen:
                seen.add(key)
                res.append(c)
        return res

    def impl(self, case):
        try:
            return {"ok": case["fmt"] % dict(case["d"])}
        except (ValueError, TypeError, KeyError) as e:
            return {"err": type(e).__name__}

    def line(self, case):
        d = dict(case["d"])
        return ["pyfmt", case["fmt"], [[k, v] for k, v in d.items()], str(d)]

    def oracle(self, case, obs):
        return None  # a primitive: there is no property to state, only the model to validate

    def nontrivial(self, case, obs):
        return "%" in case["fmt"].replace("%%", "")

    def tags(self, case, obs):
        return ["ok" if "ok" in obs else obs["err"]]


# ------------------------------------------------------------------------------------------------------
def filter_source(case) -> tuple:
    """Template source + render data for one filter case."""
    kind = case["kind"]
    data = dict(case["globals"])
    lit = case.get("literal", False)

    def operand(name, value):
        if lit and isinstance(value, str) and "'" not in value and "\n" not in value:
            return "'" + value + "'"
        data[name] = value
        return name

    left = operand("m", case["left"])
    args = []
    if kind == "t":
        if case["ctx"] is not None:
            args.append(operand("cx", case["ctx"]))
        if case["plural"] is not None:
            args.append("plural: " + operand("p", case["plural"]))
        if case["count"] is not None:
            data["c0"] = count_to_py(case["count"])
            args.append("count: c0")
    elif kind == "gettext":
        pass
    elif kind == "pgettext":
        args.append(operand("cx", case["ctx"]))
    elif kind == "ngettext":
        data["c0"] = count_to_py(case["count"])
        args += [operand("p", case["plural"]), "c0"]
    elif kind == "npgettext":
        data["c0"] = count_to_py(case["count"])
        args += [operand("cx", case["ctx"]), operand("p", case["plural"]), "c0"]
    for i, (k, v) in enumerate(case["kwargs"]):
        data[f"kw{i}"] = v
        args.append(f"{k}: kw{i}")
    src = "{{ " + left + " | " + kind + (": " + ", ".join(args) if args else "") + " }}"
    return src, data


def resolved_vars(case) -> dict:
    vals = dict(case["globals"])
    for k, v in case["kwargs"]:
        vals[k] = v
    return vals


def stringify(v) -> str:
    if v is None:
        return ""
    if isinstance(v, bool):
        return str(v).lower()
    return str(v)


def expected_choice(kind, left, plural, count):
    """(message chosen with null translations, feature tag)"""
    if kind in ("gettext", "pgettext"):
        return left
    if kind == "t":
        if plural is None or count is None:
            return left
        n = None if count[0] in ("none", "bool") else spec_py_int(count)
        if n is None:
            return left
        return left if n == 1 else plural
    # ngettext / npgettext / tag: unconvertible -> 1
    if plural is None:
        return left
    n = 1 if count is None else spec_py_int(count)
    if n is None:
        n = 1
    return left if n == 1 else plural


class FilterStream(Stream):
    name = "filters"
    exhaustive = False
    parallel = False  # cases are cheap; a fork pool costs more than it saves on a loaded machine

    def cases(self, ctx):
        rng = ctx.rng_for("filters")
        out = []
        values = ["V", "", "<i>", "50%", "%(x)s", "%s", "two words"]

        def mk(kind, left, plural=None, ctx_=None, count=None, kwargs=(), globals_=None, literal=False):
            return {
                "kind": kind,
                "left": left,
                "plural": plural,
                "ctx": ctx_,
                "count": count,
                "kwargs": [list(p) for p in kwargs],
                "globals": dict(globals_ or {}),
                "literal": literal,
            }

        # (1) exhaustive small messages through every filter, x given as keyword argument, y as global, name missing
        n = ctx.scale(2, 3)
        msgs = ["".join(c) for k in range(0, n + 1) for c in itertools.product(PIECES, repeat=k)]
        for i, m in enumerate(msgs):
            lit = i % 3 == 0
            out.append(mk("t", m, kwargs=[("x", "V")], globals_={"y": "G"}, literal=lit))
            out.append(mk("gettext", m, kwargs=[("x", "V")], globals_={"y": "G"}, literal=lit))
            out.append(mk("pgettext", m, ctx_="menu", kwargs=[("x", "V")], globals_={"y": "G"}, literal=lit))
            out.append(mk("ngettext", "one", plural=m, count=["int", "2"], kwargs=[("x", "V")], globals_={"y": "G"}, literal=lit))
            out.append(mk("npgettext", m, plural="many", ctx_="menu", count=["int", "1"], kwargs=[("x", "V")], globals_={"y": "G"}, literal=lit))
            out.append(mk("t", "one %(x)s", plural=m, ctx_="menu" if i % 2 else None, count=["int", "0"], globals_={"x": "G"}, literal=lit))
        # (2) every count through every plural-capable path, with and without plural / context
        for c in COUNTS:
            for plural in (None, "many %(n)s%"):
                for cx in (None, "menu"):
                    out.append(mk("t", "one %(n)s%", plural=plural, ctx_=cx, count=c, globals_={"n": "G"}))
            if c is not None:
                out.append(mk("ngettext", "one %", plural="many %%", count=c))
                out.append(mk("npgettext", "one %", plural="many %%", ctx_="menu", count=c))
        # (3) random longer messages
        allp = PIECES + MORE_PIECES
        for _ in range(ctx.scale(5000, 25000)):
            k = rng.range(1, 10)
            m = "".join(rng.choice(allp) for _ in range(k))
            p = "".join(rng.choice(allp) for _ in range(rng.range(1, 8)))
            kind = rng.choice(["t", "t", "gettext", "ngettext", "pgettext", "npgettext"])
            kwargs, globs = [], {}
            for name in ("x", "y", "name", "_a1"):
                r = rng.range(0, 3)
                if r == 1:
                    kwargs.append((name, rng.choice(values)))
                elif r == 2:
                    globs[name] = rng.choice(values)
                elif rng.range(0, 4) == 0:
                    kwargs.append((name, rng.choice(values)))
                    globs[name] = "shadowed"
            count = rng.choice(COUNTS)
            plural = p if (kind in ("ngettext", "npgettext") or rng.range(0, 2)) else None
            cx = "menu" if (kind in ("pgettext", "npgettext") or rng.range(0, 3) == 0) else None
            if kind in ("ngettext", "npgettext") and count is None:
                count = ["int", str(rng.range(0, 3))]
            if kind in ("gettext", "pgettext"):
                plural, count = None, None
            if kind == "gettext":
                cx = None
            out.append(mk(kind, m, plural=plural, ctx_=cx, count=count, kwargs=kwargs, globals_=globs, literal=rng.range(0, 3) == 0))
        return out

    def impl(self, case):
        src, data = filter_source(case)
        return render(src, data)

    def line(self, case):
        pairs = [[k, stringify(v)] for k, v in self._vals(case).items()]
        return ["c26_filter", case["kind"], case["left"], case["ctx"], case["plural"], case["count"], pairs]

    def _vals(self, case):
        vals = resolved_vars(case)
        if case["kind"] == "t" and case["count"] is not None:
            vals["count"] = count_to_py(case["count"])
        return vals

    def oracle(self, case, obs):
        kind = case["kind"]
        count = case["count"]
        # counts that Python's int() rejects with TypeError are argument errors, outside the property
        if count is not None and count[0] == "none" and kind != "t":
            return None
        vals = self._vals(case)
        chosen = expected_choice(kind, case["left"], case["plural"], count)
        want = spec_substitute(chosen, lambda k: stringify(vals.get(k)))
        if "err" in obs:
            return (f"{kind}|{stray_kind(chosen)}|raises-{obs['err']}", f"message {chosen!r} raised {obs['err']}; expected output {want!r}")
        if obs["ok"] == want:
            return None
        # which part failed: the plural choice or the text?
        other = case["plural"] if chosen == case["left"] else case["left"]
        if other is not None and other != chosen and obs["ok"] == spec_substitute(other, lambda k: stringify(vals.get(k))):
            n = spec_py_int(count) if count is not None and count[0] != "none" else None
            got = "plural" if other == case["plural"] else "singular"
            return (f"{kind}|count={n}|{got}", f"count {count} chose the {got} form {other!r}; null translations choose {chosen!r}")
        return (f"{kind}|{stray_kind(chosen)}|altered", f"message {chosen!r} rendered as {obs['ok']!r}; expected {want!r}")

    def nontrivial(self, case, obs):
        texts = [case["left"]] + ([case["plural"]] if case["plural"] is not None else [])
        if any(stray_kind(t) != "no-stray" or has_placeholder(t) for t in texts):
            return True
        return case["plural"] is not None and case["count"] is not None and case["count"] != ["int", "1"]

    def tags(self, case, obs):
        t = [case["kind"], "stray:" + stray_kind(case["left"])]
        if case["count"] is not None:
            t.append("count:" + case["count"][0])
        if case["plural"] is not None:
            t.append("plural")
        if case["ctx"] is not None:
            t.append("context")
        t.append("ok" if "ok" in obs else "err:" + obs["err"])
        return t

    def shrink_candidates(self, case):
        for k in ("left", "plural"):
            v = case.get(k)
            if isinstance(v, str) and v:
                for cand in (v[: len(v) // 2], v[1:], v[:-1]):
                    d = dict(case)
                    d[k] = cand
                    yield d
        if case["kwargs"]:
            d = dict(case)
            d["kwargs"] = case["kwargs"][1:]
            yield d
        if case["globals"]:
            d = dict(case)
            d["globals"] = {}
            yield d
        if case.get("literal"):
            d = dict(case)
            d["literal"] = False
            yield d


# ------------------------------------------------------------------------------------------------------
CONTENT = ["%", "%%", "%s", "%(x)s", "%(", "(", ")", "s", ")s", " ", "  ", "\n", " \n  ", "\t", "<b>", "k", "100", "d", "&"]
VARS = ["x", "y", "count", "s"] * 6 + ["a-b", "a-b", "a)b"]


def tag_source(case) -> tuple:
    data = dict(case["globals"])
    args = []
    if case["count"] is not None:
        data["c0"] = count_to_py(case["count"])
        args.append("count: c0")
    if case.get("ctx") is not None:
        data["cx"] = case["ctx"]
        args.append("context: cx")
    for i, (k, v) in enumerate(case["kwargs"]):
        data[f"kw{i}"] = v
        args.append(f"{k}: kw{i}")

    def var_src(name):
        # a name that is not an identifier is reached by bracket notation
        return name if all(ch in WORDCH + "-" for ch in name) else "['" + name + "']"

    def block(ps):
        return "".join(p[1] if p[0] == "c" else "{{ " + var_src(p[1]) + " }}" for p in ps)

    src = "{% translate" + (" " + ", ".join(args) if args else "") + " %}" + block(case["singular"])
    if case["plural"] is not None:
        src += "{% plural %}" + block(case["plural"])
    src += "{% endtranslate %}"
    return src, data


def norm_pieces(ps):
    """Merge adjacent content pieces (the lexer produces one ContentNode per text run); drop empty ones."""
    out = []
    for p in ps:
        if p[0] == "c":
            if not p[1]:
                continue
            if out and out[-1][0] == "c":
                out[-1] = ["c", out[-1][1] + p[1]]
                continue
        out.append(list(p))
    return out


def tag_name_class() -> str:
    """Which characters a tag placeholder name may have, read from the code under test: `\\w` ("word") or `[^()%]` ("noparen")."""
    from liquid.extra.tags.translate_tag import TranslateNode

    return "word" if "\\w" in TranslateNode.re_vars.pattern else "noparen"


class TagStream(Stream):
    name = "tag"
    exhaustive = False
    parallel = False  # cases are cheap; a fork pool costs more than it saves on a loaded machine

    def cases(self, ctx):
        rng = ctx.rng_for("tag")
        out = []

        def mk(singular, plural=None, count=None, ctx_=None, kwargs=(), globals_=None, trim=True):
            return {
                "singular": norm_pieces(singular),
                "plural": None if plural is None else norm_pieces(plural),
                "count": count,
                "ctx": ctx_,
                "kwargs": [list(p) for p in kwargs],
                "globals": dict(globals_ or {}),
                "trim": trim,
            }

        # (1) exhaustive: content piece / var / content piece
        small = ["%", "%%", "%(x)s", "(", ")s", " ", "\n", "k"]
        for a in CONTENT:
            for b in [None, "x", "y"]:
                for c in small:
                    ps = [["c", a]] + ([["v", b]] if b else []) + [["c", c]]
                    out.append(mk(ps, kwargs=[("x", "V")], globals_={"y": "G"}, trim=True))
                    out.append(mk([["c", "k"]] + ps + [["c", "k"]], kwargs=[("x", "V%s")], globals_={"y": "%(x)s"}, trim=False))
        # (2) every count, with and without plural / context
        for c in COUNTS:
            for plural in (None, [["c", "many "], ["v", "count"], ["c", "%"]]):
                for cx in (None, "menu"):
                    out.append(mk([["c", "one "], ["v", "count"], ["c", "%"]], plural=plural, count=c, ctx_=cx))
        # (3) random blocks
        for _ in range(ctx.scale(5000, 25000)):
            def block():
                ps = []
                for _ in range(rng.range(1, 7)):
                    if rng.range(0, 3) == 0:
                        ps.append(["v", rng.choice(VARS)])
                    else:
                        ps.append(["c", rng.choice(CONTENT)])
                if not any(p[0] == "c" and p[1].strip() for p in ps) and not any(p[0] == "v" for p in ps):
                    ps.append(["c", "k"])
                return ps

            kwargs, globs = [], {}
            for name in ("x", "y", "s", "a-b"):
                r = rng.range(0, 3)
                if r == 1 and name != "a-b":
                    kwargs.append((name, rng.choice(["V", "", "<i>", "50%", "%(x)s", "%s"])))
                elif r == 2:
                    globs[name] = rng.choice(["G", "%", "a  b"])
            count = rng.choice(COUNTS)
            out.append(
                mk(
                    block(),
                    plural=block() if rng.range(0, 2) else None,
                    count=count,
                    ctx_="menu" if rng.range(0, 3) == 0 else None,
                    kwargs=kwargs,
                    globals_=globs,
                    trim=rng.range(0, 4) != 0,
                )
            )
        return out

    def impl(self, case):
        src, data = tag_source(case)
        return render(src, data, trim=case["trim"])

    def _vals(self, case):
        vals = dict(case["globals"])
        if case["count"] is not None:
            vals["count"] = count_to_py(case["count"])
        for k, v in case["kwargs"]:
            vals[k] = v
        return vals

    def line(self, case):
        pairs = [[k, stringify(v)] for k, v in self._vals(case).items()]
        return ["c26_tag", case["singular"], case["plural"], case["count"], case["trim"], pairs, tag_name_class()]

    def oracle(self, case, obs):
        vals = self._vals(case)
        sing, plur = case["singular"], case["plural"]
        n = 1 if case["count"] is None else spec_py_int(case["count"])
        if n is None:
            n = 1
        chosen = sing if (plur is None or n == 1) else plur

        def expand(ps):
            atoms = []
            for p in ps:
                atoms += list(p[1]) if p[0] == "c" else [("v", p[1])]
            if case["trim"]:
                atoms = spec_trim(atoms)
            return "".join(a if isinstance(a, str) else stringify(vals.get(a[1])) for a in atoms)

        want = expand(chosen)
        text = "".join(p[1] if p[0] == "c" else "{{" + p[1] + "}}" for p in chosen)
        feature = "var-paren-percent" if any(p[0] == "v" and any(ch in "()%" for ch in p[1]) for p in chosen) else "var-not-word" if any(p[0] == "v" and any(ch not in WORDCH for ch in p[1]) for p in chosen) else "%-before-var" if any(a[0] == "c" and a[1].endswith("%") and b[0] == "v" for a, b in zip(chosen, chosen[1:])) else ("%" if "%" in text else "plain")
        if "err" in obs:
            return (f"tag|{feature}|raises-{obs['err']}", f"block {text!r} raised {obs['err']}; expected {want!r}")
        if obs["ok"] == want:
            return None
        other = plur if chosen is sing else sing
        if other is not None and obs["ok"] == expand(other) and expand(other) != want:
            got = "plural" if other is plur else "singular"
            return (f"tag|count={n}|{got}", f"count {case['count']} chose the {got} form; null translations choose the other one ({want!r})")
        return (f"tag|{feature}|altered", f"block {text!r} rendered as {obs['ok']!r}; expected {want!r}")

    def nontrivial(self, case, obs):
        blocks = [case["singular"]] + ([case["plural"]] if case["plural"] is not None else [])
        if any(("%" in p[1] and p[0] == "c") or p[0] == "v" for b in blocks for p in b):
            return True
        return case["plural"] is not None and case["count"] not in (None, ["int", "1"])

    def tags(self, case, obs):
        t = ["trim" if case["trim"] else "notrim"]
        if case["plural"] is not None:
            t.append("plural")
        if case["count"] is not None:
            t.append("count:" + case["count"][0])
        if any(p[0] == "c" and "%" in p[1] for p in case["singular"]):
            t.append("percent")
        if any(p[0] == "c" and "\n" in p[1] for p in case["singular"]):
            t.append("newline")
        t.append("ok" if "ok" in obs else "err:" + obs["err"])
        return t

    def shrink_candidates(self, case):
        for key in ("singular", "plural"):
            ps = case.get(key)
            if not ps:
                continue
            for i in range(len(ps)):
                if len(ps) > 1:
                    d = dict(case)
                    d[key] = norm_pieces(ps[:i] + ps[i + 1 :])
                    yield d
                if ps[i][0] == "c" and len(ps[i][1]) > 1:
                    for cand in (ps[i][1][1:], ps[i][1][:-1]):
                        d = dict(case)
                        d[key] = norm_pieces(ps[:i] + [["c", cand]] + ps[i + 1 :])
                        yield d
        if case["plural"] is not None:
            d = dict(case)
            d["plural"] = None
            yield d
        if case["kwargs"]:
            d = dict(case)
            d["kwargs"] = case["kwargs"][1:]
            yield d
        if case["globals"]:
            d = dict(case)
            d["globals"] = {}
            yield d


# ------------------------------------------------------------------------------------------------------
class AutoescapeStream(Stream):
    """Oracle only: with autoescape on, the output is the HTML-escaped message with escaped values."""

    name = "autoescape"
    has_model = False
    parallel = False

    def cases(self, ctx):
        rng = ctx.rng_for("autoescape")
        out = []
        allp = PIECES + ["&", "%(name)s", "100", ")s"]
        for _ in range(ctx.scale(1500, 6000)):
            m = "".join(rng.choice(allp) for _ in range(rng.range(1, 8)))
            out.append({"kind": rng.choice(["t", "gettext", "tag"]), "left": m, "x": rng.choice(["V", "<i>", "a&b", "%s"]), "literal": rng.range(0, 2) == 0})
        return out

    def impl(self, case):
        if case["kind"] == "tag":
            return render("{% translate x: vx %}" + case["left"].replace("{", "") + "{{ x }}{% endtranslate %}", {"vx": case["x"]}, autoescape=True)
        if case["literal"] and "'" not in case["left"]:
            return render("{{ '" + case["left"] + "' | " + case["kind"] + ": x: vx }}", {"vx": case["x"]}, autoescape=True)
        return render("{{ m | " + case["kind"] + ": x: vx }}", {"m": case["left"], "vx": case["x"]}, autoescape=True)

    def oracle(self, case, obs):
        from markupsafe import escape

        val = lambda k: str(escape(case["x"])) if k == "x" else ""  # noqa: E731
        if case["kind"] == "tag":
            # template text is trusted markup; only the value is escaped
            atoms = spec_trim(list(case["left"].replace("{", "")) + [("v", "x")])
            want = "".join(a if isinstance(a, str) else val(a[1]) for a in atoms)
        else:
            # a string literal in a template is trusted markup; a message from render data is escaped like any output
            is_literal = case["literal"] and "'" not in case["left"]
            want = spec_substitute(case["left"] if is_literal else str(escape(case["left"])), val)
        if "err" in obs:
            return (f"autoescape:{case['kind']}|{stray_kind(case['left'])}|raises-{obs['err']}", f"{case['left']!r} raised {obs['err']}")
        if obs["ok"] != want:
            return (f"autoescape:{case['kind']}|{stray_kind(case['left'])}|altered", f"{case['left']!r} rendered as {obs['ok']!r}; expected {want!r}")
        return None

    def nontrivial(self, case, obs):
        return stray_kind(case["left"]) != "no-stray" or any(ch in case["left"] + case["x"] for ch in "<&")

    def tags(self, case, obs):
        return [case["kind"], "stray:" + stray_kind(case["left"])]


def streams(ctx):
    return [PrimStream(), FilterStream(), TagStream(), AutoescapeStream()]
