"""C15 — rendered partials and macros are isolated from their caller (render_tag.py, macro_tag.py, RenderContext.copy)."""
from __future__ import annotations

import itertools

from ..core import Stream
from ..gen import scopegen, scopeprog, scoperef

ID = "C15"
LEAN_MODULE = "LiquidVerif.Props.C15"
TRANSLATE = False
RULE = (
    "stream iso (random): a partial template / macro body (random statements reading, assigning, capturing, "
    "incrementing and looping over names a,b,c) and its arguments (literals or global-only names g1,g2; keyword names "
    "drawn from a,b,c so that they collide with caller locals) are fixed; two different callers bind a,b,c through "
    "assign / capture / increment and wrap the tag in for / with / if / capture blocks; kinds render, render-with, "
    "render-for, call (positional, keyword and default arguments). Observed: caller A, caller B, caller A without the "
    "tag. Checked: the text between the markers is the same for A and B; everything A prints outside the markers is "
    "what it prints without the tag. "
    "stream disabled (exhaustive): an include tag reached from a render tag or a macro call through every chain of "
    "<= 2 wrappers (none/if/for/with/capture/nested render/call) must raise DisabledTagError, and the same chain "
    "without render/call must not. stream disabled_block: the same through a {% block %} of a partial that extends "
    "a base template (not in the model). Non-trivial: iso - both callers bind at least one of the partial's names "
    "differently and the partial reads or assigns one of them; disabled - always."
)
TRUSTED_BASE = [
    "Lean 4.33 kernel; axioms subset of {propext, Classical.choice, Quot.sound}",
    "hand-written model LiquidVerif/Model/Scope.lean (RenderContext.copy, render tag, macro/call, include's disabled-tag test), STRICT mode",
    "correspondence harness harness/props/c15.py + harness/gen/scope*.py + Driver/C14.lean (metamorphic oracle on the real engine, differential against the model)",
    "the Liquid parser maps the printed source back to the AST the generator printed (sampled by every case)",
]
ASSUMPTIONS = [
    "keyword arguments, the bound variable and macro default values are evaluated at the call site (in the caller's scope): they are the explicit arguments the property lets through",
    "global data = the caller context's globals: render arguments, front matter, template and environment globals of the *top-level* template, plus the namespaces of enclosing render/call tags",
    "inline snippets, block.super, required blocks, LAX/WARN modes and filters are outside this model (extends / block / tablerow are in it since the deepening round; disabled_block and 4 iso_corners cases that need the split filter run on the engine only)",
]
MANIFEST = {
    "technique": "Lean 4 proof (non-interference of the render / call tags in the caller's state, frame conditions, disabled include) + metamorphic and differential correspondence",
    "text": "Theorems render_isolated (over _isolated_globals), render_isolated_in_block, render_isolated_in_block_locals, call_isolated_in_block, bound_variable_arrives, bound_item_arrives, render_isolated_names, render_isolated_locals, partial_sees_only_args_and_globals, render_no_leak, copied_disables_include, include_disabled, block_with_include_fails, call_isolated, call_no_leak hold for all caller states, partial bodies, arguments and nesting; the model is tied to the code by random caller-pair programs and an exhaustive disabled-include stream.",
    "note": "Trusted: Lean kernel, the hand model of RenderContext.copy / render / call (STRICT mode), the harness. Arguments and defaults are evaluated in the caller's scope by design.",
}

NAMES = ["a", "b", "c"]
BODY_KINDS = {"read", "assign", "capture", "incr", "decr", "for", "with", "if", "text", "render", "call", "macro"}


def gen_iso(rng):
    g = scopegen.G(rng, names=NAMES, allow=BODY_KINDS, max_depth=3)
    kind = rng.choice(["render", "render", "render-with", "render-for", "call", "call"])
    inner = g.block(1, [], 1, 3) + [["out", ["path", ["n", "g1"], []]], ["text", ";"]]
    body = g.block(0, ["q"], 2, 6)
    for n in rng.sample(NAMES, 2):
        body += [["out", ["path", ["n", n], []]], ["text", ";"]]
    if rng.chance(5):
        body.insert(rng.below(len(body) + 1), ["include", "q", None, []])
    # arguments: literals or global-only names; keyword names collide with the caller's locals on purpose
    def argval():
        return ["lit", g.leaf()] if rng.chance(60) else ["path", ["n", rng.choice(["g1", "g2"])], []]

    kws = [[n, argval()] for n in rng.sample(NAMES, rng.range(0, 2))]
    partials = {"q": inner}
    pre_def = []
    if kind == "call":
        params = [[p, argval() if rng.chance(40) else None] for p in rng.sample(NAMES + ["args"], rng.range(0, 2))]
        pre_def = [["macro", "m", params, body]]
        tag = ["call", "m", [argval() for _ in range(rng.range(0, 2))], kws]
    else:
        partials["p0"] = body
        bind = None
        if kind == "render-with":
            bind = [False, ["path", ["n", rng.choice(["g1", "g2"])], []], rng.choice([None] + NAMES)]
        elif kind == "render-for":
            bind = [True, ["path", ["n", rng.choice(["g1", "g1", "g2"])], []], rng.choice([None] + NAMES)]
        tag = ["render", "p0", bind, kws]

    def caller(label):
        r = rng.fork("caller" + label)
        gc = scopegen.G(r, names=NAMES, allow={"read", "assign", "capture", "incr", "decr", "text"}, max_depth=1)
        gc.n = 100 if label == "A" else 200
        pre = []
        for _ in range(r.range(0, 4)):
            n = r.choice(NAMES)
            k = r.below(4)
            if k == 0:
                pre.append(["assign", n, ["lit", gc.leaf()]])
            elif k == 1:
                pre.append(["capture", n, [["text", gc.marker("k")]]])
            elif k == 2:
                pre += [["incr", n], ["text", ";"]]
            else:
                pre.append(["assign", n, ["path", ["n", "zz"], []]])
        core = [["text", "<<"], tag, ["text", ">>"]] + tail_reads()
        for _ in range(r.range(0, 3)):
            w = r.below(4)
            n = r.choice(NAMES)
            if w == 0:
                core = [["for", n, n + "-zz", ["path", ["n", "zz"], []], core, []]]
            elif w == 1:
                core = [["with", [[n, ["lit", gc.marker("w")]]], core]]
            elif w == 2:
                core = [["if", ["lit", True], core, []]]
            else:
                core = [["assign", n, ["lit", gc.marker("x")]]] + core
        return pre_def + pre + core + tail_reads()

    def tail_reads():
        t = []
        for n in NAMES:
            t += [["out", ["path", ["n", n], []]], ["text", ","]]
        return t

    a, b = caller("A"), caller("B")
    return {
        "kind": kind, "A": a, "B": b, "partials": partials,
        "args": {"g1": [g.leaf(), g.leaf()] if rng.chance(70) else g.leaf(), "zz": [gc_leaf(rng)]},
        "matter": {}, "tglobals": {"g2": g.data(1)} if rng.chance(50) else {}, "eglobals": {"g2": "e2"},
        "strict": False, "sseq": False, "sfl": False, "async": rng.chance(30),
    }


def gc_leaf(rng):
    return rng.choice(["z1", 7, True])


def strip_tag(nodes):
    """the caller without the render / call tag (markers kept)"""
    out = []
    for n in nodes:
        if n[0] in ("render", "call"):
            continue
        n = list(n)
        for sub in {"capture": [2], "if": [2, 3], "for": [4, 5], "with": [2]}.get(n[0], []):
            n[sub] = strip_tag(n[sub])
        out.append(n)
    return out


def segment(text):
    i, j = text.find("<<"), text.rfind(">>")
    if i < 0 or j < i:
        return None, text
    return text[i + 2:j], text[:i + 2] + text[j:]


def binds(nodes):
    s = set()
    for n in scopegen.walk(nodes):
        if n[0] in ("assign", "capture", "incr", "decr", "for"):
            s.add(n[1])
        if n[0] == "with":
            s |= {k for k, _ in n[1]}
    return s


class IsoStream(Stream):
    name = "iso"
    parallel = True

    def cases(self, ctx):
        rng = ctx.rng_for("iso")
        return [gen_iso(rng.fork(f"c{i}")) for i in range(ctx.scale(1500, 20000))]

    def mains(self, case):
        return [case["A"], case["B"], strip_tag(case["A"])]

    def impl(self, case):
        prog = dict(case, main=[])
        env = scopeprog.make_env(prog)
        a, b, a0 = (scopeprog.run_impl(prog, main=m, env=env) for m in self.mains(case))
        return {"A": a, "B": b, "A0": a0}

    def line(self, case):
        return scopeprog.model_line(dict(case, main=[]), mains=self.mains(case))

    def canon_model(self, case, mobs):
        if isinstance(mobs, list) and len(mobs) == 3:
            return {"A": mobs[0], "B": mobs[1], "A0": mobs[2]}
        return mobs

    def oracle(self, case, obs):
        a, b, a0 = obs["A"], obs["B"], obs["A0"]
        k = case["kind"]
        if "err" in a or "err" in b:
            if a != b:
                return (f"iso|{k}|outcome", f"callers differ only in locals but end differently: {a} vs {b}")
            return None
        sa, ra = segment(a["ok"])
        sb, _ = segment(b["ok"])
        if sa != sb:
            return (f"iso|{k}|leak-in", f"partial printed {sa!r} under caller A and {sb!r} under caller B")
        if "err" in a0 or ra != a0["ok"]:
            return (f"iso|{k}|leak-out", f"with the tag the caller prints {ra!r}, without it {a0}")
        return None

    def nontrivial(self, case, obs):
        body = case["partials"].get("p0") or next((n[3] for n in case["A"] if n[0] == "macro"), [])
        used = {n[1][1][1] for n in scopegen.walk(body) if n[0] == "out" and n[1][0] == "path" and n[1][1][0] == "n"} | binds(body)
        return bool(binds(case["A"]) & used) and case["A"] != case["B"] and "ok" in obs["A"]

    def tags(self, case, obs):
        return [case["kind"], "ok" if "ok" in obs["A"] else obs["A"]["err"]]

    def shrink_candidates(self, case):
        from .c14 import shrink_prog

        for key in ("A", "B"):
            for v in shrink_prog({"main": case[key], "partials": {}}):
                yield dict(case, **{key: v["main"]})
        for v in shrink_prog({"main": [], "partials": case["partials"]}):
            yield dict(case, partials=v["partials"])


# ---- include is disabled -----------------------------------------------------------------------------
WRAPS = ["none", "if", "for", "with", "capture", "render", "call"]


def wrap(kind, inner, partials, counter):
    if kind == "none":
        return inner
    if kind == "if":
        return [["if", ["lit", True], inner, []]]
    if kind == "for":
        return [["for", "i", "i-zz", ["path", ["n", "zz"], []], inner, []]]
    if kind == "with":
        return [["with", [["w", ["lit", 1]]], inner]]
    if kind == "capture":
        return [["capture", "cap", inner], ["out", ["path", ["n", "cap"], []]]]
    if kind == "render":
        name = f"r{counter[0]}"
        counter[0] += 1
        partials[name] = inner
        return [["render", name, None, []]]
    if kind == "call":
        name = f"m{counter[0]}"
        counter[0] += 1
        return [["macro", name, [], inner], ["call", name, [], []]]
    raise ValueError(kind)


def disabled_prog(chain):
    partials = {"inc": [["text", "INC"]]}
    counter = [0]
    nodes = [["include", "inc", None, []]]
    for k in reversed(chain):
        nodes = wrap(k, nodes, partials, counter)
    return {"main": nodes, "partials": partials, "args": {"zz": [1]}, "matter": {}, "tglobals": {}, "eglobals": {}}


class DisabledStream(Stream):
    name = "disabled"
    exhaustive = True

    def cases(self, ctx):
        out = []
        for n in range(0, 4):
            for chain in itertools.product(WRAPS, repeat=n):
                if "none" in chain and n > 1:
                    continue
                out.append({"chain": list(chain)})
        return out

    def impl(self, case):
        return scopeprog.run_impl(disabled_prog(case["chain"]))

    def line(self, case):
        return scopeprog.model_line(disabled_prog(case["chain"]))

    def oracle(self, case, obs):
        isolated = any(k in ("render", "call") for k in case["chain"])
        if isolated and obs.get("err") != "DisabledTagError":
            return ("disabled|" + "+".join(k for k in case["chain"] if k in ("render", "call")) + "|include-ran",
                    f"include inside {case['chain']} gave {obs}")
        if not isolated and obs.get("ok") != "INC":
            return ("disabled|plain|include-refused", f"include inside {case['chain']} gave {obs}")
        return None

    def tags(self, case, obs):
        return ["isolated" if any(k in ("render", "call") for k in case["chain"]) else "shared"]


class DisabledBlockStream(Stream):
    """include inside a {% block %} of a rendered partial that extends a base template (engine only)."""

    name = "disabled_block"
    exhaustive = True
    has_model = False

    def cases(self, ctx):
        out = []
        for levels in (1, 2):
            for where in ("child", "base"):
                for via in ("render", "render-for", "render-in-for"):
                    out.append({"levels": levels, "where": where, "via": via})
        return out

    def impl(self, case):
        import warnings

        from liquid import DictLoader, Environment

        inc = "{% include 'inc' %}"
        parts = {"inc": "INC:{{ x }}"}
        parts["base"] = "<{% block b %}" + (inc if case["where"] == "base" else "") + "{% endblock %}>"
        child = "{% extends 'base' %}{% block b %}" + (inc if case["where"] == "child" else "{{ block.super }}") + "{% endblock %}"
        if case["levels"] == 2:
            parts["mid"] = "{% extends 'base' %}{% block b %}[{{ block.super }}]{% endblock %}"
            child = child.replace("'base'", "'mid'")
        parts["p"] = child
        main = {"render": "{% assign x = 1 %}{% render 'p' %}", "render-for": "{% assign x = 1 %}{% render 'p' for zz as it %}",
                "render-in-for": "{% for x in zz %}{% render 'p' %}{% endfor %}"}[case["via"]]
        try:
            env = Environment(loader=DictLoader(parts), extra=True)
            with warnings.catch_warnings():
                warnings.simplefilter("ignore")
                return {"ok": env.from_string(main).render(zz=[1])}
        except Exception as e:
            return {"err": type(e).__name__}

    def oracle(self, case, obs):
        if case.get("where") in ("child", "base") and obs.get("err") != "DisabledTagError":
            return ("disabled|render+block|include-ran", f"include inside a block of a rendered partial gave {obs}")
        return None

    def shrink_candidates(self, case):
        return []


class IsoCornersStream(Stream):
    """Two corners the random `iso` programs never reached (engine only; expected text written out):
    (1) render / call placed inside an overriding {% block %}: the block's context chains the base template's whole
        scope, and the partial must still see only arguments, bound variable and global data;
    (2) render ... with / for with NO keyword arguments and NO global data at all: the bound variable must arrive.
    Both were genuine defects of the tree (reported by the session that seeded C15), repaired by `fix:` commits."""

    name = "iso_corners"
    exhaustive = True
    has_model = True

    def cases(self, ctx):
        out = []
        for via in ("render", "render-with", "render-for", "call"):
            for levels in (1, 2):
                for glob in (False, True):
                    out.append({"kind": "block", "via": via, "levels": levels, "glob": glob})
        for form in ("with", "with-as", "for", "for-as"):
            for glob in (False, True):
                for assigned in (False, True):
                    out.append({"kind": "bound", "form": form, "glob": glob, "assigned": assigned})
        return out

    def prog(self, case):
        """the case as a scope program (model + engine), or None when it needs a filter (`split`)"""
        P = lambda name, *tail: ["path", ["n", name], list(tail)]
        show = [["text", "["], ["out", P("secret")], ["text", "|"], ["out", P("it")], ["text", "|"], ["out", P("g")], ["text", "]"]]
        if case["kind"] == "block":
            use = {"render": [["render", "p", None, []]],
                   "render-with": [["render", "p", [False, P("zz", ["i", 0]), "it"], []]],
                   "render-for": [["render", "p", [True, P("zz"), "it"], []]],
                   "call": [["macro", "m", [], show], ["call", "m", [], []]]}[case["via"]]
            parts = {"p": show,
                     "base": [["assign", "secret", ["lit", "S"]], ["text", "<"], ["block", "b", [["text", "base"]]], ["text", ">"]]}
            parent = "base"
            if case["levels"] == 2:
                parts["mid"] = [["extends", "base"], ["block", "b", [["text", "("], ["out", P("block", ["n", "super"])], ["text", ")"]]]]
                parent = "mid"
            main = [["extends", parent], ["block", "b", use]]
            data = {"zz": [7]}
            if case["glob"]:
                data["g"] = "G"
            return {"main": main, "partials": parts, "args": data}
        if case["form"] in ("for", "for-as") and case["assigned"]:
            return None
        bind = {"with": [False, P("x"), None], "with-as": [False, P("x"), "it"], "for": [True, P("xs"), None], "for-as": [True, P("xs"), "it"]}[case["form"]]
        main = ([["assign", "x", ["lit", 5]]] if case["assigned"] else []) + [["render", "it", bind, []]]
        data = {} if case["assigned"] else {"x": 5, "xs": ["5"]}
        if case["glob"]:
            data["g"] = "G"
        return {"main": main, "partials": {"it": [["text", "["], ["out", P("it")], ["text", "]"]]}, "args": data}

    def line(self, case):
        p = self.prog(case)
        return None if p is None else scopeprog.model_line(p)

    def impl(self, case):
        from liquid import DictLoader, Environment

        p = self.prog(case)
        if p is not None:
            return scopeprog.run_impl(p)
        try:
            tail = {"with": "with x", "with-as": "with x as it", "for": "for xs", "for-as": "for xs as it"}[case["form"]]
            src = "{% assign x = 5 %}{% assign xs = '5' | split: ',' %}{% render 'it' " + tail + " %}"
            env = Environment(loader=DictLoader({"it": "[{{ it }}]"}), extra=True)
            data = {"g": "G"} if case["glob"] else {}
            return {"ok": env.from_string(src).render(**data)}
        except Exception as e:  # noqa: BLE001
            return {"err": type(e).__name__}

    def oracle(self, case, obs):
        if case["kind"] == "block":
            it = {"render": "", "render-with": "7", "render-for": "7", "call": ""}[case["via"]]
            exp = "<[|" + it + "|" + ("G" if case["glob"] else "") + "]>"
            if obs.get("ok") != exp:
                return (f"iso|{'call' if case['via'] == 'call' else 'render'}-in-block|leak-in", f"inside an overriding block the partial rendered {obs}, documented {exp!r} (it must not see the base template's `secret`)")
            return None
        if obs.get("ok") != "[5]":
            return ("iso|bound-variable-lost", f"render 'it' {case['form']} with glob={case['glob']} assigned={case['assigned']} gave {obs}, documented '[5]'")
        return None

    def tags(self, case, obs):
        return [case["kind"]]

    def shrink_candidates(self, case):
        return []


def streams(ctx):
    return [IsoStream(), DisabledStream(), DisabledBlockStream(), IsoCornersStream()]
