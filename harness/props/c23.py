"""C23 — caching loaders are transparent (liquid/builtin/loaders/mixins.py and the caching dict / choice /
file-system loaders, plus a namespace-aware loader built on the mixin)."""
from __future__ import annotations

import itertools
import os
import shutil
import tempfile

from ..core import Stream

ID = "C23"
LEAN_MODULE = "LiquidVerif.Props.C23"
TRANSLATE = False
RULE = (
    "A case is a loader kind (dict, choice of two dicts, file-system in a temp dir, namespace-aware test loader on "
    "the mixin), a cache capacity, auto_reload on/off, namespace_key set or not, environment globals, and a history "
    "of get_template / get_template_async requests (name, namespace by keyword argument and/or render-context "
    "global, request globals None/{}/non-empty) interleaved with source edits (new version with a new mtime, "
    "deletion, re-creation). Every request is made on the caching loader and on a non-caching twin over the same "
    "store; the model replays the same history. Streams: seq (every history up to length L over 2 names x 2 "
    "namespaces x sync/async x globals? plus edits, capacities 1..3, auto_reload on/off, all four kinds), slash "
    "(every short history over the names 'a' and 'x/a' and namespace 'x': colliding cache keys), random (histories "
    "up to length 12 over richer alphabets, capacities 1..4), falsyns (empty-string namespace by keyword argument / "
    "context), paths (one name in two shadowing sources: FileSystemLoader with two search paths and ChoiceLoader of two "
    "dicts, the name appearing in / vanishing from either between requests), threads (two real threads calling "
    "get_template on a mixin loader with thread_safe=True under every schedule of their atomic steps — cache look-up, "
    "up-to-date check, get_source, cache store — with an edit in between; the same schedule runs on the concurrent "
    "model). Every history also records which responses are an object handed out before and what every handle "
    "renders at the end (aliasing), compared with the model. Non-trivial: some (name, namespace) is requested at "
    "least twice, so that a cache entry can be served, reloaded or evicted; threads: both threads have started "
    "before either returns."
)
TRUSTED_BASE = [
    "Lean 4.33 kernel; axioms subset of {propext, Classical.choice, Quot.sound}",
    "hand-written model LiquidVerif/Model/CacheLoader.lean of mixins.py (cache_key, _check_cache/_check_cache_async, load/load_async), BaseLoader.load/load_async, Environment.get_template/make_globals, BoundTemplate.is_up_to_date(_async) and of what the dict / choice / file-system loaders return as source and uptodate",
    "correspondence harness harness/props/c23.py + Driver/C23.lean: every history runs on the real caching loader, on the real non-caching loader and on the model",
    "a template's behaviour is a function of its source text and bound globals (parsing is deterministic; rendering is the subject of other properties); the harness renders every returned template and checks it",
    "the file system reports the mtime set with os.utime; every edit in a history carries a fresh mtime and fresh text (equal versions have equal text)",
]
ASSUMPTIONS = [
    "the underlying loader's answer depends on the request's keyword arguments and context only through the namespace named by namespace_key (hypothesis Respects); built-in loaders ignore both",
    "an uptodate callable that answers True means the loader would return the same source again (hypothesis UptodateSound): proved for the dict, file-system and namespace loaders, false for the choice loader when an earlier loader starts to shadow a name (known finding)",
    "cache keys are the strings f'{ns}/{name}': distinct (name, namespace) pairs must have distinct keys (hypothesis KeyInj; proved when namespaces and names contain no '/', known finding otherwise)",
    "the property observes templates when they are returned; a handle kept from an earlier request is the cached object and sees later rebinding of globals — stated as theorem alias_rebinds and observed by every history stream (shared / final_g), not judged a violation",
    "concurrency: each cache operation, up-to-date check and get_source is one atomic step (ThreadSafeLRUCache lock; dict reads); the threads stream realises schedules of these steps with real threads; preemption inside a step, and asyncio tasks interleaving at awaits, are below the model",
    "PackageLoader has no caching variant in this tree (no CachingLoaderMixin subclass, no cache) and is outside the property; built-in caching loaders do not expose thread_safe (only classes using the mixin directly can pass it)",
]
MANIFEST = {
    "technique": "Lean 4 proof (induction over request/edit histories with a cache invariant; refinement of the caching loader to the non-caching loader, generic in the underlying loader) + differential correspondence against the real caching and non-caching loaders",
    "text": "Deepened: off_hits_serve_last / serves_first_sequence (auto_reload off over whole histories, with and without eviction), concurrent_served_partial + lost_update (threads as interleaved atomic steps, tied by a scheduled real-thread stream), fs2 shadowing (partial + counter-example + known finding), alias_rebinds (shared cached object). caching_transparent holds for every history of requests and store changes, every capacity, every underlying loader whose uptodate is sound and whose cache keys are injective; the dict, file-system and namespace-aware loaders are proved to satisfy the hypotheses. auto_reload_off_serves_first, no_cross_namespace and globals_apply are proved for all histories. Key collisions for names containing '/' and shadowing in the choice loader are kernel-checked counter-examples replayed on the implementation as known findings.",
    "note": "Trusted: Lean kernel, the hand model of the mixin and loaders (tied by exhaustive short and random long histories on the real code), determinism of parsing, os.utime-controlled mtimes.",
}

NSKEY = "uid"
PROBES = [0, 1, 2]


# ---- the store and source texts -------------------------------------------------------------------
def text_of(full: str, v: int) -> str:
    return f"{full}#{v}|" + "|".join("{{ g%d }}" % k for k in PROBES)


def _parse_head(head: str):
    full, _, v = head.rpartition("#")
    return [full, int(v)]


def _gdict(g):
    return None if g is None else {f"g{k}": v for k, v in g}


_CLASSES: dict = {}


def _classes():
    """The namespace-aware test loader: a dictionary keyed by 'ns/name' (or 'name'), namespace taken from the
    keyword argument NSKEY, else from the render context's globals."""
    if _CLASSES:
        return _CLASSES
    from functools import partial

    from liquid import CachingLoaderMixin
    from liquid.exceptions import TemplateNotFoundError
    from liquid.loader import BaseLoader, TemplateSource

    class NsLoader(BaseLoader):
        def __init__(self, templates):
            super().__init__()
            self.templates = templates

        def get_source(self, env, template_name, *, context=None, **kwargs):
            ns = kwargs.get(NSKEY)
            if ns is None and context is not None:
                ns = context.globals.get(NSKEY)
            full = template_name if ns is None else f"{ns}/{template_name}"
            try:
                source = self.templates[full]
            except KeyError as err:
                raise TemplateNotFoundError(template_name) from err
            return TemplateSource(source, full, partial(self._same, full, source))

        def _same(self, full, source):
            return self.templates.get(full) == source

    class CachingNsLoader(CachingLoaderMixin, NsLoader):
        def __init__(self, templates, *, auto_reload=True, namespace_key="", capacity=300):
            super().__init__(auto_reload=auto_reload, namespace_key=namespace_key, capacity=capacity)
            NsLoader.__init__(self, templates)

    _CLASSES.update(NsLoader=NsLoader, CachingNsLoader=CachingNsLoader)
    return _CLASSES


_LOOP: dict = {}


def _loop():
    """One event loop per process (creating a loop per history costs a socket pair each time)."""
    import asyncio

    lp = _LOOP.get(os.getpid())
    if lp is None or lp.is_closed():
        lp = asyncio.new_event_loop()
        _LOOP.clear()
        _LOOP[os.getpid()] = lp
    return lp


def _in_main_process():
    import multiprocessing

    return multiprocessing.current_process().name == "MainProcess"


class World:
    """A store plus a caching loader and its non-caching twin over it."""

    BASE_MTIME = 1_600_000_000

    def __init__(self, case):
        from liquid import (
            CachingChoiceLoader,
            CachingDictLoader,
            CachingFileSystemLoader,
            ChoiceLoader,
            DictLoader,
            Environment,
            FileSystemLoader,
        )

        self.kind = kind = case["kind"]
        kw = dict(auto_reload=case["auto_reload"], namespace_key=NSKEY if case["ns_key"] else "", capacity=case["cap"])
        self.dir = None
        self.dicts = [{}, {}]
        if kind == "dict":
            caching, plain = CachingDictLoader(self.dicts[0], **kw), DictLoader(self.dicts[0])
        elif kind == "choice":
            caching = CachingChoiceLoader([DictLoader(self.dicts[0]), DictLoader(self.dicts[1])], **kw)
            plain = ChoiceLoader([DictLoader(self.dicts[0]), DictLoader(self.dicts[1])])
        elif kind == "ns":
            c = _classes()
            caching, plain = c["CachingNsLoader"](self.dicts[0], **kw), c["NsLoader"](self.dicts[0])
        elif kind == "fs":
            self.dir = tempfile.mkdtemp(prefix="c23-")
            caching, plain = CachingFileSystemLoader(self.dir, **kw), FileSystemLoader(self.dir)
        elif kind == "fs2":  # two search paths: <dir>/p0 is searched before <dir>/p1
            self.dir = tempfile.mkdtemp(prefix="c23-")
            paths = [os.path.join(self.dir, "p0"), os.path.join(self.dir, "p1")]
            for p in paths:
                os.makedirs(p)
            caching, plain = CachingFileSystemLoader(paths, **kw), FileSystemLoader(paths)
        else:
            raise ValueError(kind)
        eg = _gdict(case["eg"]) or {}
        self.envs = [Environment(loader=caching, globals=dict(eg)), Environment(loader=plain, globals=dict(eg))]
        self.blank = [e.from_string("") for e in self.envs]
        self.loop = None

    def edit(self, idx, full, v):
        if self.kind in ("fs", "fs2"):
            p = os.path.join(self.dir, full) if self.kind == "fs" else os.path.join(self.dir, f"p{idx}", full)
            if v is None:
                if os.path.exists(p):
                    os.unlink(p)
                return
            os.makedirs(os.path.dirname(p), exist_ok=True)
            with open(p, "w", encoding="utf-8") as fd:
                fd.write(text_of(full, v))
            os.utime(p, (self.BASE_MTIME + v, self.BASE_MTIME + v))
        else:
            d = self.dicts[idx]
            if v is None:
                d.pop(full, None)
            else:
                d[full] = text_of(full, v)

    def request(self, which, ev):
        """One get_template(_async) on the caching (0) or the non-caching (1) environment -> observation."""
        import warnings

        from liquid import RenderContext
        from liquid.exceptions import LiquidError

        _, name, kwns, ctx, mode, g = ev
        env = self.envs[which]
        kwargs = {}
        if kwns is not None:
            kwargs[NSKEY] = kwns
        context = None
        if ctx is not None:
            context = RenderContext(self.blank[which], globals={} if ctx[0] is None else {NSKEY: ctx[0]})
        try:
            with warnings.catch_warnings():
                warnings.simplefilter("error")  # a never-awaited coroutine is a failure, not noise
                if mode == "sync":
                    t = env.get_template(name, globals=_gdict(g), context=context, **kwargs)
                else:
                    t = self.loop.run_until_complete(env.get_template_async(name, globals=_gdict(g), context=context, **kwargs))
                head = str(t).split("|")[0]
                out = t.render().split("|")
                gs = [int(x) if x else None for x in out[1:]]
                if out[0] != head:
                    return {"err": "render-does-not-follow-source"}
                self.last_handle = t
                return {"ok": {"name": t.name, "text": _parse_head(head), "g": gs}}
        except LiquidError as e:
            return {"err": type(e).__name__}
        except OSError:
            return {"err": "OSError"}
        except Exception as e:
            return {"err": type(e).__name__}

    def run(self, events):
        import asyncio

        outs, ref, shared, handles = [], [], [], []
        self.loop = _loop()
        final_g = []
        try:
            for ev in events:
                if ev[0] == "edit":
                    self.edit(ev[1], ev[2], ev[3])
                else:
                    self.last_handle = None
                    outs.append(self.request(0, ev))
                    # was an object handed out before handed out again (the cached object itself)?
                    shared.append(self.last_handle is not None and any(self.last_handle is h for h in handles))
                    handles.append(self.last_handle)
                    ref.append(self.request(1, ev))
            # what every handle returned by the caching loader renders now, at the end of the history
            for h in handles:
                if h is None:
                    final_g.append(None)
                else:
                    final_g.append([int(x) if x else None for x in h.render().split("|")[1:]])
        finally:
            try:
                # no executor thread may survive a case in the main process (it forks worker pools later); a pool
                # worker never forks, so it keeps its executor threads from one history to the next
                if getattr(self.loop, "_default_executor", None) is not None and _in_main_process():
                    self.loop.run_until_complete(self.loop.shutdown_default_executor())
                    self.loop._default_executor = None
                    self.loop._executor_shutdown_called = False
            finally:
                if self.dir:
                    shutil.rmtree(self.dir, ignore_errors=True)
        return {"outs": outs, "ref": ref, "shared": shared, "final_g": final_g}


# ---- the property, stated directly ----------------------------------------------------------------
def ident_of(case, ev):
    """(name, namespace the request selects) — keyword argument first, then the context global."""
    _, name, kwns, ctx, _mode, _g = ev
    if not case["ns_key"]:
        return (name, None)
    if kwns is not None:
        return (name, kwns)
    if ctx is not None and ctx[0] is not None:
        return (name, ctx[0])
    return (name, None)


def expected_globals(case, ev):
    """environment globals overridden by the globals passed with the request, at the probe variables"""
    d = dict((k, v) for k, v in case["eg"])
    d.update(dict((k, v) for k, v in (ev[5] or [])))
    return [d.get(k) for k in PROBES]


def key_string(ident):
    name, ns = ident
    return name if ns is None else f"{ns}/{name}"


def oracle_history(case, obs):
    """auto_reload on: every response equals the non-caching loader's. auto_reload off: name and globals equal the
    non-caching loader's, the source is the one first loaded for that (name, namespace) since it was last evicted."""
    kind = case["kind"]
    reqs = [ev for ev in case["events"] if ev[0] == "req"]
    # which dictionary each version was written to (choice loader)
    where = {ev[3]: ev[1] for ev in case["events"] if ev[0] == "edit" and ev[3] is not None}
    lru: list = []  # [(ident, (name, text))] least recently used first — the "serves first" specification
    seen: list = []
    idents = {ident_of(case, ev) for ev in reqs}
    # two different (name, namespace) pairs of this history share a key string: the cache cannot tell them apart,
    # so with auto_reload off only "a version this origin really had" is demanded (the known finding covers the rest)
    colliding = len({key_string(p) for p in idents}) < len(idents)
    written: dict = {}
    versions_at = []  # versions every origin has had, at the time of each request
    for ev in case["events"]:
        if ev[0] == "edit":
            if ev[3] is not None:
                written.setdefault(ev[2], set()).add(ev[3])
        else:
            versions_at.append({k: set(v) for k, v in written.items()})
    for i, ev in enumerate(reqs):
        got, want = obs["outs"][i], obs["ref"][i]
        idn = ident_of(case, ev)
        mode = ev[4]
        expect = want
        if not case["auto_reload"]:
            hit = next((e for e in lru if e[0] == idn), None)
            if hit is not None:
                lru.remove(hit)
                lru.append(hit)
                expect = {"ok": {"name": hit[1][0], "text": hit[1][1], "g": expected_globals(case, ev)}}
            elif "ok" in want:
                if len(lru) >= case["cap"]:
                    lru.pop(0)
                lru.append((idn, (want["ok"]["name"], want["ok"]["text"])))
        # a template served earlier to a different (name, namespace) with the same key string
        collide = {o for p, o in seen if key_string(p) == key_string(idn) and p != idn and o is not None}
        seen.append((idn, got["ok"]["text"][0] if "ok" in got else None))
        if "ok" in got and got["ok"]["g"] != expected_globals(case, ev):
            return (f"{kind}|{mode}|globals", f"request {i} {ev}: globals {got['ok']['g']}, the request asked for {expected_globals(case, ev)}")
        if got == expect:
            continue
        if not case["auto_reload"] and colliding and "ok" in got and "ok" in want:
            a, b = got["ok"], want["ok"]
            if a["name"] == b["name"] and a["text"][0] == b["text"][0] and a["text"][1] in versions_at[i].get(a["text"][0], ()):
                continue
        detail = f"request {i} {ev}: caching loader {got}, expected {expect}"
        if "err" in got:
            return (f"{kind}|{mode}|raises-{got['err']}", detail)
        if "ok" in got and got["ok"]["text"][0] in collide and ("err" in expect or got["ok"]["text"][0] != expect["ok"]["text"][0]):
            return ("key-collision", detail + " — the cache key string is shared with another (name, namespace)")
        if "err" in expect:
            return (f"{kind}|{mode}|served-after-{expect['err']}", detail)
        a, b = got["ok"], expect["ok"]
        if a["text"][0] != b["text"][0] or a["name"] != b["name"]:
            return (f"{kind}|{mode}|wrong-template", detail)
        if a["text"] != b["text"]:
            if kind == "choice" and where.get(a["text"][1]) == 1 and where.get(b["text"][1]) == 0:
                return ("choice|shadowed-by-earlier-loader", detail)
            if kind == "fs2" and where.get(a["text"][1]) == 1 and where.get(b["text"][1]) == 0:
                return ("fs2|shadowed-by-earlier-search-path", detail)
            return (f"{kind}|{mode}|stale-source", detail)
        return (f"{kind}|{mode}|globals", detail)
    return None


# ---- alphabets ------------------------------------------------------------------------------------
def req(name, kw=None, ctx=None, mode="sync", g=None):
    return ["req", name, kw, ctx, mode, g]


def edit(full, v, idx=0):
    return ["edit", idx, full, v]


def number_edits(pre, seq):
    """Give every edit of a history a fresh version (1, 2, ...); `True` marks 'write', None 'delete'."""
    out, n = [], 0
    for ev in list(pre) + list(seq):
        if ev[0] == "edit" and ev[3] is not None:
            n += 1
            out.append(["edit", ev[1], ev[2], n])
        else:
            out.append(list(ev))
    return out


def files_for(kind, names, nss):
    if kind == "ns":
        return [f"{ns}/{n}" for ns in nss for n in names] + list(names)
    return list(names)


class HistoryStream(Stream):
    parallel = True

    def impl(self, case):
        return World(case).run(case["events"])

    def line(self, case):
        return ["cacheloader", case["kind"], case["cap"], case["auto_reload"], case["ns_key"], case["eg"], PROBES, case["events"]]

    def canon_model(self, case, mobs):
        """The model says which responses are the cached object itself; from that and the key strings follows which
        handles are one object, hence what each handle renders at the end (theorem alias_rebinds): the globals of
        the last request that was handed that object."""
        if not (isinstance(mobs, dict) and "shared" in mobs):
            return mobs
        reqs = [ev for ev in case["events"] if ev[0] == "req"]
        obj_of_key: dict = {}
        objs, last_g = [], {}
        for i, ev in enumerate(reqs):
            o = mobs["outs"][i]
            if "ok" not in o:
                objs.append(None)
                continue
            k = key_string(ident_of(case, ev))
            oid = obj_of_key[k] if mobs["shared"][i] and k in obj_of_key else i
            obj_of_key[k] = oid
            objs.append(oid)
            last_g[oid] = o["ok"]["g"]
        d = dict(mobs)
        d["final_g"] = [None if oid is None else last_g[oid] for oid in objs]
        return d

    def oracle(self, case, obs):
        return oracle_history(case, obs)

    def nontrivial(self, case, obs):
        ids = [ident_of(case, ev) for ev in case["events"] if ev[0] == "req"]
        return len(set(ids)) < len(ids)

    def tags(self, case, obs):
        evs = case["events"]
        reqs = [e for e in evs if e[0] == "req"]
        modes = {e[4] for e in reqs}
        t = [case["kind"], f"cap{case['cap']}", "reload" if case["auto_reload"] else "noreload", f"reqs{len(reqs)}"]
        if len(modes) == 2:
            t.append("mixed-sync-async")
        if any(e[2] is not None for e in reqs):
            t.append("ns-kwarg")
        if any(e[3] is not None and e[3][0] is not None for e in reqs):
            t.append("ns-context")
        first_req = next((i for i, e in enumerate(evs) if e[0] == "req"), len(evs))
        if any(e[0] == "edit" for e in evs[first_req:]):
            t.append("edit-between-requests")
        if any(e[0] == "edit" and e[3] is None for e in evs):
            t.append("delete")
        if any("err" in o for o in obs["ref"]):
            t.append("not-found")
        if obs["outs"] != obs["ref"]:
            t.append("differs-from-noncaching")
        if any(obs.get("shared") or []):
            t.append("cached-object-shared")
        if any(o is not None and "ok" in obs["outs"][i] and o != obs["outs"][i]["ok"]["g"] for i, o in enumerate(obs.get("final_g") or [])):
            t.append("earlier-handle-rebound")
        return t

    def shrink_candidates(self, case):
        evs = case["events"]
        for i in range(len(evs)):
            d = dict(case)
            d["events"] = evs[:i] + evs[i + 1 :]
            yield d
        for i, e in enumerate(evs):
            if e[0] == "req":
                for j, repl in ((5, None), (3, None), (2, None), (4, "sync")):
                    if e[j] != repl:
                        d = dict(case)
                        e2 = list(e)
                        e2[j] = repl
                        d["events"] = evs[:i] + [e2] + evs[i + 1 :]
                        yield d
        if case["cap"] > 1:
            d = dict(case)
            d["cap"] = case["cap"] - 1
            yield d
        if case["eg"]:
            d = dict(case)
            d["eg"] = []
            yield d


class SeqStream(HistoryStream):
    """Every history up to length L over 2 names x 2 namespaces x sync/async x globals? + edits."""

    name = "seq"
    exhaustive = True

    def cases(self, ctx):
        L = ctx.scale(3, 4)
        names, nss = ["a", "b"], ["x", "y"]
        out = []
        for kind in ("ns", "dict", "choice", "fs"):
            files = files_for(kind, names, nss)
            pre = [edit(f, True, 1 if kind == "choice" else 0) for f in files]
            # namespace 'x' by keyword argument, namespace 'y' by render context; request globals on name 'a'
            # with the keyword-argument namespace
            reqs = [
                req(n, kw, cx, mode, g)
                for n in names
                for kw, cx in (("x", None), (None, ["y"]))
                for mode in ("sync", "async")
                for g in (None, [[1, 5]])
                if g is None or (n == "a" and kw)
            ]
            if L <= 3 and kind in ("dict", "choice"):
                # quick tier: the second name only through the keyword-argument namespace
                reqs = [r for r in reqs if r[1] == "a" or r[2]]
            if kind == "ns":
                edits = [edit("x/a", True), edit("y/a", True)]
            elif kind == "choice":
                edits = [edit("a", True, 1), edit("b", True, 1)]
            else:
                edits = [edit("a", True), edit("b", True)]
            if kind == "fs":
                # the file-system loader costs a temp dir and executor threads per history: one name
                reqs = [r for r in reqs if r[1] == "a"]
                edits = edits[:1]
            if L > 3 and kind in ("dict", "choice"):
                reqs = [r for r in reqs if r[5] is None]
            alphabet = reqs + edits
            caps = (1, 2, 3) if L <= 3 else (1, 2, 3, 4)
            for n in range(1, L + 1):
                for seq in itertools.product(alphabet, repeat=n):
                    if seq[-1][0] == "edit" or sum(1 for e in seq if e[0] == "req") < min(n, 2):
                        continue
                    for cap in caps:
                        if cap > n:
                            continue
                        for ar in (True, False):
                            out.append({"kind": kind, "cap": cap, "auto_reload": ar, "ns_key": True, "eg": [], "events": number_edits(pre, seq)})
        return out


class SlashStream(HistoryStream):
    """Names 'a' and 'x/a' with namespace 'x': the cache key strings of different requests coincide."""

    name = "slash"
    exhaustive = True

    def cases(self, ctx):
        L = ctx.scale(3, 4)
        out = []
        for kind in ("dict", "ns", "fs") + (("choice",) if ctx.tier == "thorough" else ()):
            files = ["a", "x/a"] + (["x/x/a"] if kind == "ns" else [])
            pre = [edit(f, True) for f in files]
            reqs = [
                req(n, kw, cx, mode, None)
                for n in ("a", "x/a")
                for kw, cx in ((None, None), ("x", None), (None, ["x"]))
                for mode in ("sync", "async")
            ]
            if kind == "fs" and ctx.tier != "thorough":
                reqs = [r for r in reqs if r[3] is None]
            for n in range(2, (L if kind in ("dict", "ns") else 3) + 1):
                for seq in itertools.product(reqs, repeat=n):
                    out.append({"kind": kind, "cap": 2, "auto_reload": True, "ns_key": True, "eg": [], "events": number_edits(pre, seq)})
        return out


class RandomStream(HistoryStream):
    name = "random"

    def cases(self, ctx):
        rng = ctx.rng_for("random")
        n = ctx.scale(1500, 20000)
        out = []
        gl = [None, None, [], [[1, 5]], [[1, 6]], [[0, 2], [2, 3]]]
        for i in range(n):
            kind = rng.choice(["dict", "choice", "ns", "fs", "dict", "ns"])
            slashy = rng.range(0, 9) == 0
            names = ["a", "b", "x/a"] if slashy else ["a", "b", "c"][: rng.range(2, 3)]
            nss = ["x", "y"]
            ns_key = rng.range(0, 5) != 0 or kind == "ns"
            files = files_for(kind, [x for x in names if "/" not in x], nss) if kind == "ns" else list(names)
            pre = []
            for f in files:
                if rng.range(0, 5) != 0:
                    pre.append(edit(f, True, rng.range(0, 1) if kind == "choice" else 0))
            seq = []
            for _ in range(rng.range(2, 12)):
                k = rng.range(0, 9)
                if k <= 6:
                    nsmode = rng.range(0, 5) if ns_key or rng.range(0, 3) == 0 else 0
                    kw = rng.choice(nss) if nsmode in (1, 3) else None
                    cx = None if nsmode in (0, 1) else ([rng.choice(nss)] if nsmode in (2, 3) else [None])
                    seq.append(req(rng.choice(names), kw, cx, rng.choice(["sync", "async"]), rng.choice(gl)))
                elif k <= 8 or kind == "choice":
                    seq.append(edit(rng.choice(files), True, rng.range(0, 1) if kind == "choice" else 0))
                else:
                    seq.append(edit(rng.choice(files), None, rng.range(0, 1) if kind == "choice" else 0))
            if kind == "choice" and rng.range(0, 3) == 0:
                seq.insert(rng.range(0, len(seq)), edit(rng.choice(files), None, rng.range(0, 1)))
            if seq[-1][0] == "edit":
                seq.append(req(rng.choice(names), None, None, rng.choice(["sync", "async"]), None))
            out.append(
                {
                    "kind": kind,
                    "cap": rng.range(1, 4),
                    "auto_reload": rng.range(0, 3) != 0,
                    "ns_key": ns_key,
                    "eg": rng.choice([[], [], [[0, 7]], [[0, 7], [1, 8]]]),
                    "events": number_edits(pre, seq),
                }
            )
        return out


class FalsyNsStream(HistoryStream):
    """A namespace that is a falsy value (the empty string) is still a namespace: it selects its own templates and
    its own cache entries, by keyword argument (which takes priority over the context) and by render context.
    Added after seeded change C23-1 (cache_key testing truthiness instead of presence) was missed."""

    name = "falsyns"
    exhaustive = True

    def cases(self, ctx):
        L = ctx.scale(3, 4)
        names, nss = ["a"], ["", "x"]
        files = files_for("ns", names, nss)
        pre = [edit(f, True, 0) for f in files]
        reqs = [req("a", kw, cx, mode, None) for kw, cx in (("", None), ("", ["x"]), (None, [""]), (None, ["x"]), ("x", [""]), (None, None)) for mode in ("sync", "async")]
        edits = [edit("/a", True), edit("x/a", True)]
        out = []
        for n in range(1, L + 1):
            for seq in itertools.product(reqs + edits, repeat=n):
                if seq[-1][0] == "edit" or sum(1 for e in seq if e[0] == "req") < min(n, 2):
                    continue
                if n == L and len({repr(e[1:4]) for e in seq if e[0] == "req"}) < 2:
                    continue
                for cap in (1, 3):
                    out.append({"kind": "ns", "cap": cap, "auto_reload": True, "ns_key": True, "eg": [], "events": number_edits(pre, seq)})
        return out


class PathsStream(HistoryStream):
    """Two sources for one name, the first shadowing the second: FileSystemLoader with two search paths and
    ChoiceLoader of two dictionaries; the name appears in / disappears from either between requests."""

    name = "paths"
    exhaustive = True

    def cases(self, ctx):
        L = ctx.scale(4, 5)
        out = []
        for kind in ("fs2", "choice"):
            alphabet = [req("a", None, None, "sync"), req("a", None, None, "async"),
                        edit("a", True, 0), edit("a", True, 1), edit("a", None, 0), edit("a", None, 1)]
            for n in range(2, L + 1):
                for seq in itertools.product(alphabet, repeat=n):
                    if seq[-1][0] == "edit" or seq[0][0] == "req" or sum(1 for e in seq if e[0] == "req") < 2:
                        continue
                    for ar in (True, False):
                        out.append({"kind": kind, "cap": 1, "auto_reload": ar, "ns_key": False, "eg": [], "events": number_edits([], seq)})
        return out


# ---- real threads on a thread-safe cache, driven step by step ----------------------------------------
class _Sched:
    """Turn-based scheduler: every hook point of a request (cache look-up, up-to-date check, get_source, cache store)
    waits until the schedule says it is that thread's turn; edits in the schedule are applied by whoever advances."""

    def __init__(self, schedule, apply_edit, n):
        import threading

        self.cv = threading.Condition()
        self.schedule = schedule
        self.pos = 0
        self.apply_edit = apply_edit
        self.finished = [False] * n
        self.released = False
        self.blocked: set = set()  # threads waiting for their turn
        self.tid = threading.local()

    def _advance(self):
        # skip entries that need nobody: edits (apply them) and steps of threads that have already returned
        while self.pos < len(self.schedule):
            e = self.schedule[self.pos]
            if e[0] == "edit":
                self.apply_edit(e[1], e[2], e[3])
                self.pos += 1
            elif self.finished[e[1]]:
                self.pos += 1
            else:
                break
        self.cv.notify_all()

    def step(self, fn):
        tid = getattr(self.tid, "i", None)
        if tid is None:
            return fn()
        with self.cv:
            self.blocked.add(tid)
            self.cv.notify_all()
            while not self.released and not (self.pos < len(self.schedule) and self.schedule[self.pos] == ["step", tid]):
                self.cv.wait(0.05)
            self.blocked.discard(tid)
            if self.released:
                raise _Released()
            try:
                return fn()
            finally:
                self.pos += 1
                self._advance()

    def finish(self, tid):
        with self.cv:
            self.finished[tid] = True
            self._advance()


class _Released(BaseException):
    pass


def _thread_classes():
    if "Hooked" in _CLASSES:
        return _CLASSES
    from functools import partial

    from liquid import CachingLoaderMixin, DictLoader
    from liquid.loader import TemplateSource

    class HookedDictLoader(DictLoader):
        sched = None

        def get_source(self, env, template_name, *, context=None, **kwargs):
            src = self.sched.step(lambda: DictLoader.get_source(self, env, template_name, context=context, **kwargs))
            return TemplateSource(src.text, src.name, partial(self.sched.step, src.uptodate) if src.uptodate else None)

    class Hooked(CachingLoaderMixin, HookedDictLoader):
        def __init__(self, templates, *, auto_reload, capacity):
            super().__init__(auto_reload=auto_reload, capacity=capacity, thread_safe=True)
            HookedDictLoader.__init__(self, templates)

    class ScheduledCache:
        """wraps the loader's ThreadSafeLRUCache: each look-up / store is one scheduled step"""

        def __init__(self, inner, sched):
            self.inner, self.sched = inner, sched

        def __getitem__(self, k):
            return self.sched.step(lambda: self.inner[k])

        def __setitem__(self, k, v):
            return self.sched.step(lambda: self.inner.__setitem__(k, v))

    _CLASSES.update(Hooked=Hooked, ScheduledCache=ScheduledCache)
    return _CLASSES


class ThreadsStream(Stream):
    """Real threads calling get_template on a mixin loader with thread_safe=True, run under every schedule of their
    atomic steps (look-up, up-to-date check, load, store) with an edit of the source in between; the same schedule
    runs on the concurrent model (`crun`)."""

    name = "threads"
    exhaustive = True
    parallel = True

    def cases(self, ctx):
        out = []
        nsteps = ctx.scale(7, 8)
        for ar in (True, False):
            for names in (["a", "a"], ["a", "b"]):
                for cap in (1, 2):
                    if names == ["a", "a"] and cap == 2:
                        continue
                    # all interleavings of up to 4 steps per thread, with one edit of 'a' inserted at every position
                    for seq in itertools.product((0, 1), repeat=nsteps):
                        if seq.count(0) > 4 or seq.count(1) > 4:
                            continue
                        for epos in range(1, nsteps, ctx.scale(3, 1)):
                            sched = [["edit", 0, "a", 1], ["edit", 0, "b", 2]] + [["step", i] for i in seq]
                            sched.insert(2 + epos, ["edit", 0, "a", 3])
                            out.append({"cap": cap, "auto_reload": ar, "names": names, "schedule": sched})
        return out

    def impl(self, case):
        # a heavily loaded machine can starve the two threads; only a schedule that cannot be followed three times
        # in a row, with a generous deadline, is reported as stuck
        for attempt in range(3):
            obs = self._impl_once(case, 60 * (attempt + 1))
            if not obs["stuck"]:
                break
        return obs

    def _impl_once(self, case, patience):
        import threading

        from liquid import Environment
        from liquid.exceptions import LiquidError

        c = _thread_classes()
        templates: dict = {}

        def apply_edit(idx, full, v):
            if v is None:
                templates.pop(full, None)
            else:
                templates[full] = text_of(full, v)

        n = len(case["names"])
        sched = _Sched(case["schedule"], apply_edit, n)
        loader = c["Hooked"](templates, auto_reload=case["auto_reload"], capacity=case["cap"])
        loader.sched = sched
        inner = loader.cache
        thread_safe_cache = type(inner).__name__
        loader.cache = c["ScheduledCache"](inner, sched)
        env = Environment(loader=loader)
        results = ["pending"] * n

        def work(i):
            sched.tid.i = i
            try:
                t = env.get_template(case["names"][i])
                results[i] = {"ok": {"name": t.name, "text": _parse_head(str(t).split("|")[0])}}
            except _Released:
                pass
            except LiquidError as e:
                results[i] = {"err": type(e).__name__}
            except Exception as e:
                results[i] = {"err": type(e).__name__}
            finally:
                sched.tid.i = None
                if results[i] != "pending":
                    sched.finish(i)

        with sched.cv:
            sched._advance()
        ths = [threading.Thread(target=work, args=(i,)) for i in range(n)]
        for t in ths:
            t.start()
        # wait until the schedule is exhausted (or everybody returned), then read the cache and release the rest
        import time

        deadline = time.time() + patience
        with sched.cv:
            # settled: the schedule is used up (or everybody returned) and every thread that has not returned is
            # waiting for a turn that will not come — only then is "pending" a fact and not a race with the observer
            def settled():
                over = sched.pos >= len(sched.schedule) or all(sched.finished)
                return over and all(sched.finished[i] or i in sched.blocked for i in range(n))

            while not settled() and time.time() < deadline:
                sched.cv.wait(0.05)
            stuck = not settled()
            cache = [[k, _parse_head(str(v).split("|")[0])] for k, v in inner.items()][::-1]
            snapshot = list(results)
            sched.released = True
            sched.cv.notify_all()
        for t in ths:
            t.join(20)
        return {"threads": snapshot, "cache": cache, "cache_class": thread_safe_cache, "stuck": stuck}

    def line(self, case):
        return ["cacheloader-threads", case["cap"], case["auto_reload"], case["names"], case["schedule"]]

    def compare_view(self, case, obs):
        return {"threads": obs["threads"], "cache": obs["cache"]}

    def canon_model(self, case, mobs):
        if isinstance(mobs, dict) and "threads" in mobs:
            return {"threads": mobs["threads"], "cache": mobs["cache"]}
        return mobs

    def oracle(self, case, obs):
        """Every returned template is the requested name's, at a version that name has had so far; nothing raises;
        the cache holds only such templates under their own keys."""
        if obs.get("stuck"):
            return ("threads|deadlock", "the schedule could not be followed")
        if obs.get("cache_class") != "ThreadSafeLRUCache":
            return ("threads|not-thread-safe-cache", f"thread_safe=True built a {obs.get('cache_class')}")
        versions: dict = {}
        for e in case["schedule"]:
            if e[0] == "edit" and e[3] is not None:
                versions.setdefault(e[2], set()).add(e[3])
        for i, r in enumerate(obs["threads"]):
            if r == "pending":
                continue
            if "err" in r:
                return (f"threads|raises-{r['err']}", f"thread {i} raised {r['err']}")
            name = case["names"][i]
            if r["ok"]["text"][0] != name or r["ok"]["name"] != name:
                return ("threads|wrong-template", f"thread {i} asked for {name}, got {r['ok']}")
            if r["ok"]["text"][1] not in versions.get(name, ()):
                return ("threads|invented-version", f"thread {i} got {r['ok']}")
        for k, text in obs["cache"]:
            if text[0] != k or text[1] not in versions.get(k, ()):
                return ("threads|cache-entry-under-wrong-key", f"cache holds {text} under {k}")
        if len(obs["cache"]) > case["cap"]:
            return ("threads|capacity", "more entries than the capacity")
        return None

    def nontrivial(self, case, obs):
        # both threads got going before either returned
        seq = [e[1] for e in case["schedule"] if e[0] == "step"]
        return len(set(seq[:3])) == 2

    def tags(self, case, obs):
        t = ["reload" if case["auto_reload"] else "noreload", "same-key" if len(set(case["names"])) == 1 else "two-keys"]
        done = [r for r in obs["threads"] if r != "pending"]
        t.append(f"returned{len(done)}")
        oks = [r["ok"]["text"][1] for r in done if "ok" in r]
        if len(set(case["names"])) == 1 and len(oks) == 2 and obs["cache"] and obs["cache"][0][1][1] < max(oks):
            t.append("lost-update")
        return t

    def shrink_candidates(self, case):
        sch = case["schedule"]
        for i in range(2, len(sch)):
            d = dict(case)
            d["schedule"] = sch[:i] + sch[i + 1 :]
            yield d


def streams(ctx):
    return [SeqStream(), SlashStream(), RandomStream(), FalsyNsStream(), PathsStream(), ThreadsStream()]
