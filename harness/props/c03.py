"""C03 — lax and warn modes suppress errors without changing correct output.

Proof side: lean/LiquidVerif/Model/Mode.lean models `Environment.error`, the parse loops (`Parser._parse`,
`parse_block`, `Tag.get_node`, `eat_block`, the tag parsers of content/output/non-block tags/for/capture/if/unless)
over the flat token stream, and `BoundTemplate.render_with_context` with nested partials; Props/C03.lean proves
lax_never_raises / warn_reports_each / strict_ok_implies_same for every token list, state type and expression
semantics.  tools/emitters/c03_mode_sites.py regenerates Gen/ModeSites.lean (every consultation of the mode in
liquid/, the WARNINGS table, the LiquidSyntaxError subclasses, the shape of the two `error` methods).

Implementation side: every case runs under Mode.STRICT, Mode.WARN and Mode.LAX on the real code (from_string, then
render() and render_async() of the same template); token-level cases
also run on the Lean driver and the observations (raised?, AST shape, output, warning categories, suppressed error
classes) are diffed; the direct oracle is the property text.
"""
from __future__ import annotations

import itertools
import re

from ..core import Stream
from ..gen.templates import gen_program, malform

ID = "C03"
LEAN_MODULE = "LiquidVerif.Props.C03"
TRANSLATE = True
EXTRA_THEOREM_FILES = [("LiquidVerif.Gen.ModeSites", "LiquidVerif.Gen.ModeSites")]
RULE = (
    "DEEPENED: the token model now also covers case/when/else (own loop, junk skipping), with/tablerow (parse shape), "
    "ifchanged (parse shape) and the async render loop as its own function; pool/small/tokens put case, when, with and "
    "ifchanged into the token programs. "
    "stream pool: every labelled expression of the token generator alone in its tag (exhaustive; validates the labels "
    "parse-ok / raises / strict-only and the evaluation result); stream small: every token sequence of length<=L over a "
    "20-letter alphabet of block openers, closers, orphans, good and bad expressions (exhaustive); stream tokens: random "
    "structured token programs (nested if/unless/for/capture, partials via include/render/extends, break/continue, "
    "small block_nesting_limit) damaged at token level (dropped/duplicated/swapped tokens, orphan else/elsif/end*/when, "
    "unknown tags, missing or garbled expressions, strict-only expressions); stream modes: generated programs over all "
    "tags and ~90 filters with random data, half of them damaged by malform(), partials damaged too; stream sites: one "
    "hand-aimed template per strict-only guard and per recovery path. Every case runs under STRICT, WARN and LAX, and the "
    "parsed template is rendered twice, with render() and with render_async(); both renders are held to the same oracle "
    "(and, on the token streams, to the model). Besides comparing warn-mode warnings with the errors handed to "
    "Environment.error, the oracle states two consequences that do not depend on that hook: when strict mode raises a "
    "Liquid error (not from a strict-only raise guard, recognised from the traceback) warn mode must emit at least one "
    "warning and its first warning must have the category of that error's class; and warn mode must have warned at "
    "least once per IllegalNode in the parsed tree. "
    "Non-trivial: some mode suppressed or raised at least one Liquid error (the modes really differed), or strict "
    "succeeded with non-empty output."
)
TRUSTED_BASE = [
    "Lean 4.33 kernel; axioms subset of {propext, Classical.choice, Quot.sound}",
    "hand-written model LiquidVerif/Model/Mode.lean of environment.error, parser.py, tag.py, the tag parsers of "
    "content/output/assign-like tags/break/continue/for/capture/if/unless/case-when/with/tablerow/ifchanged, "
    "template.render_with_context and render_with_context_async (Model/ModeAsync.lean)",
    "translator tools/emitters/c03_mode_sites.py (Python ast): inventory and shape classification of every mode consultation",
    "the abstraction of an expression token to (parser behaviour by mode, mode-independent evaluation) — justified by "
    "all_sites_benign (the only mode consultations inside expression parsers are strict-only raise guards) and sampled by the pool stream",
    "correspondence harness harness/props/c03.py + Driver/C03.lean",
]
ASSUMPTIONS = [
    "non-Liquid exceptions (TypeError, ValueError … escaping filters) are C02's business: a case in which some mode raises a "
    "non-Liquid exception is recorded and excluded from the comparisons that involve that mode",
    "tags whose parser is not modelled token-exactly (liquid, raw/comment/doc, macro/call, block, translate) are covered by "
    "the direct oracle on the modes stream and by the mode-site inventory, not by the token model; tablerow and ifchanged are "
    "modelled for parsing only (their rendering — row markup, ifchanged's own buffer and memory — is not: ifchanged appears "
    "once per case and without failing expressions, tablerow not at all in the model-compared streams)",
    "the context-depth budget of the model counts nested render_with_context calls; Python counts scopes (generated partials are acyclic)",
    "Python's warnings filters are set to 'always' by the harness (the default filter would de-duplicate repeated warnings)",
]
MANIFEST = {
    "technique": "Lean 4 proof (induction over the token list, the block-nesting budget and the context-depth budget) about a "
    "token-level model of the parse loops and the render loop + translator-generated inventory of every mode consultation + "
    "three-mode differential correspondence",
    "text": "(deepened: the converse strict_fails_implies_lax_suppresses / _warn_warns on guard-free streams, the async loop "
    "as its own function with async_run_equals_sync_run, case/when/with/tablerow/ifchanged parsers inside the model) "
    "lax_never_raises, warn_reports_each and strict_ok_implies_same are proved for every token stream (malformed "
    "expressions, unknown tags, orphaned else/break/continue, unbalanced blocks), every state type and every mode-independent "
    "expression semantics, at every nesting depth; all_sites_benign is re-decided by the kernel against the inventory of mode "
    "consultations regenerated from the source on every run; the model is tied to the code by running exhaustive small token "
    "sequences and random damaged token programs under the three modes on both sides.",
    "note": "Trusted: Lean kernel, the hand model, the translator's shape classification, the expression-token abstraction, the "
    "harness. Tags outside the token model are covered dynamically only.",
}

MODES = ("strict", "warn", "lax")
SYN = "LiquidSyntaxError"


# ------------------------------------------------------------------------------------------------
# running the real code under one mode
# ------------------------------------------------------------------------------------------------
def _shape(nodes):
    out = []
    for n in nodes:
        c = type(n).__name__
        if c == "ContentNode":
            out.append("T")
        elif c == "IllegalNode":
            out.append("X")
        elif c == "BreakNode":
            out.append("B")
        elif c == "ContinueNode":
            out.append("C")
        elif c in ("IncludeNode", "RenderNode"):
            out.append("P")
        elif c == "ExtendsNode":
            out.append("S")
        elif c in ("IfNode", "UnlessNode"):
            d = getattr(n, "default", None)
            out.append("I(" + _shape(n.consequence.nodes) + "|" + _shape(n.alternatives) + "|" + (_shape(d.nodes) if d else "") + ")")
        elif c == "ConditionalBlockNode":
            out.append("K(" + _shape(n.block.nodes) + ")")
        elif c == "ForNode":
            out.append("F(" + _shape(n.block.nodes) + "|" + (_shape(n.default.nodes) if n.default else "") + ")")
        elif c == "CaptureNode":
            out.append("A(" + _shape(n.block.nodes) + ")")
        elif c == "CaseNode":
            out.append("W(" + "".join(("M(" + _shape(b.block.nodes) + ")") if type(b).__name__ == "MultiExpressionBlockNode" else ("L(" + _shape(b.nodes) + ")") for b in n.blocks) + ")")
        elif c in ("WithNode", "TablerowNode"):
            out.append("Y(" + _shape(n.block.nodes) + ")")
        elif c == "IfChangedNode":
            out.append("G(" + _shape(n.block.nodes) + ")")
        else:
            out.append("E")
    return "".join(out)


def count_illegal(nodes) -> int:
    """IllegalNodes anywhere in a parse tree (generic walk over node attributes: works for every tag)."""
    from liquid.ast import Node

    n = 0
    stack = list(nodes)
    seen = set()
    while stack:
        x = stack.pop()
        if id(x) in seen:
            continue
        seen.add(id(x))
        if type(x).__name__ == "IllegalNode":
            n += 1
            continue
        names = set(getattr(x, "__dict__", {}) or ())
        for k in type(x).__mro__:
            sl = getattr(k, "__slots__", ())
            names.update([sl] if isinstance(sl, str) else sl)
        for a in names:
            v = getattr(x, a, None)
            if isinstance(v, Node):
                stack.append(v)
            elif isinstance(v, (list, tuple)):
                stack.extend(i for i in v if isinstance(i, Node))
    return n


def make_recording_env(mode, partials=None, attrs=None, extra=False, autoescape=False):
    """An Environment whose `error` also records (after the real method returned) the class of every suppressed error."""
    from liquid import DictLoader, Environment, Mode

    suppressed: list = []

    def error(self, exc, msg=None, token=None):
        Environment.error(self, exc, msg=msg, token=token)  # raises in strict mode
        suppressed.append((exc if isinstance(exc, type) else type(exc)).__name__)

    cls = type("RecEnv", (Environment,), dict(attrs or {}, error=error))
    tol = {"strict": Mode.STRICT, "warn": Mode.WARN, "lax": Mode.LAX}[mode]
    env = cls(tolerance=tol, loader=DictLoader(dict(partials or {})), extra=extra, autoescape=autoescape)
    return env, suppressed


_GUARDS = None
_LOOP = None


def guard_ranges():
    """{file: [(first line, last line)]} of every strict-only raise guard `if … .mode == Mode.STRICT …: raise …`
    (no else) in the liquid package under test — the places where, by design, strict mode raises and the other modes
    carry on silently."""
    global _GUARDS
    if _GUARDS is None:
        import ast
        from pathlib import Path

        import liquid

        res: dict = {}
        for f in Path(liquid.__file__).parent.rglob("*.py"):
            try:
                tree = ast.parse(f.read_text())
            except (SyntaxError, OSError):
                continue
            # the dispatch inside `Environment.error` / `RenderContext.error` has the same shape and is not a guard
            dispatch = {id(x) for fn in ast.walk(tree) if isinstance(fn, (ast.FunctionDef, ast.AsyncFunctionDef)) and fn.name == "error" for x in ast.walk(fn)}
            for n in ast.walk(tree):
                if id(n) in dispatch:
                    continue
                if not (isinstance(n, ast.If) and not n.orelse and len(n.body) == 1 and isinstance(n.body[0], ast.Raise)):
                    continue
                conj = n.test.values if isinstance(n.test, ast.BoolOp) and isinstance(n.test.op, ast.And) else [n.test]
                for c in conj:
                    if (
                        isinstance(c, ast.Compare) and len(c.ops) == 1 and isinstance(c.ops[0], ast.Eq)
                        and isinstance(c.left, ast.Attribute) and c.left.attr == "mode"
                        and isinstance(c.comparators[0], ast.Attribute) and c.comparators[0].attr == "STRICT"
                        and isinstance(c.comparators[0].value, ast.Name) and c.comparators[0].value.id == "Mode"
                    ):
                        res.setdefault(str(f.resolve()), []).append((n.lineno, n.end_lineno))
        _GUARDS = res
    return _GUARDS


def raised_by_guard(exc) -> bool:
    """Was this exception (or the one it was raised from) raised inside a strict-only raise guard?"""
    import os

    g = guard_ranges()
    seen = 0
    while exc is not None and seen < 5:
        tb = exc.__traceback__
        while tb is not None:
            fn = os.path.realpath(tb.tb_frame.f_code.co_filename)
            for a, b in g.get(fn, ()):
                if a <= tb.tb_lineno <= b:
                    return True
            tb = tb.tb_next
        exc = exc.__cause__ or exc.__context__
        seen += 1
    return False


def _run_async(coro_fn):
    import asyncio

    global _LOOP
    if _LOOP is None or _LOOP.is_closed():
        _LOOP = asyncio.new_event_loop()
    return _LOOP.run_until_complete(coro_fn())


def run_mode(source, mode, partials=None, attrs=None, extra=False, autoescape=False, data=None, shape=True):
    """-> {"parse": …, "run": …, "arun": …} for one mode: `from_string`, then `render` and `render_async` of the same
    template. "run"/"arun" carry the warnings and suppressed errors of parsing plus that render."""
    import warnings

    from liquid.exceptions import LiquidError

    env, suppressed = make_recording_env(mode, partials, attrs, extra, autoescape)

    def both(d):
        return {"parse": d["parse"], "run": d["run"], "arun": d["run"]}

    with warnings.catch_warnings(record=True) as w:
        warnings.simplefilter("always")

        def cats(k=0):
            return [x.category.__name__ for x in w[k:]]

        try:
            t = env.from_string(source)
        except RecursionError:
            return both({"parse": {"nonliquid": "RecursionError"}, "run": {"nonliquid": "RecursionError"}})
        except LiquidError as e:
            cause = type(e.__cause__).__name__ if e.__cause__ is not None and not isinstance(e.__cause__, LiquidError) else None
            if cause:
                return both({"parse": {"nonliquid": cause}, "run": {"nonliquid": cause}})
            r = {"parse_err": type(e).__name__}
            if mode == "strict" and raised_by_guard(e):
                r["guard"] = True
            return both({"parse": {"err": type(e).__name__}, "run": r})
        except Exception as e:
            return both({"parse": {"nonliquid": type(e).__name__}, "run": {"nonliquid": type(e).__name__}})
        parse = {"warnings": cats(), "suppressed": list(suppressed), "illegal": count_illegal(t.nodes)}
        if shape:
            parse["shape"] = _shape(t.nodes)
        res = {"parse": parse}
        for key, go in (("run", lambda: t.render(**(data or {}))), ("arun", lambda: _run_async(lambda: t.render_async(**(data or {}))))):
            nw, ns = len(w), len(suppressed)
            try:
                out = go()
            except RecursionError:
                res[key] = {"nonliquid": "RecursionError"}
            except LiquidError as e:
                res[key] = {"render_err": type(e).__name__, "warnings": parse["warnings"] + cats(nw), "suppressed": parse["suppressed"] + suppressed[ns:]}
                if mode == "strict" and raised_by_guard(e):
                    res[key]["guard"] = True
            except Exception as e:
                res[key] = {"nonliquid": type(e).__name__}
            else:
                res[key] = {"ok": out, "warnings": parse["warnings"] + cats(nw), "suppressed": parse["suppressed"] + suppressed[ns:]}
        return res


def lexer_accepts(source, attrs=None, extra=False):
    from liquid.exceptions import LiquidError

    env, _ = make_recording_env("lax", None, attrs, extra)
    try:
        list(env.tokenizer()(source))
        return True
    except LiquidError:
        return False
    except Exception:
        return False


def warning_table():
    from liquid.exceptions import WARNINGS

    return sorted([k.__name__, v.__name__] for k, v in WARNINGS.items())


def syntax_classes():
    import liquid.exceptions as X

    return sorted(n for n, c in vars(X).items() if isinstance(c, type) and issubclass(c, X.LiquidSyntaxError))


def observe3(source, partials=None, attrs=None, extra=False, autoescape=False, data=None, shape=True):
    obs = {m: run_mode(source, m, partials, attrs, extra, autoescape, data, shape) for m in MODES}
    obs["lexer_ok"] = lexer_accepts(source, attrs, extra)
    obs["wt"] = warning_table()
    return obs


# ------------------------------------------------------------------------------------------------
# the property, stated directly on an observation of the three modes
# ------------------------------------------------------------------------------------------------
def oracle3(obs):
    """The property on the observation of the three modes; the sync render first, then the async render."""
    for rk, pre in (("run", ""), ("arun", "async|")):
        v = _oracle_run(obs, rk)
        if v is not None:
            return (pre + v[0], ("render_async: " if pre else "") + v[1])
    return None


def _oracle_run(obs, rk):
    s, w, l = obs["strict"], obs["warn"], obs["lax"]
    table = dict(obs["wt"])
    # 1. lax / warn never raise a Liquid error from parsing (lexer-accepted sources) or from rendering
    for name, o in (("lax", l), ("warn", w)):
        if "err" in o["parse"]:
            if obs["lexer_ok"]:
                return (f"{name}|parse-raises|{o['parse']['err']}", f"{name} mode: from_string raised {o['parse']['err']} on a source the lexer accepts")
        elif "render_err" in o[rk]:
            return (f"{name}|render-raises|{o[rk]['render_err']}", f"{name} mode: render raised {o[rk]['render_err']}")
    # 2. lax is silent; warn reports each suppressed error, in order, under the category of its class
    for part in ("parse", rk):
        if l[part].get("warnings"):
            return ("lax|emits-warning", f"lax mode emitted {l[part]['warnings']}")
        if "warnings" in w[part]:
            exp = [table.get(c, "LiquidWarning") for c in w[part]["suppressed"]]
            if w[part]["warnings"] != exp:
                kind = "missing" if len(w[part]["warnings"]) < len(exp) else "extra" if len(w[part]["warnings"]) > len(exp) else "category"
                return (f"warn|warnings-{kind}", f"warn mode suppressed {w[part]['suppressed']} but warned {w[part]['warnings']}")
    # 3. warn behaves the same as lax
    if "ok" in w[rk] and "ok" in l[rk]:
        if w[rk]["ok"] != l[rk]["ok"]:
            return ("warn-vs-lax|output-differs", "warn and lax render different output")
        if w[rk]["suppressed"] != l[rk]["suppressed"]:
            return ("warn-vs-lax|suppressed-differ", f"warn suppressed {w[rk]['suppressed']}, lax {l[rk]['suppressed']}")
    elif ("ok" in w[rk]) != ("ok" in l[rk]) and "nonliquid" not in w[rk] and "nonliquid" not in l[rk]:
        return ("warn-vs-lax|outcome-differs", f"warn {sorted(w[rk])} vs lax {sorted(l[rk])}")
    # 4. a template that is fine in strict mode renders identically in lax and warn, without warnings
    if "ok" in s[rk]:
        for name, o in (("lax", l), ("warn", w)):
            if "ok" not in o[rk]:
                return (f"strict-ok|{name}-fails", f"strict renders, {name} gives {sorted(o[rk])}")
            if o[rk]["ok"] != s[rk]["ok"]:
                return (f"strict-ok|{name}-output-differs", f"strict output {s[rk]['ok']!r:.80} vs {name} {o[rk]['ok']!r:.80}")
            if o[rk]["warnings"]:
                return (f"strict-ok|{name}-emits-warning", f"{name} warned {o[rk]['warnings']} for a template that is fine in strict mode")
            if o[rk]["suppressed"]:
                return (f"strict-ok|{name}-suppresses", f"{name} suppressed {o[rk]['suppressed']} for a template that is fine in strict mode")
    # 5. independent of the `error` hook: the error that strict mode raises is the first one warn mode meets, so warn
    #    mode must report it — at least one warning, and the first one under the category of that error's class.
    #    (Not claimed when the strict failure comes from a strict-only raise guard: those let the other modes go on
    #    silently by design; the guard is recognised from the traceback, see raised_by_guard.)
    err = s[rk].get("parse_err") or s[rk].get("render_err")
    if err and not s[rk].get("guard") and "warnings" in w[rk]:
        if not w[rk]["warnings"]:
            return (f"warn|silent-for-strict-error|{err}", f"strict mode raises {err}; warn mode suppressed it without any warning")
        if w[rk]["warnings"][0] != table.get(err, "LiquidWarning"):
            return (f"warn|first-warning-category|{err}", f"strict mode raises {err}; the first warning of warn mode is {w[rk]['warnings'][0]}")
    # 6. also independent of the hook: an IllegalNode in the tree is the visible trace of a suppressed parse error
    #    (`Tag.get_node` and the elsif recovery of if/unless are the only places that create one), so warn mode must
    #    have warned at least once per IllegalNode while parsing.
    if "illegal" in w["parse"] and len(w["parse"]["warnings"]) < w["parse"]["illegal"]:
        return ("warn|illegal-node-without-warning", f"warn mode parsed {w['parse']['illegal']} IllegalNode(s) but emitted {len(w['parse']['warnings'])} warning(s)")
    return None


def nontrivial3(obs):
    s, w, l = obs["strict"], obs["warn"], obs["lax"]
    if "ok" in s["run"]:
        return bool(s["run"]["ok"])
    return bool(l["run"].get("suppressed") or l["parse"].get("suppressed") or "render_err" in s["run"] or "parse_err" in s["run"])


def tags3(obs):
    s, l = obs["strict"], obs["lax"]
    t = ["strict:" + ("ok" if "ok" in s["run"] else "parse_err" if "parse_err" in s["run"] else "render_err" if "render_err" in s["run"] else "nonliquid")]
    t.append("lax:" + ("ok" if "ok" in l["run"] else "nonliquid" if "nonliquid" in l["run"] else "raises"))
    n = len(l["run"].get("suppressed", []))
    t.append("suppressed:" + ("0" if n == 0 else "1" if n == 1 else "2-4" if n < 5 else "5+"))
    if not obs["lexer_ok"]:
        t.append("lexer-rejects")
    if s["run"].get("guard") or s["arun"].get("guard"):
        t.append("strict-only-guard")
    return t


# ------------------------------------------------------------------------------------------------
# token-level programs: abstract tokens with a concrete spelling
# ------------------------------------------------------------------------------------------------
# expression pools: (source text, parser behaviour, evaluation) — validated by the pool stream
OK = "ok"
BAD = ["err", SYN]
SO = ["so", SYN, None]
OUT_POOL = [
    ("'abc'", OK, ["ok", "abc", 3]),
    ("1 | plus: 2", OK, ["ok", "3", 3]),
    ("nosuch", OK, ["ok", "", 0]),
    ("'a' | nosuchfilter", OK, ["err", "UnknownFilterError"]),
    ("1 | divided_by: 0", OK, ["err", "FilterArgumentError"]),
    ("1 | plus: 'x', 2", OK, ["err", "FilterArgumentError"]),
    ("'a' |", BAD, None),
    ("", BAD, None),
    ("a.b c", BAD, None),
    ("'x' | append: 'a' 'b'", BAD, None),
    ("a['b']c", SO, ["ok", "", 0]),
    ("a[1]c", SO, ["ok", "", 0]),
    ("zz. | default: 'd'", SO, ["ok", "d", 1]),
    ("'x' | append: 'a',, 'b'", SO, ["err", "FilterArgumentError"]),
]
ASSIGN_POOL = [
    ("v = 1", OK, ["ok", "", 0]),
    ("v = 'x' | upcase", OK, ["ok", "", 0]),
    ("v 1", BAD, None),
    ("= 1", BAD, None),
    ("v = 1 | divided_by: 0", OK, ["err", "FilterArgumentError"]),
    ("v = a['b']c", SO, ["ok", "", 0]),
]
COND_POOL = [
    ("true", OK, ["ok", "", 1]),
    ("1 == 1", OK, ["ok", "", 1]),
    ("false", OK, ["ok", "", 0]),
    ("nosuch", OK, ["ok", "", 0]),
    ("1 < 'a'", OK, ["err", "LiquidTypeError"]),
    ("1 ==", BAD, None),
    ("and true", BAD, None),
    ("a['b']c", SO, ["ok", "", 0]),
    ("true and a[1]c", SO, ["ok", "", 0]),
]
FOR_POOL = [
    ("i in (1..3)", OK, ["ok", "", 3]),
    ("i in (1..2)", OK, ["ok", "", 2]),
    ("i in (1..1) reversed", OK, ["ok", "", 1]),
    ("i in nosuch", OK, ["ok", "", 0]),
    ("i in (1..3) limit:'x'", OK, ["err", "LiquidTypeError"]),
    ("i (1..3)", BAD, None),
    ("in (1..3)", BAD, None),
    ("i in a['b']c", SO, ["ok", "", 0]),
]
# `case 1`: the `when` expressions are labelled with the number of their values equal to 1
CASE_POOL = [("1", OK, ["ok", "", 0]), ("1", OK, ["ok", "", 0]), ("1 2", BAD, None), ("", BAD, None)]
WHEN_POOL = [
    ("1", OK, ["ok", "", 1]),
    ("2", OK, ["ok", "", 0]),
    ("1, 1", OK, ["ok", "", 2]),
    ("2 or 1", OK, ["ok", "", 1]),
    ("nosuch, 3", OK, ["ok", "", 0]),
    ("==", BAD, None),
    ("", BAD, None),
    ("a['b']c", SO, ["ok", "", 0]),
]
WITH_POOL = [("p: 1", OK, ["ok", "", 0]), ("p: 1, q: 'x'", OK, ["ok", "", 0]), ("p 1", BAD, None), ("p: 1 q: 2", SO, ["ok", "", 0])]
CAPTURE_POOL = [("v", OK, ["ok", "", 0]), ("v w", BAD, None), ("v |", BAD, None)]
EXTENDS_POOL = [("'base'", OK, ["ok", "base", 0]), ("'missing'", OK, ["ok", "missing", 0]), ("'base' x", BAD, None)]


def partial_pool(names, kind):
    pool = [(f"'{n}'", OK, ["ok", n, 0]) for n in names]
    pool.append(("'missing'", OK, ["ok", "missing", 0]))
    pool.append(("'p0' a: 1 b: 2" if names else "'missing' a: 1 b: 2", SO, ["ok", "p0" if names else "missing", 0]))
    pool.append(("'p0' with" if kind == "include" else "'p0' for", BAD, None))
    return pool


POOLS = {
    "output": OUT_POOL, "echo": OUT_POOL, "assign": ASSIGN_POOL, "if": COND_POOL, "unless": COND_POOL, "elsif": COND_POOL,
    "for": FOR_POOL, "capture": CAPTURE_POOL, "extends": EXTENDS_POOL, "case": CASE_POOL, "when": WHEN_POOL, "with": WITH_POOL,
}
TEXTS = ["a", "b ", "x-", "Hello ", "<p>", "é"]
ORPHANS = ["else", "elsif", "endif", "endfor", "endunless", "endcapture", "endcase", "nosuchtag", "break", "continue", "", "endwith"]


def orphan(rng):
    """A tag that does not belong where it is put. `elsif` may end up inside an `if`, where its expression is parsed."""
    name = rng.choice(ORPHANS)
    if not rng.chance(30):
        return tok_t(name, None)
    return tok_t(name, rng.choice(COND_POOL) if name == "elsif" else ("x y", OK, None))


def orphan_when(rng):
    return tok_t("when", rng.choice(WHEN_POOL))


def tok_c(s):
    return {"k": "c", "s": s}


def tok_o(x):
    return {"k": "o", "x": list(x)}


def tok_t(n, x=None):
    return {"k": "t", "n": n, "x": list(x) if x is not None else None}


def spell(toks):
    out = []
    for t in toks:
        if t["k"] == "c":
            out.append(t["s"])
        elif t["k"] == "o":
            out.append("{{ " + t["x"][0] + " }}")
        else:
            out.append("{% " + t["n"] + ((" " + t["x"][0]) if t["x"] is not None and t["x"][0] != "" else "") + " %}")
    return "".join(out)


def normalise(toks):
    """What the lexer will really produce: adjacent content merges; a tag with an empty expression has no EXPRESSION token."""
    res = []
    for t in toks:
        if t["k"] == "c" and res and res[-1]["k"] == "c":
            res[-1] = tok_c(res[-1]["s"] + t["s"])
        elif t["k"] == "t" and t["x"] is not None and (t["x"][0] == "" or t["n"] == ""):
            res.append(tok_t(t["n"], None))
        else:
            res.append(t)
    return res


def model_toks(toks):
    out = []
    for t in normalise(toks):
        if t["k"] == "c":
            out.append(["c", t["s"]])
        elif t["k"] == "o":
            out.append(["o"])
            out.append(["e", t["x"][1], t["x"][2] or ["ok", "", 0]])
        else:
            out.append(["t", t["n"]])
            if t["x"] is not None:
                out.append(["e", t["x"][1], t["x"][2] or ["ok", "", 0]])
    return out


class TokGen:
    def __init__(self, rng, partial_names=(), allow_partials=True, allow_extends=False, bad=12, allow_with=False):
        self.allow_with = allow_with
        self.r = rng
        self.pn = list(partial_names)
        self.allow_partials = allow_partials
        self.allow_extends = allow_extends
        self.bad = bad  # percent of expressions drawn from the whole pool instead of the well-behaved part
        self.in_loop = 0

    def expr(self, ctx):
        pool = POOLS[ctx] if ctx in POOLS else partial_pool(self.pn, ctx)
        if self.r.chance(self.bad):
            return self.r.choice(pool)
        good = [p for p in pool if p[1] == OK and (p[2] is None or p[2][0] == "ok")]
        return self.r.choice(good or pool)

    def block(self, depth):
        n = self.r.choice([0, 1, 1, 2, 2, 3])
        out = []
        for _ in range(n):
            out += self.node(depth)
        return out

    def node(self, depth):
        r = self.r
        k = r.below(100)
        if depth >= 3 or k < 30:
            return [tok_c(r.choice(TEXTS))] if r.chance(50) else [tok_o(self.expr("output"))]
        if k < 38:
            return [tok_t(r.choice(["assign", "echo"]), None)] if r.chance(8) else [tok_t("assign", self.expr("assign"))] if r.chance(50) else [tok_t("echo", self.expr("echo"))]
        if k < 43:
            out = [tok_t("case", self.expr("case"))] + ([tok_c(" junk ")] if r.chance(15) else [])
            for _ in range(r.choice([0, 1, 1, 2, 3])):
                out += ([tok_t("when", self.expr("when"))] if r.chance(80) else [tok_t("else")]) + self.block(depth + 1)
            if r.chance(40):
                out += [tok_t("else")] + self.block(depth + 1)
            return out + [tok_t("endcase")]
        if k < 58:
            name = r.choice(["if", "if", "unless"])
            out = [tok_t(name, self.expr(name))] + self.block(depth + 1)
            for _ in range(r.choice([0, 0, 1, 2])):
                out += [tok_t("elsif", self.expr("elsif"))] + self.block(depth + 1)
            if r.chance(45):
                out += [tok_t("else", ("x", OK, None) if r.chance(10) else None)] + self.block(depth + 1)
            return out + [tok_t("end" + name)]
        if k < 72:
            self.in_loop += 1
            body = self.block(depth + 1)
            if r.chance(35):
                body += [tok_t(r.choice(["break", "continue"]))] + ([tok_c("z")] if r.chance(50) else [])
            self.in_loop -= 1
            out = [tok_t("for", self.expr("for"))] + body
            if r.chance(30):
                out += [tok_t("else")] + self.block(depth + 1)
            return out + [tok_t("endfor")]
        if k < 76:
            return [tok_t("capture", self.expr("capture"))] + self.block(depth + 1) + [tok_t("endcapture")]
        if k < 78 and self.allow_with:
            return [tok_t("with", self.expr("with"))] + self.block(depth + 1) + [tok_t("endwith")]
        if k < 84:
            # an interrupt outside a loop is itself an error: mostly keep them inside loops
            return [tok_t(r.choice(["break", "continue"]))] if (self.in_loop or r.chance(15)) else [tok_c(r.choice(TEXTS))]
        if k < 94 and self.allow_partials:
            kind = r.choice(["include", "render"])
            return [tok_t(kind, self.expr(kind))]
        if k < 96 and self.allow_extends:
            return [tok_t("extends", self.expr("extends"))]
        return [orphan(r)] if r.chance(35) else [tok_o(self.expr("output"))]


def damage(rng, toks, pn):
    """Token-level damage: the malformed constructs the property quantifies over."""
    toks = list(toks)
    k = rng.below(8)
    if not toks:
        return [tok_t(rng.choice(ORPHANS))]
    i = rng.below(len(toks))
    if k == 0:
        del toks[i]
    elif k == 1:
        toks.insert(i, dict(toks[i]))
    elif k == 2:
        toks.insert(i, orphan(rng))
    elif k == 3:
        j = rng.below(len(toks))
        toks[i], toks[j] = toks[j], toks[i]
    elif k == 4:
        # garble or drop an expression
        idx = [n for n, t in enumerate(toks) if t["k"] != "c" and t.get("x") is not None and (t["k"] == "o" or t["n"] in POOLS or t["n"] in ("include", "render")) and t["n" if t["k"] == "t" else "k"] != "else"]
        if idx:
            n = rng.choice(idx)
            t = dict(toks[n])
            ctx = "output" if t["k"] == "o" else t["n"]
            pool = POOLS[ctx] if ctx in POOLS else partial_pool(pn, ctx)
            bad = [p for p in pool if p[1] != OK or (p[2] and p[2][0] == "err")]
            if t["k"] == "t" and rng.chance(25):
                t["x"] = None
            else:
                t["x"] = list(rng.choice(bad))
            toks[n] = t
    elif k == 5:
        # cut the tail: unbalanced blocks
        toks = toks[: max(1, i)]
    elif k == 6:
        name = rng.choice(["if", "for", "unless", "capture", "case", "when"])
        toks.insert(i, tok_t(name, rng.choice(POOLS[name]) if rng.chance(60) else None))
    else:
        name = rng.choice(["endif", "endfor", "else", "elsif"])
        toks.insert(i, tok_t(name, (rng.choice(COND_POOL) if name == "elsif" else ("x y", OK, None)) if rng.chance(40) else None))
    return toks


def gen_tok_case(rng, damage_pct=45):
    # p0: leaf partial; p1 may render p0; pb interrupts; base for extends
    g0 = TokGen(rng, [], allow_partials=False)
    p0 = [tok_c("[p0 ")] + g0.block(1) + [tok_c("]")]
    gb = TokGen(rng, [], allow_partials=False)
    pb = [tok_c("(")] + gb.block(2) + [tok_t(rng.choice(["break", "continue"]))] + [tok_c(")")]
    g1 = TokGen(rng, [], allow_partials=False)
    p1 = [tok_c("[p1 ")] + g1.block(1) + ([tok_t("render", ("'p0'", OK, ["ok", "p0", 0]))] if rng.chance(60) else []) + [tok_c("]")]
    base = [tok_c("<base ")] + TokGen(rng, [], allow_partials=False).block(1) + [tok_c(">")]
    partials = {"p0": p0, "p1": p1, "pb": pb, "base": base}
    extends = rng.chance(8)
    extra = extends or rng.chance(30)
    g = TokGen(rng, ["p0", "p1", "pb"], allow_extends=extends, bad=rng.choice([0, 0, 3, 8, 30]), allow_with=extra)
    toks = g.block(0) + g.block(0)
    if extends and rng.chance(60):
        toks = [tok_t("extends", ("'base'", OK, ["ok", "base", 0]))] + toks
    if rng.chance(damage_pct):
        for _ in range(rng.choice([1, 1, 2, 3])):
            toks = damage(rng, toks, ["p0", "p1", "pb"])
    # `_build_block_stacks` rejects a template with two `extends` tags (inheritance is C18's subject, not modelled here)
    seen = False
    kept = []
    for t in toks:
        if t["k"] == "t" and t["n"] == "extends":
            if seen:
                continue
            seen = True
        kept.append(t)
    toks = kept
    for n in ("p0", "p1", "pb", "base"):
        if rng.chance(12):
            partials[n] = damage(rng, partials[n], [])
    return {
        "toks": normalise(toks),
        "partials": {n: normalise(t) for n, t in partials.items()},
        "nest": rng.choice([100, 100, 100, 3, 2, 1]),
        "extra": bool(extra),
    }


class TokenStreamBase(Stream):
    parallel = True
    DEPTH = 40

    def impl(self, case):
        src = spell(case["toks"])
        partials = {n: spell(t) for n, t in case.get("partials", {}).items()}
        attrs = {"block_nesting_limit": case.get("nest", 100), "suppress_blank_control_flow_blocks": False}
        obs = observe3(src, partials, attrs, extra=case.get("extra", False))
        obs["sc"] = syntax_classes()
        return obs

    def line_obs(self, case, obs):
        return [
            "c03run", case.get("nest", 100), self.DEPTH, obs["wt"], obs["sc"], model_toks(case["toks"]),
            [[n, model_toks(t)] for n, t in sorted(case.get("partials", {}).items())],
        ]

    def compare_view(self, case, obs):
        # the model must reproduce parse, the sync render and the async render (the `guard` mark is harness-side only)
        return {m: {k: {a: b for a, b in obs[m][k].items() if a not in ("guard", "illegal")} for k in ("parse", "run", "arun")} for m in MODES}

    def canon_model(self, case, mobs):
        if isinstance(mobs, dict) and all(m in mobs for m in MODES):
            # "arun" is the model's own async loop (Model/ModeAsync.lean: runAsync)
            return {m: {"parse": mobs[m]["parse"], "run": mobs[m]["run"], "arun": mobs[m].get("arun", {"missing": True})} for m in MODES}
        return mobs

    def oracle(self, case, obs):
        return oracle3(obs)

    def nontrivial(self, case, obs):
        return nontrivial3(obs)

    def tags(self, case, obs):
        t = tags3(obs)
        names = {x["n"] for x in case["toks"] if x["k"] == "t"}
        for n in ("if", "unless", "for", "capture", "include", "render", "extends", "break", "continue", "elsif", "else"):
            if n in names:
                t.append("tag:" + n)
        if case.get("nest", 100) < 10:
            t.append("low-nest-limit")
        return t

    def shrink_candidates(self, case):
        toks = case["toks"]
        for i in range(len(toks)):
            d = dict(case)
            d["toks"] = normalise(toks[:i] + toks[i + 1 :])
            yield d
        for n in list(case.get("partials", {})):
            d = dict(case)
            d["partials"] = {a: b for a, b in case["partials"].items() if a != n}
            yield d
            pt = case["partials"][n]
            for i in range(len(pt)):
                d = dict(case)
                d["partials"] = dict(case["partials"])
                d["partials"][n] = normalise(pt[:i] + pt[i + 1 :])
                yield d


class PoolStream(TokenStreamBase):
    """Each labelled expression alone in its tag: validates the labels the other token streams rely on."""

    name = "pool"
    exhaustive = True
    parallel = False

    def cases(self, ctx):
        out = []
        partials = {"p0": [tok_c("[p0]")], "base": [tok_c("<base>")]}

        def add(toks, extra=False):
            out.append({"toks": normalise(toks), "partials": partials, "nest": 100, "extra": extra})

        for x in OUT_POOL:
            add([tok_c("a"), tok_o(x), tok_c("b")])
            add([tok_c("a"), tok_t("echo", x), tok_c("b")])
        for x in ASSIGN_POOL:
            add([tok_c("a"), tok_t("assign", x), tok_c("b")])
        for x in COND_POOL:
            for name in ("if", "unless"):
                add([tok_c("a"), tok_t(name, x), tok_c("y"), tok_t("else"), tok_c("n"), tok_t("end" + name), tok_c("b")])
            add([tok_t("if", COND_POOL[2]), tok_c("y"), tok_t("elsif", x), tok_c("e"), tok_t("else"), tok_c("n"), tok_t("endif"), tok_c("b")])
            for name in ("if", "unless"):
                add([tok_c("a"), tok_t(name, COND_POOL[0]), tok_c("y"), tok_t("elsif", x), tok_c("e"), tok_t("end" + name), tok_c("b")])
                add([tok_t(name, COND_POOL[2]), tok_t("elsif", COND_POOL[2]), tok_c("y"), tok_t("elsif", x), tok_t("end" + name)])
        for x in FOR_POOL:
            add([tok_c("a"), tok_t("for", x), tok_c("y"), tok_t("else"), tok_c("n"), tok_t("endfor"), tok_c("b")])
        for x in CAPTURE_POOL:
            add([tok_c("a"), tok_t("capture", x), tok_c("y"), tok_t("endcapture"), tok_c("b")])
        for x in CASE_POOL[1:]:
            add([tok_c("a"), tok_t("case", x), tok_t("when", WHEN_POOL[0]), tok_c("y"), tok_t("else"), tok_c("n"), tok_t("endcase"), tok_c("b")])
        add([tok_c("a"), tok_t("case", None), tok_t("when", WHEN_POOL[0]), tok_c("y"), tok_t("endcase"), tok_c("b")])
        for x in WHEN_POOL:
            add([tok_c("a"), tok_t("case", CASE_POOL[0]), tok_c(" junk "), tok_t("when", x), tok_c("y"), tok_t("else"), tok_c("n"), tok_t("endcase"), tok_c("b")])
            add([tok_t("case", CASE_POOL[0]), tok_t("when", WHEN_POOL[1]), tok_c("z"), tok_t("else"), tok_c("m"), tok_t("when", x), tok_c("y"), tok_t("else"), tok_c("n"), tok_t("endcase")])
        add([tok_t("case", CASE_POOL[0]), tok_t("when", None), tok_c("y"), tok_t("endcase"), tok_c("b")])
        add([tok_t("case", CASE_POOL[0]), tok_t("when", WHEN_POOL[0]), tok_c("y")])
        add([tok_t("case", CASE_POOL[0]), tok_t("when", WHEN_POOL[0]), tok_c("y"), tok_t("endif"), tok_t("endcase"), tok_c("b")])
        add([tok_t("case", CASE_POOL[0]), tok_t("if", COND_POOL[0]), tok_t("endif"), tok_t("when", WHEN_POOL[0]), tok_c("y"), tok_t("endcase")])
        for x in WITH_POOL:
            add([tok_c("a"), tok_t("with", x), tok_c("y"), tok_o(OUT_POOL[0]), tok_t("endwith"), tok_c("b")], extra=True)
        add([tok_c("a"), tok_t("with", None), tok_c("y"), tok_t("endwith"), tok_c("b")], extra=True)
        add([tok_c("a"), tok_t("with", WITH_POOL[0]), tok_c("y")], extra=True)
        add([tok_c("a"), tok_t("ifchanged"), tok_c("y"), tok_o(OUT_POOL[0]), tok_t("endifchanged"), tok_c("b")])
        add([tok_c("a"), tok_t("ifchanged", ("x", OK, None)), tok_c("y"), tok_t("endifchanged"), tok_c("b")])
        add([tok_c("a"), tok_t("ifchanged"), tok_c("y"), tok_t("endif"), tok_c("b")])
        for kind in ("include", "render"):
            for x in partial_pool(["p0"], kind):
                add([tok_c("a"), tok_t(kind, x), tok_c("b")])
            add([tok_c("a"), tok_t(kind, None), tok_c("b")])
        for x in EXTENDS_POOL:
            add([tok_c("a"), tok_t("extends", x), tok_c("b")], extra=True)
        for n in ("assign", "echo", "if", "for", "capture", "unless"):
            add([tok_c("a"), tok_t(n, None), tok_c("b"), tok_t("end" + n), tok_c("c")])
            add([tok_t(n, None)])
        return out


ALPHABET = [
    tok_c("a"),
    tok_o(OUT_POOL[0]), tok_o(OUT_POOL[4]), tok_o(OUT_POOL[6]), tok_o(OUT_POOL[10]),
    tok_t("if", COND_POOL[0]), tok_t("if", COND_POOL[2]), tok_t("if", COND_POOL[5]), tok_t("if", None),
    tok_t("elsif", COND_POOL[0]), tok_t("elsif", COND_POOL[5]), tok_t("else"), tok_t("endif"),
    tok_t("for", FOR_POOL[1]), tok_t("for", FOR_POOL[5]), tok_t("endfor"),
    tok_t("break"), tok_t("nosuchtag", ("x", OK, None)), tok_t("echo", None), tok_t("capture", CAPTURE_POOL[0]),
]


class SmallStream(TokenStreamBase):
    """Every token sequence up to a length over a fixed alphabet: orphans, unbalanced blocks, bad expressions in every position."""

    name = "small"
    exhaustive = True

    def cases(self, ctx):
        out = []
        L = ctx.scale(3, 4)
        for n in range(1, L + 1):
            for seq in itertools.product(range(len(ALPHABET)), repeat=n):
                toks = normalise([ALPHABET[i] for i in seq])
                out.append({"toks": toks, "partials": {}, "nest": 100, "extra": False})
        # deeper, over the block skeleton only
        core = [ALPHABET[i] for i in (0, 5, 6, 9, 10, 11, 12, 13, 15, 16)]
        D = ctx.scale(3, 4)
        for seq in itertools.product(range(len(core)), repeat=D):
            out.append({"toks": normalise([core[i] for i in seq]), "partials": {}, "nest": 2 if (len(out) % 3 == 0) else 100, "extra": False})
        # case / when skeletons (own loop, else blocks, junk, orphans) and `with`
        cw = [
            tok_c("a"), tok_t("case", CASE_POOL[0]), tok_t("case", CASE_POOL[2]), tok_t("when", WHEN_POOL[0]), tok_t("when", WHEN_POOL[1]),
            tok_t("when", WHEN_POOL[2]), tok_t("when", WHEN_POOL[5]), tok_t("else"), tok_t("endcase"), tok_o(OUT_POOL[4]),
            tok_t("if", COND_POOL[0]), tok_t("endif"), tok_t("with", WITH_POOL[0]), tok_t("endwith"),
        ]
        for n in range(1, ctx.scale(3, 4) + 1):
            for seq in itertools.product(range(len(cw)), repeat=n):
                out.append({"toks": normalise([cw[i] for i in seq]), "partials": {}, "nest": 100, "extra": True})
        return out


class TokensStream(TokenStreamBase):
    name = "tokens"

    def cases(self, ctx):
        rng = ctx.rng_for("tokens")
        return [gen_tok_case(rng.fork(str(i))) for i in range(ctx.scale(3000, 30000))]


# ------------------------------------------------------------------------------------------------
# full-language programs (no model side): the property on everything the generators can write
# ------------------------------------------------------------------------------------------------
class ModesStream(Stream):
    name = "modes"
    has_model = False
    parallel = True

    def cases(self, ctx):
        rng = ctx.rng_for("modes")
        out = []
        for i in range(ctx.scale(3000, 30000)):
            r = rng.fork(str(i))
            p = gen_program(r)
            kind = r.below(10)
            if kind >= 4:
                for _ in range(r.choice([1, 1, 2])):
                    p["source"] = malform(r, p["source"])
            if kind >= 7:
                for k in list(p["partials"]):
                    if r.chance(50):
                        p["partials"][k] = malform(r, p["partials"][k])
            p["nest"] = r.choice([None, None, None, 2, 4])
            out.append(p)
        return out

    def impl(self, case):
        attrs = dict(case.get("flags") or {})
        if case.get("nest"):
            attrs["block_nesting_limit"] = case["nest"]
        return observe3(case["source"], case["partials"], attrs, extra=case["extra"], autoescape=case["autoescape"], data=case["data"], shape=False)

    def oracle(self, case, obs):
        return oracle3(obs)

    def nontrivial(self, case, obs):
        return nontrivial3(obs)

    def tags(self, case, obs):
        t = tags3(obs)
        for m in MODES:
            if "nonliquid" in obs[m]["run"] or "nonliquid" in obs[m]["arun"]:
                t.append(f"nonliquid-in-{m}")
        return t

    def shrink_candidates(self, case):
        pieces = re.split(r"(\{%.*?%\}|\{\{.*?\}\})", case["source"], flags=re.S)
        for i in range(len(pieces)):
            if pieces[i]:
                d = dict(case)
                d["source"] = "".join(pieces[:i] + pieces[i + 1 :])
                yield d
        for k in list(case["data"]):
            d = dict(case)
            d["data"] = {a: b for a, b in case["data"].items() if a != k}
            yield d
        for k in list(case["partials"]):
            d = dict(case)
            d["partials"] = {a: b for a, b in case["partials"].items() if a != k}
            yield d


SITE_TEMPLATES = [
    # strict-only guards: path.py (4), loop.py, arguments.py, filtered.py
    "{{ a['b']c }}|{{ a[1]c }}|{{ a[b]c }}|{{ a. }}",
    "{% for i in (1..3) limit:2,, offset:1 %}{{ i }}{% endfor %}",
    "{% include 'p' x: 1 y: 2 %}{% render 'p', x: 1 y: 2 %}",
    "{{ 'x' | append: 'a',, 'b' }}{{ 'x' | default: 1,, allow_false: true }}",
    "{% if a['b']c %}y{% else %}n{% endif %}{% assign q = a[1]c %}[{{ q }}]",
    # if / unless recovery
    "{% if false %}a{% elsif 1 == %}b{% else %}c{% endif %}d",
    "{% if false %}a{% elsif %}b{% elsif true %}c{% endif %}d",
    "{% unless true %}a{% elsif 1 == %}b{% else %}c{% endunless %}d",
    "{% unless true %}a{% elsif 1 == %}b{% endunless %}d",
    "{% if false %}a{% elsif 1 == %}b{% endif %}d",
    "{% unless false %}a{% elsif true %}b{% elsif %}c{% endunless %}d",
    "a{% break %}b",
    "{% if true %}{% continue %}{% endif %}b",
    "{% if true %}a{% else x %}b{% endif %}|{% if false %}a{% else %}b{% else %}c{% elsif true %}d{% endif %}e",
    "{% if true %}a{% else %}b",
    "{% if true %}a{% endfor %}b{% endif %}c",
    # orphans and interrupts
    "a{% else %}b{% endif %}c{% endfor %}d{% when 1 %}e{% endcase %}f",
    "a{% break %}b{% continue %}c",
    "{% for i in (1..3) %}{{ i }}{% include 'brk' %}x{% endfor %}|{% for i in (1..3) %}{{ i }}{% render 'brk' %}x{% endfor %}",
    "{% include 'brk' %}after|{% render 'brk' %}after",
    # tag expressions of every built-in tag, garbled
    "{% assign %}{% assign x %}{% assign x = %}{% capture %}x{% endcapture %}{% capture 1 %}x{% endcapture %}",
    "{% case %}{% when 1 %}a{% endcase %}{% case x %}{% when %}a{% else %}b{% endcase %}{% case x %}junk{% when 1 %}a{% endcase %}",
    "{% cycle %}{% cycle 'a': %}{% increment %}{% decrement 1 2 %}{% echo | %}{% ifchanged x %}a{% endifchanged %}",
    "{% for %}a{% endfor %}{% for i %}a{% endfor %}{% for i in %}a{% endfor %}{% tablerow %}a{% endtablerow %}{% tablerow i in x cols: %}a{% endtablerow %}",
    "{% include %}{% include 'p' with %}{% render %}{% render p %}{% render 'p' for %}{% include 'nosuch' %}{% render 'nosuch' %}",
    "{% liquid\nassign x = \necho x |\nif\necho 1\nendif\nfor\nendfor\nnosuch\n%}after",
    "{% liquid\nif true\necho 'a'\n%}after{% liquid\nendif\nelse\nbreak\n%}",
    "{% raw %}{{ x }}{% endraw %}{% comment %}{% if %}{% endcomment %}{% # inline | %}{% doc %}{% if %}{% enddoc %}",
    "{% unless %}a{% endunless %}{% unless x ==%}a{% else %}b{% endunless %}{% if x = 1 %}a{% endif %}{% if (x %}a{% endif %}",
    # render-time errors
    "{{ 1 | divided_by: 0 }}a{{ 'x' | nosuch }}b{{ 'x' | upcase: 1 }}c{% if 1 < 'x' %}d{% endif %}e{% for i in (1..3) limit: 'x' %}f{% endfor %}g",
    "{% for i in (1..3) %}{{ i }}{{ i | minus: 2 | divided_by: 0 }}{% endfor %}|{% capture c %}a{{ 1 | divided_by: 0 }}b{% endcapture %}[{{ c }}]",
    "{% include 'bad' %}|{% render 'bad' %}|{% include 'rt' %}|{% render 'rt' %}",
    "{% tablerow i in (1..2) cols: 'x' %}{{ i }}{% endtablerow %}{% cycle a: 1, 2 %}{% include x %}{% render 'p' with %}",
]
SITE_EXTRA = [
    "{% extends 'base' %}{% block a %}A{{ 1 | divided_by: 0 }}B{% endblock %}tail",
    "{% extends 'nosuch' %}x",
    "{% extends %}x{% block %}a{% endblock %}{% block a b %}c{% endblock %}",
    "{% extends 'base' %}{% extends 'base' %}",
    "{% block a %}1{% endblock %}{% block a %}2{% endblock %}",
    "{% macro %}a{% endmacro %}{% macro m x y %}b{% endmacro %}{% call %}{% call m 1 2 %}{% call nosuch %}",
    "{% with %}a{% endwith %}{% with x 1 %}b{% endwith %}{% with x: 1 y: 2 %}{{ x }}{{ y }}{% endwith %}",
    "{% translate x %}a{% endtranslate %}{% translate %}a{% plural %}b{% plural %}c{% endtranslate %}{% translate count: 'x' %}a{{ b | upcase }}{% endtranslate %}",
    "{{ 'a' if }}{{ 'a' if x else }}{{ 'a' if x else 'b' || }}{{ x | t: }}",
]
SITE_PARTIALS = {
    "p": "[p {{ x }}{{ y }}]",
    "brk": "({% break %})",
    "bad": "[bad {% if %}x{% endif %}{{ | }}{% endfor %}]",
    "rt": "[rt {{ 1 | divided_by: 0 }}{% for i in (1..2) %}{{ i }}{% endfor %}{% break %}tail]",
    "base": "<{% block a %}base-a{% endblock %}{{ 'x' | nosuch }}>",
}


class SitesStream(ModesStream):
    """Hand-aimed templates: one per strict-only guard, recovery path, orphan kind and built-in tag expression."""

    name = "sites"
    parallel = False

    def cases(self, ctx):
        from ..gen.templates import gen_flags

        rng = ctx.rng_for("sites")
        out = []
        for extra, pool in ((False, SITE_TEMPLATES), (True, SITE_TEMPLATES + SITE_EXTRA)):
            for src in pool:
                for rep in range(ctx.scale(2, 8)):
                    flags = gen_flags(rng) if rep else {}
                    out.append({"source": src, "partials": SITE_PARTIALS, "data": {"x": rng.choice([1, "s", None, [1, 2]]), "a": {"b": 1}}, "flags": flags, "extra": extra, "autoescape": False, "nest": None if rep < 2 else rng.choice([None, 1, 3])})
        return out


def extra(ctx):
    """Attach the translator's inventory to the evidence."""
    import json

    from ..lean import LEAN_DIR

    p = LEAN_DIR / "LiquidVerif" / "Gen" / "mode_sites.json"
    if p.exists():
        d = json.loads(p.read_text())
        ctx.extra_coverage["mode_sites"] = {
            "sites": len(d["sites"]),
            "by_kind": d["by_kind"],
            "error_methods": d["error_methods"],
            "warnings_table": d["warnings"],
        }


def streams(ctx):
    return [PoolStream(), SitesStream(), SmallStream(), TokensStream(), ModesStream()]
