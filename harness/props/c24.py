"""C24 — LRU caches behave as bounded least-recently-used maps (liquid/utils/lru_cache.py)."""
from __future__ import annotations

import itertools
import sys
import threading

from ..core import Stream

ID = "C24"
LEAN_MODULE = "LiquidVerif.Props.C24"
TRANSLATE = False
RULE = (
    "stream seq: every operation sequence of length<=L over keys {0,1,2}, values {1,2}, the 10 operations "
    "get/getd/set/del/contains/len/keys/values/items/iter, capacities 1..4, on LRUCache and ThreadSafeLRUCache "
    "(exhaustive); stream random: long random sequences over 6 keys; stream threads: 2..16 real threads on "
    "ThreadSafeLRUCache with sys.setswitchinterval(1e-6), linearisation order logged while the lock is held and "
    "replayed through the Lean model. Non-trivial: the sequence causes at least one eviction, or a hit after a "
    "reordering, or (threads) at least two threads interleave within the history."
)
TRUSTED_BASE = [
    "Lean 4.33 kernel; axioms subset of {propext, Classical.choice, Quot.sound}",
    "hand-written model LiquidVerif/Model/LRU.lean of liquid/utils/lru_cache.py (OrderedDict as an association list, least recent first)",
    "correspondence harness harness/props/c24.py + Driver/C24.lean (differential: every sequence runs on the real classes and on the model)",
    "CPython OrderedDict semantics (move_to_end, popitem(last=False), reversed views) — modelled, sampled by the correspondence",
    "threading.Lock gives mutual exclusion; an operation's effect happens while the lock is held (the lock wrapper records that order)",
]
MANIFEST = {
    "technique": "Lean 4 proof (induction over operation sequences; refinement to a recency-list specification) + differential correspondence incl. linearised multi-thread histories",
    "text": "Theorems lru_inv, evicts_lru, get_after_set, value_is_last_stored, run_refines_spec, interleaving_safe hold for every operation sequence and every interleaving of atomic steps, with no bound; the model is tied to lru_cache.py by exhaustive small-sequence and random differential runs and by replaying lock-ordered histories of real threads.",
    "note": "Trusted: Lean kernel (axioms propext/Classical.choice/Quot.sound only), the hand model of OrderedDict as an association list, the correspondence harness, threading.Lock mutual exclusion. Preemption inside a method body is below the model's atomic steps; real-thread soak runs sample it."
}
ASSUMPTIONS = [
    "Concurrency theorem interleaving_safe assumes each locked method body is one atomic step; preemption inside an unlocked method (__len__) is below the model",
    "keys/values are natural numbers in the model; the implementation is generic, hashing/equality of keys is Python's",
]

KEYS = [0, 1, 2]


def all_ops(keys=KEYS, vals=(1, 2)):
    ops = []
    for k in keys:
        ops += [["get", k], ["getd", k], ["del", k], ["contains", k]]
        for v in vals:
            ops.append(["set", k, v])
    ops += [["len"], ["keys"], ["values"], ["items"], ["iter"]]
    return ops


def make_cache(cls: str, cap: int):
    from liquid.utils.lru_cache import LRUCache, ThreadSafeLRUCache

    return (ThreadSafeLRUCache if cls == "ThreadSafeLRUCache" else LRUCache)(cap)


def apply_op(c, op):
    """One operation on the real cache -> canonical result (same encoding as Driver/C24.lean)."""
    name = op[0]
    try:
        if name == "get":
            return ["val", c[op[1]]]
        if name == "getd":
            r = c.get(op[1], "DEFAULT")
            return "default" if r == "DEFAULT" else ["val", r]
        if name == "set":
            c[op[1]] = op[2]
            return None
        if name == "del":
            del c[op[1]]
            return None
        if name == "contains":
            return op[1] in c
        if name == "len":
            return ["len", len(c)]
        if name == "keys":
            return ["keys", list(c.keys())]
        if name == "values":
            return ["vals", list(c.values())]
        if name == "items":
            return ["pairs", [list(p) for p in c.items()]]
        if name == "iter":
            return ["keys", list(iter(c))]
    except KeyError:
        return "KeyError"
    except Exception as e:  # anything else is a failure of the cache
        return ["EXC", type(e).__name__]
    raise ValueError(op)


class Ref:
    """The property, stated directly: a recency list (most recent first) bounded by cap."""

    def __init__(self, cap):
        self.cap = cap
        self.s = []  # [(k, v)] most recently used first

    def find(self, k):
        for kk, v in self.s:
            if kk == k:
                return v
        return None

    def touch(self, k, v):
        self.s = [(k, v)] + [(a, b) for a, b in self.s if a != k]

    def step(self, op):
        n = op[0]
        if n in ("get", "getd"):
            v = self.find(op[1])
            if v is None:
                return "KeyError" if n == "get" else "default"
            self.touch(op[1], v)
            return ["val", v]
        if n == "set":
            self.touch(op[1], op[2])
            self.s = self.s[: self.cap]  # overflow drops the least recently used
            return None
        if n == "del":
            if self.find(op[1]) is None:
                return "KeyError"
            self.s = [(a, b) for a, b in self.s if a != op[1]]
            return None
        if n == "contains":
            return self.find(op[1]) is not None
        if n == "len":
            return ["len", len(self.s)]
        if n in ("keys", "iter"):
            return ["keys", [a for a, _ in self.s]]
        if n == "values":
            return ["vals", [b for _, b in self.s]]
        if n == "items":
            return ["pairs", [[a, b] for a, b in self.s]]
        raise ValueError(op)


def oracle_sequence(cap, ops, outs, what="seq"):
    ref = Ref(cap)
    for i, (op, out) in enumerate(zip(ops, outs)):
        if isinstance(out, list) and out and out[0] == "EXC":
            return (f"{what}|{op[0]}|raises-{out[1]}", f"operation {i} {op} raised {out[1]}")
        exp = ref.step(op)
        if len(ref.s) > cap:
            return (f"{what}|capacity", f"more than {cap} entries after operation {i}")
        if exp != out:
            kind = "order" if op[0] in ("keys", "values", "items", "iter") else "result"
            return (f"{what}|{op[0]}|{kind}", f"operation {i} {op}: expected {exp}, got {out}")
    return None


def seq_nontrivial(cap, ops):
    ref = Ref(cap)
    evicted = reordered_hit = False
    for op in ops:
        before = len(ref.s)
        if op[0] == "set" and ref.find(op[1]) is None and before == cap:
            evicted = True
        if op[0] in ("get", "getd") and ref.s and ref.find(op[1]) is not None and ref.s[0][0] != op[1]:
            reordered_hit = True
        ref.step(op)
    return evicted or reordered_hit


class SeqStream(Stream):
    name = "seq"
    exhaustive = True
    parallel = True

    def cases(self, ctx):
        L = ctx.scale(3, 4)
        ops = all_ops()
        out = []
        for cap in (1, 2, 3, 4):
            for n in range(1, L + 1):
                for seq in itertools.product(ops, repeat=n):
                    cls = "ThreadSafeLRUCache" if (len(out) % 2) else "LRUCache"
                    out.append({"cls": cls, "cap": cap, "ops": [list(o) for o in seq]})
        # deeper, over the mutating core only (get/set/del + one listing), both classes
        core = [["get", 0], ["get", 1], ["set", 0, 1], ["set", 1, 1], ["set", 2, 2], ["del", 0], ["items"]]
        D = ctx.scale(5, 7)
        for cap in (1, 2, 3):
            for seq in itertools.product(core, repeat=D):
                cls = "ThreadSafeLRUCache" if (len(out) % 2) else "LRUCache"
                out.append({"cls": cls, "cap": cap, "ops": [list(o) for o in seq]})
        return out

    def impl(self, case):
        c = make_cache(case["cls"], case["cap"])
        outs = [apply_op(c, op) for op in case["ops"]]
        final = [list(p) for p in c.items()][::-1]
        return {"outs": outs, "final": final}

    def line(self, case):
        return ["lru", case["cap"], case["ops"]]

    def oracle(self, case, obs):
        v = oracle_sequence(case["cap"], case["ops"], obs["outs"])
        if v:
            return v
        if len(obs["final"]) > case["cap"]:
            return ("seq|capacity", "final size exceeds capacity")
        return None

    def nontrivial(self, case, obs):
        return seq_nontrivial(case["cap"], case["ops"])

    def tags(self, case, obs):
        t = [f"cap{case['cap']}", f"len{len(case['ops'])}", case["cls"]]
        if "KeyError" in obs["outs"]:
            t.append("keyerror")
        return t


class RandomStream(SeqStream):
    name = "random"
    exhaustive = False
    parallel = False

    def cases(self, ctx):
        rng = ctx.rng_for("random")
        n = ctx.scale(300, 3000)
        out = []
        for i in range(n):
            cap = rng.range(1, 6)
            keys = list(range(rng.range(2, 8)))
            ops = all_ops(keys, vals=(1, 2, 3))
            # bias towards mutation so that evictions and reorderings dominate
            weights = [o for o in ops for _ in range(3 if o[0] in ("set", "get") else 1)]
            seq = [list(rng.choice(weights)) for _ in range(rng.range(10, 200))]
            out.append({"cls": rng.choice(["LRUCache", "ThreadSafeLRUCache"]), "cap": cap, "ops": seq})
        return out


class _RecordingLock:
    """Stands in for ThreadSafeLRUCache._lock: records, while the lock is held, which thread's
    operation is being linearised."""

    def __init__(self, order, current):
        self._l = threading.Lock()
        self.order = order
        self.current = current

    def __enter__(self):
        self._l.acquire()
        return self

    def __exit__(self, *a):
        if getattr(self.current, "tag", None) is not None:
            self.order.append(self.current.tag)  # still holding the lock
        self._l.release()
        return False

    def acquire(self, *a, **k):
        return self._l.acquire(*a, **k)

    def release(self):
        if getattr(self.current, "tag", None) is not None:
            self.order.append(self.current.tag)
        self._l.release()


class ThreadStream(Stream):
    name = "threads"

    def cases(self, ctx):
        rng = ctx.rng_for("threads")
        n = ctx.scale(24, 160)
        out = []
        for i in range(n):
            nt = rng.choice([2, 2, 3, 4, 8, 16])
            out.append(
                {
                    "threads": nt,
                    "per_thread": rng.range(30, 120) if nt <= 4 else rng.range(15, 40),
                    "cap": rng.range(1, 4),
                    "keys": rng.range(2, 5),
                    "wseed": rng.next() & 0xFFFFFF,
                    "listers": rng.range(0, 2),
                }
            )
        return out

    def impl(self, case):
        from ..prng import Rng

        c = make_cache("ThreadSafeLRUCache", case["cap"])
        order: list = []
        current = threading.local()
        if hasattr(c, "_lock"):
            c._lock = _RecordingLock(order, current)
        nt = case["threads"]
        plans = []
        for t in range(nt):
            r = Rng(case["wseed"], f"t{t}")
            keys = list(range(case["keys"]))
            if t < case["listers"]:
                ops = [["keys"], ["values"], ["items"], ["contains", 0], ["get", 0]]
            else:
                ops = [o for o in all_ops(keys, (1, 2, 3)) if o[0] not in ("len", "iter")]
                ops += [o for o in ops if o[0] == "set"] * 2
            plans.append([list(r.choice(ops)) for _ in range(case["per_thread"])])
        results = [[None] * len(p) for p in plans]
        lens: list = []
        barrier = threading.Barrier(nt)

        def work(t):
            barrier.wait()
            for i, op in enumerate(plans[t]):
                current.tag = (t, i)
                results[t][i] = apply_op(c, op)
                if i % 7 == 0:
                    current.tag = None  # not an operation of the history
                    lens.append(len(c))

        old = sys.getswitchinterval()
        sys.setswitchinterval(1e-6)
        try:
            ths = [threading.Thread(target=work, args=(t,)) for t in range(nt)]
            for th in ths:
                th.start()
            for th in ths:
                th.join(60)
        finally:
            sys.setswitchinterval(old)
        # linearised history
        counts: dict = {}
        for tag in order:
            counts[tag] = counts.get(tag, 0) + 1
        total = sum(len(p) for p in plans)
        once = all(counts.get((t, i), 0) == 1 for t in range(nt) for i in range(len(plans[t])))
        hist_ops, hist_outs, seen = [], [], set()
        for t, i in order:
            if (t, i) in seen:
                continue
            seen.add((t, i))
            hist_ops.append(plans[t][i])
            hist_outs.append(results[t][i])
        errors = sorted({r[1] for rs in results for r in rs if isinstance(r, list) and r and r[0] == "EXC"})
        switches = sum(1 for a, b in zip(order, order[1:]) if a[0] != b[0])
        return {
            "errors": errors,
            "every_op_locked_once": once and len(order) == total,
            "max_len": max(lens) if lens else 0,
            "final_len": len(c),
            "switches": switches,
            "ops": hist_ops,
            "outs": hist_outs,
        }

    def line_obs(self, case, obs):
        return ["lru", case["cap"], obs["ops"]]

    def compare_view(self, case, obs):
        return {"outs": obs["outs"], "locked_once": obs["every_op_locked_once"]}

    def canon_model(self, case, mobs):
        if isinstance(mobs, dict) and "outs" in mobs:
            return {"outs": mobs["outs"], "locked_once": True}
        return mobs

    def oracle(self, case, obs):
        if obs["errors"]:
            return (f"threads|raises-{obs['errors'][0]}", f"concurrent use raised {obs['errors']}")
        if obs["max_len"] > case["cap"] or obs["final_len"] > case["cap"]:
            return ("threads|capacity", f"len {max(obs['max_len'], obs['final_len'])} > capacity {case['cap']}")
        if obs["every_op_locked_once"]:
            v = oracle_sequence(case["cap"], obs["ops"], obs["outs"], what="threads")
            if v:
                return (v[0], "linearised history is not an LRU history: " + v[1])
        return None

    def nontrivial(self, case, obs):
        return obs["switches"] >= 2

    def tags(self, case, obs):
        return [f"threads{case['threads']}", "switches>=10" if obs["switches"] >= 10 else "switches<10"]

    def shrink_candidates(self, case):
        for k in ("threads", "per_thread"):
            if case[k] > 2:
                d = dict(case)
                d[k] = max(2, case[k] // 2)
                yield d


class DeferredStream(Stream):
    """A deterministic two-thread schedule: thread A obtains a listing from the thread-safe cache, is
    preempted, thread B mutates, thread A then consumes the listing. The listing must be the snapshot
    taken while the lock was held (model: the listing operation is one atomic step)."""

    name = "deferred"
    exhaustive = True

    def cases(self, ctx):
        muts = [["set", 0, 1], ["set", 1, 2], ["set", 2, 3], ["del", 0], ["get", 0]]
        out = []
        D = ctx.scale(2, 3)
        for cap in (1, 2, 3):
            for kind in ("keys", "values", "items", "iter"):
                for pre in itertools.product(muts[:3], repeat=2):
                    for n in range(0, D + 1):
                        for mid in itertools.product(muts, repeat=n):
                            out.append({"cap": cap, "kind": kind, "pre": [list(o) for o in pre], "mid": [list(o) for o in mid]})
        return out

    def impl(self, case):
        c = make_cache("ThreadSafeLRUCache", case["cap"])
        for op in case["pre"]:
            apply_op(c, op)
        try:
            it = {"keys": c.keys, "values": c.values, "items": c.items, "iter": c.__iter__}[case["kind"]]()
        except Exception as e:
            return {"listing": ["EXC", type(e).__name__]}
        for op in case["mid"]:
            apply_op(c, op)
        try:
            got = list(it)
        except Exception as e:
            return {"listing": ["EXC", type(e).__name__]}
        tag = {"keys": "keys", "iter": "keys", "values": "vals", "items": "pairs"}[case["kind"]]
        return {"listing": [tag, [list(x) if isinstance(x, tuple) else x for x in got]]}

    def line(self, case):
        return ["lru", case["cap"], case["pre"] + [[case["kind"]]]]

    def canon_model(self, case, mobs):
        if isinstance(mobs, dict) and "outs" in mobs:
            return {"listing": mobs["outs"][-1]}
        return mobs

    def oracle(self, case, obs):
        ref = Ref(case["cap"])
        for op in case["pre"]:
            ref.step(op)
        exp = ref.step([case["kind"]])
        got = obs["listing"]
        if got and got[0] == "EXC":
            return (f"deferred|{case['kind']}|raises-{got[1]}", f"consuming a {case['kind']}() listing after another thread's update raised {got[1]}")
        if got != exp:
            return (f"deferred|{case['kind']}|not-a-snapshot", f"listing {got} is not the contents when it was taken {exp}")
        return None

    def nontrivial(self, case, obs):
        return any(o[0] in ("set", "del") for o in case["mid"])

    def tags(self, case, obs):
        return [case["kind"], f"mid{len(case['mid'])}"]


class SoakStream(Stream):
    """Real threads, time-boxed: writers mutate while listers list continuously."""

    name = "soak"
    has_model = False

    def cases(self, ctx):
        rng = ctx.rng_for("soak")
        return [
            {"writers": rng.choice([1, 2, 4, 8]), "listers": rng.choice([1, 2, 4, 8]), "cap": rng.range(1, 4), "ms": ctx.scale(350, 1500)}
            for _ in range(ctx.scale(6, 20))
        ]

    def impl(self, case):
        import time

        c = make_cache("ThreadSafeLRUCache", case["cap"])
        errs: list = []
        stop = threading.Event()
        counts = {"list": 0, "write": 0, "bad": 0}

        def writer(s):
            i = 0
            while not stop.is_set():
                i += 1
                try:
                    c[(i * 7 + s) % 5] = i
                    if i % 3 == 0:
                        try:
                            del c[(i + s) % 5]
                        except KeyError:
                            pass
                    if i % 5 == 0:
                        c.get(i % 5)
                    counts["write"] += 1
                except Exception as e:
                    errs.append("writer:" + type(e).__name__)
                    return

        def lister():
            n = 0
            while not stop.is_set():
                n += 1
                try:
                    ks = list(c.keys())
                    ps = list(c.items())
                    vs = list(c.values())
                    if len(ks) > case["cap"] or len(set(ks)) != len(ks) or len(ps) > case["cap"] or len(vs) > case["cap"] or len(c) > case["cap"]:
                        counts["bad"] += 1
                    counts["list"] += 1
                except Exception as e:
                    errs.append("lister:" + type(e).__name__)
                    return

        old = sys.getswitchinterval()
        sys.setswitchinterval(1e-6)
        try:
            ths = [threading.Thread(target=writer, args=(s,)) for s in range(case["writers"])]
            ths += [threading.Thread(target=lister) for _ in range(case["listers"])]
            for t in ths:
                t.start()
            time.sleep(case["ms"] / 1000)
            stop.set()
            for t in ths:
                t.join(30)
        finally:
            sys.setswitchinterval(old)
        return {"errors": sorted(set(errs)), "bad_listings": counts["bad"], "listed": counts["list"] > 0, "wrote": counts["write"] > 0}

    def oracle(self, case, obs):
        if obs["errors"]:
            return (f"soak|raises-{obs['errors'][0].split(':')[1]}", f"concurrent listing/updating raised {obs['errors']}")
        if obs["bad_listings"]:
            return ("soak|capacity", "a listing exceeded the capacity or repeated a key")
        return None

    def nontrivial(self, case, obs):
        return obs["listed"] and obs["wrote"]

    def shrink_candidates(self, case):
        return []


def streams(ctx):
    return [SeqStream(), RandomStream(), DeferredStream(), ThreadStream(), SoakStream()]
