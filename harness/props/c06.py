"""C06 — the loop iteration limit bounds nested iteration.

A *case* is a nest: a small AST over the constructs that repeat or relocate a block
(for, tablerow, include [for|with], render [for|with], macro/call, if/unless/capture, marks), a pool of partial
templates, a loop_iteration_limit, a context_depth_limit and sync/async. It is turned into real Liquid source
and rendered by the real engine; the same nest (lengths already evaluated) goes to the Lean model
(`Model/LoopLimit.lean`).

What is observed on the implementation comes from the rendered text only. Every repeated block starts with a header
`[id,len;` and ends with `]`, where `len` is printed *by the engine* (`forloop.length`, `tablerowloop.length`, the item
of the bound array — every array `aN` holds N copies of the number N); marks print `M<id>;`. The bracket structure of
the output therefore gives, for every block execution, the true lengths of all enclosing repeating constructs, across
partial templates and macro calls, without any reference interpreter.
"""
from __future__ import annotations

import re

from ..core import Stream

ID = "C06"
LEAN_MODULE = "LiquidVerif.Props.C06"
TRANSLATE = False
RULE = (
    "A case is a nest + partial pool + a list of limits; every limit is rendered by the real engine and by the model. "
    "stream chains (exhaustive over its grid): every chain of <=2 (quick) / <=3 (thorough) repeating layers over {for, "
    "tablerow, include-for, include-with-array (depth 1; deeper in thorough), render-for} with a boundary {none, render, include, macro call} after each "
    "layer, lengths 0..12 at depth 1, {0,1,2,3,12} (quick) / 0..12 (thorough) at depth 2, {0,1,2,3,6} at depth 3 (thorough), "
    "limits product-1, product, product+1, each length and the partial products (1..200), sync and async alternating; "
    "stream random: random trees of dynamic depth <=4 with several children per block, if/unless/case/capture blocks, "
    "for-else, range/limit/offset/reversed sources, tablerow cols, acyclic partial pools, include/render in every binding "
    "mode, macro definitions/calls (in loops, before definition, shared through include), 2-4 limits from 1..200 biased to "
    "the products present (plus None and 0), context_depth_limit 30 or 4..10; stream recursion: self/mutually recursive "
    "include/render/macro-in-partial families under context_depth_limit 4..8; stream regress: the witnesses of the fixed "
    "carry defects and their neighbours. Non-trivial: the unlimited render reaches a block nested in >=2 repeating "
    "constructs of length >=2 (recursion: >=3 executions or a ContextDepthError), i.e. the limit decision depends on a product. "
    "stream modes (model LoopLimitModes): acyclic random nests with {% break %}/{% continue %} sprinkled over loop bodies, "
    "if blocks, macro bodies and partials, rendered in STRICT, LAX and WARN mode (WARN: the number of warnings is compared "
    "with the model's suppressed errors), output parsed leniently with resync markers, plus the stale-loop-stack witnesses; "
    "oracle: no executed block under a product > N in any mode, no error escapes LAX/WARN, a limit that nothing exceeds "
    "changes nothing."
)
TRUSTED_BASE = [
    "Lean 4.33 kernel; axioms subset of {propext, Classical.choice, Quot.sound}",
    "hand-written model LiquidVerif/Model/LoopLimit.lean of RenderContext.loop/raise_for_loop_limit/copy/loop_carry/extend and the "
    "for, tablerow, include, render, macro/call nodes (expressions pre-evaluated to lengths; output reduced to block executions)",
    "correspondence harness harness/props/c06.py + Driver/C06.lean: every case runs on the real engine and on the model; "
    "compared on (error class, sequence of block executions with their enclosing lengths, max product)",
    "the output-bracket observer: lengths are printed by the engine itself (forloop.length, tablerowloop.length, bound item)",
    "STRICT mode (default): the first error aborts the render; LAX/WARN and break/continue are covered by the second model "
    "LiquidVerif/Model/LoopLimitModes.lean (sentence 1 only), tied by the modes stream",
]
ASSUMPTIONS = [
    "the two-direction theorems (limit_decides, over_limit_raises, limit_only_aborts) are about STRICT mode; in LAX/WARN mode a suppressed LoopIterationLimitError truncates the node (C03/C08 govern) and only the bound (loop_product_bounded_all_modes) and lax_render_completes are proved; 'raises or suppresses' is checked dynamically (modes stream) only",
    "extends/block and inline snippets are not in the models; generators do not emit them",
    "iterable lengths are what LoopExpression.evaluate returns (C13 governs limit/offset arithmetic; limit:0 is avoided)",
    "loop_iteration_limit None or 0 both mean 'no limit' (falsy test in raise_for_loop_limit), modelled as written",
]
MANIFEST = {
    "technique": "Lean 4 proof (mutual functional induction over the render model with loop stack, carry, copy depth, scope depth and a ghost list of true enclosing lengths) + differential correspondence on generated nests",
    "text": "Theorems loop_product_bounded (a completed render never executed a block while the product of the true lengths of all enclosing repeating constructs exceeded N), limit_decides (when the unlimited render completes, the limited one completes with the same executions iff every execution's product is <= N, and otherwise raises LoopIterationLimitError), over_limit_raises, limit_only_aborts and ghost_erasure hold for every nest, depth and length (no bound), for the code after the fix: commits (tablerow / include-with-array / render-for carry their length; a for loop is pushed after its scope was entered). loop_product_bounded_all_modes extends the bound to LAX/WARN mode and to loops cut short by break/continue (second model LoopLimitModes); lax_render_completes; loop_product_bounded_limit_zero_counterexample names the falsy-zero deviation. The model is tied to the source by exhaustive chain enumeration and random nests of depth <=4, lengths 0..12, limits 1..200, sync and async.",
    "note": "Trusted: Lean kernel (axioms propext/Classical.choice/Quot.sound only), the hand model of the loop-limit mechanism, the correspondence harness and its output-bracket observer. STRICT mode only; break/continue, extends/block, snippets not modelled.",
}

N_ARR = 12
KNOWN_ERRORS = ("LoopIterationLimitError", "ContextDepthError", "TemplateNotFoundError", "DisabledTagError")

# ------------------------------------------------------------------------------------------------
# nest -> Liquid source


def _src_expr(n: int, src: str) -> str:
    if src == "range":
        return f"(1..{n})"
    if src == "limit" and n > 0:  # limit:0 is C13's known defect; never emitted
        return f"a{N_ARR} limit: {n}"
    if src == "offset":
        return f"a{N_ARR} offset: {N_ARR - n}"
    if src == "reversed":
        return f"a{n} reversed"
    return f"a{n}"


def to_source(nodes, rs=False, top=None) -> str:
    """rs: emit resync markers (modes stream): `~id;` after a loop / include / render tag, `!;` after every top-level
    node of the main template, `^;` after every top-level node of a partial — so that output cut short by break,
    continue or a suppressed error can still be parsed into nested block executions."""
    out = []
    for nd in nodes:
        k = nd[0]
        if k in ("break", "continue"):
            out.append("{% " + k + " %}")
            if top:
                out.append("!;" if top == "main" else "^;")
            continue
        if k == "mark":
            out.append(f"M{nd[1]};")
        elif k == "blk":
            _, kind, taken, body = nd
            inner = to_source(body, rs)
            if kind == "if":
                out.append("{% if " + ("t" if taken else "f") + " %}" + inner + "{% endif %}")
            elif kind == "unless":
                out.append("{% unless " + ("f" if taken else "t") + " %}" + inner + "{% endunless %}")
            elif kind == "case":
                out.append("{% case one %}{% when " + ("1" if taken else "2") + " %}" + inner + "{% endcase %}")
            else:  # capture: always executes its block once, re-emits the text in place
                out.append("{% capture cap %}" + inner + "{% endcapture %}{{ cap }}")
        elif k == "for":
            _, i, n, src, body, dflt = nd
            s = "{% for x" + str(i) + " in " + _src_expr(n, src) + " %}[" + str(i) + ",{{ forloop.length }};" + to_source(body, rs) + "]"
            if dflt:
                s += "{% else %}" + to_source(dflt, rs)
            out.append(s + "{% endfor %}" + (f"~{i};" if rs else ""))
        elif k == "tablerow":
            _, i, n, src, cols, body = nd
            c = f" cols: {cols}" if cols else ""
            out.append(
                "{% tablerow x" + str(i) + " in " + _src_expr(n, src) + c + " %}[" + str(i) + ",{{ tablerowloop.length }};" + to_source(body, rs) + "]{% endtablerow %}" + (f"~{i};" if rs else "")
            )
        elif k in ("include", "render"):
            _, site, name, mode, n = nd
            if mode == "plain":
                out.append("{% " + k + " '" + name + "', site: " + str(site) + ", it: '' %}")
            elif mode == "for":
                out.append("{% " + k + " '" + name + "' for a" + str(n) + " as it, site: " + str(site) + " %}")
            elif mode == "with_array":
                out.append("{% " + k + " '" + name + "' with a" + str(n) + " as it, site: " + str(site) + " %}")
            elif mode == "for_scalar":
                out.append("{% " + k + " '" + name + "' for w as it, site: " + str(site) + " %}")
            else:  # with_scalar
                out.append("{% " + k + " '" + name + "' with w as it, site: " + str(site) + " %}")
            if rs:
                out.append(f"~{site};")
        elif k == "macro":
            out.append("{% macro " + nd[1] + " %}" + to_source(nd[2], rs) + "{% endmacro %}")
        elif k == "call":
            out.append("{% call " + nd[1] + " %}")
        else:
            raise ValueError(nd)
        if rs and top:
            out.append("!;" if top == "main" else "^;")
    return "".join(out)


def partial_source(nodes, rs=False) -> str:
    return "[{{ site }},{{ it | join: '-' }}{% if it.first %}A{% endif %};" + to_source(nodes, rs, "partial" if rs else None) + "]"


# ------------------------------------------------------------------------------------------------
# nest -> model line


def to_model(nodes):
    out = []
    for nd in nodes:
        k = nd[0]
        if k == "mark":
            out.append(["mark", nd[1]])
        elif k == "blk":
            out.append(["blk", True if nd[1] == "capture" else bool(nd[2]), to_model(nd[3])])
        elif k == "for":
            out.append(["for", nd[1], nd[2], to_model(nd[4]), to_model(nd[5])])
        elif k == "tablerow":
            out.append(["tablerow", nd[1], nd[2], to_model(nd[5])])
        elif k == "include":
            # the include tag does not distinguish `for` from `with`: any array-like value loops
            out.append(["include", nd[1], nd[2], nd[4] if nd[3] in ("for", "with_array") else None])
        elif k == "render":
            # the render tag loops only with `for` and an array-like value
            out.append(["render", nd[1], nd[2], nd[4] if nd[3] == "for" else None])
        elif k == "macro":
            out.append(["macro", nd[1], to_model(nd[2])])
        elif k == "call":
            out.append(["call", nd[1]])
        elif k in ("break", "continue"):
            out.append([k])
    return out


def kinds_of(case) -> dict:
    """id -> construct kind, for signatures."""
    res = {}

    def walk(nodes):
        for nd in nodes:
            k = nd[0]
            if k == "blk":
                walk(nd[3])
            elif k == "for":
                res[nd[1]] = "for"
                walk(nd[4])
                walk(nd[5])
            elif k == "tablerow":
                res[nd[1]] = "tablerow"
                walk(nd[5])
            elif k in ("include", "render"):
                res[nd[1]] = k + ("-for" if nd[3] == "for" else "-with" if nd[3] == "with_array" else "")
            elif k == "macro":
                walk(nd[2])

    walk(case["main"])
    for _, body in case["templates"]:
        walk(body)
    return res


# ------------------------------------------------------------------------------------------------
# running the real engine

_TOKEN = re.compile(r"\[(\d*),([^;\[\]]*);|(\])|M(\d+);|~(\d+);|(\^;)|(!;)")
_DATA = None


def _data():
    global _DATA
    if _DATA is None:
        d = {f"a{n}": [n] * n for n in range(0, N_ARR + 1)}
        d.update({"t": True, "f": False, "w": "w", "one": 1})
        _DATA = d
    return _DATA


def make_template(case):
    """One Environment + parsed template per case; the limit is set on the environment between renders."""
    from liquid import CachingDictLoader, DictLoader, Environment
    from liquid.extra.tags import CallTag, MacroTag

    class Env(Environment):
        context_depth_limit = case["depth"]

    # DictLoader re-parses a partial on every include/render; the caching variant parses it once (same render path)
    loader = DictLoader if case.get("loader") == "dict" else CachingDictLoader
    rs = bool(case.get("resync"))
    kw = {}
    if case.get("mode") in ("lax", "warn"):
        from liquid import Mode

        kw["tolerance"] = Mode.LAX if case["mode"] == "lax" else Mode.WARN
    env = Env(loader=loader({name: partial_source(body, rs) for name, body in case["templates"]}), **kw)
    env.add_tag(MacroTag)
    env.add_tag(CallTag)
    return env, env.from_string(to_source(case["main"], rs, "main" if rs else None))


_LOOP = None


def _loop():
    """One event loop per worker process (asyncio.run would build and tear down a loop per render)."""
    global _LOOP
    if _LOOP is None or _LOOP.is_closed():
        import asyncio

        _LOOP = asyncio.new_event_loop()
    return _LOOP


def render_real(env, tpl, limit, is_async):
    """-> (result class | 'ok', output text)"""
    env.loop_iteration_limit = limit  # read as self.env.loop_iteration_limit by RenderContext
    try:
        if is_async:
            return "ok", _loop().run_until_complete(tpl.render_async(**_data()))
        return "ok", tpl.render(**_data())
    except BaseException as e:  # noqa: BLE001 - the class is the observation
        if isinstance(e, (KeyboardInterrupt, SystemExit)):
            raise
        return type(e).__name__, ""


def parse_output(text: str, kinds: dict, lenient: bool = False):
    """Bracket structure of the output -> events [[id, [enclosing lengths]]], structural problems, worst chain.
    lenient (modes stream): blocks may be cut short; resync markers and repeated ids close the stale brackets."""
    events = []
    stack = []  # (id, len or None)
    problems = []
    groups = [[]]  # per open bracket: list of (id, len) of child brackets in order
    worst = (0, [])

    def pop_through(ident):
        if any(i == ident for i, _ in stack):
            while stack:
                i, _ = stack.pop()
                groups.pop()
                if i == ident and not any(j == ident for j, _ in stack):
                    break

    for m in _TOKEN.finditer(text):
        if m.group(5) is not None:  # ~id;
            pop_through(int(m.group(5)))
            continue
        if m.group(6):  # ^;  back to the innermost open partial
            while stack and not kinds.get(stack[-1][0], "").startswith(("include", "render")):
                stack.pop()
                groups.pop()
            continue
        if m.group(7):  # !;  back to the top level of the main template
            while stack:
                stack.pop()
                groups.pop()
            continue
        if m.group(3):  # ]
            if not stack:
                problems.append("unbalanced")
                break
            stack.pop()
            kids = groups.pop()
            if not lenient:
                _check_groups(kids, problems)
            continue
        if m.group(4) is not None:
            i = int(m.group(4))
        else:
            if m.group(1) == "":
                problems.append("header-without-id")
                break
            i = int(m.group(1))
            ln = int(m.group(2)) if m.group(2).isdigit() else None
            if lenient:
                pop_through(i)  # a new iteration while the previous one was cut short by `continue`
            groups[-1].append((i, ln))
            stack.append((i, ln))
            groups.append([])
        lens = [l for _, l in stack if l is not None]
        events.append([i, lens])
        p = 1
        for l in lens:
            p *= l
        if p > worst[0]:
            worst = (p, [kinds.get(j, "?") for j, l in stack if l is not None])
    if stack and not problems:
        problems.append("unclosed")
    if not problems and not lenient:
        _check_groups(groups[0], problems)
    return events, problems, worst


def _check_groups(kids, problems):
    """Consecutive iterations of one construct come in multiples of the printed length."""
    i = 0
    while i < len(kids):
        j = i
        while j < len(kids) and kids[j] == kids[i]:
            j += 1
        ident, ln = kids[i]
        if ln is not None and (ln == 0 or (j - i) % ln != 0):
            problems.append(f"length-mismatch id={ident} printed={ln} iterations={j - i}")
        i = j


def prod(xs):
    p = 1
    for x in xs:
        p *= x
    return p


_P = 2305843009213693951  # 2^61 - 1, same digest as Driver/C06.lean


def digest(events) -> str:
    h = 7
    for i, lens in events:
        h = (h * 1000003 + i + 1) % _P
        h = (h * 1000003 + len(lens) + 1) % _P
        for l in lens:
            h = (h * 1000003 + l + 1) % _P
    return str(h)


def observe(case):
    kinds = kinds_of(case)
    try:
        env, tpl = make_template(case)
    except BaseException as e:  # noqa: BLE001
        if isinstance(e, (KeyboardInterrupt, SystemExit)):
            raise
        return {"runs": [], "problems": ["parse-error " + type(e).__name__], "unlimited": {"result": type(e).__name__, "n_events": 0, "max_product": 0, "worst_chain": [], "max_depth": 0, "nontrivial_depth": 0}}
    is_async = bool(case.get("async"))
    ures, utext = render_real(env, tpl, None, is_async)
    uevents, problems, uworst = parse_output(utext, kinds)
    runs = []
    for N in case["limits"]:
        res, text = render_real(env, tpl, N, is_async)
        events, probs, worst = parse_output(text, kinds)
        problems += probs
        runs.append({"limit": N, "result": res, "n": len(events), "digest": digest(events), "head": "|".join(f"{i}:" + ",".join(map(str, ls)) for i, ls in events[:8]),
                     "max_product": worst[0] if res == "ok" else 0, "worst_chain": worst[1], "same_as_unlimited": events == uevents})
    return {
        "runs": runs,
        "problems": problems,
        "unlimited": {"result": ures, "n_events": len(uevents), "max_product": uworst[0], "worst_chain": uworst[1],
                      "max_depth": max((len(e[1]) for e in uevents), default=0),
                      "nontrivial_depth": max((sum(1 for l in e[1] if l >= 2) for e in uevents), default=0)},
    }


def direct_oracle(case, obs, what):
    """The property, stated on what the real engine printed."""
    un = obs["unlimited"]
    if obs["problems"]:
        return (f"{what}|observer|{obs['problems'][0].split(' ')[0]}", f"output bracket structure: {obs['problems'][:3]}")
    if un["result"] != "ok" and un["result"] not in KNOWN_ERRORS:
        return (f"{what}|unexpected|{un['result']}", f"unlimited render raised {un['result']}")
    if un["result"] == "LoopIterationLimitError":
        return (f"{what}|raised-without-limit", "LoopIterationLimitError with no limit configured")
    for run in obs["runs"]:
        N = run["limit"]
        res = run["result"]
        if res != "ok" and res not in KNOWN_ERRORS:
            return (f"{what}|unexpected|{res}", f"render raised {res}")
        if not N:  # None or 0: no limit configured
            if res != un["result"] or (res == "ok" and not run["same_as_unlimited"]):
                return (f"{what}|no-limit-differs", f"limit {N!r} behaves differently from no limit: {res} vs {un['result']}")
            continue
        if res == "ok":
            # a render that completes never executed a block while the product of enclosing lengths exceeded N
            if run["max_product"] > N:
                chain = ">".join(run["worst_chain"])
                return (f"{what}|over|{chain}", f"completed under limit {N} but a block ran under a product of {run['max_product']} (enclosing {chain})")
            if un["result"] != "ok" or not run["same_as_unlimited"]:
                return (f"{what}|limit-altered-output", f"render under limit {N} completed but differs from the unlimited one ({un['result']})")
        elif res == "LoopIterationLimitError":
            # ... and it raises only when some reached nest multiplies to more than N
            if un["result"] == "ok" and un["max_product"] <= N:
                return (f"{what}|spurious-raise", f"raised under limit {N} but no executed block is nested deeper than product {un['max_product']}")
        elif un["result"] != res:  # another error class: the limit must not have changed it
            return (f"{what}|limit-altered-error", f"{res} with limit {N}, {un['result']} without")
    return None


class NestStream(Stream):
    parallel = True

    def impl(self, case):
        return observe(case)

    def line(self, case):
        return ["c06", case["limits"], case["depth"], [[n, to_model(b)] for n, b in case["templates"]], to_model(case["main"])]

    def compare_view(self, case, obs):
        # (error class, every block execution with its enclosing lengths — as count + digest + first 8 —, max product)
        return [{"result": r["result"], "n": r["n"], "digest": r["digest"], "head": r["head"], "max_product": r["max_product"]} for r in obs["runs"]]

    def canon_model(self, case, mobs):
        if isinstance(mobs, dict) and "runs" in mobs:
            return [{"result": r["result"], "n": r["n"], "digest": r["digest"], "head": r["head"], "max_product": r["max"]} for r in mobs["runs"]]
        return mobs

    def oracle(self, case, obs):
        if "unlimited" not in obs:  # a model observation handed in by the verdict logic
            return None
        return direct_oracle(case, obs, self.name)

    def nontrivial(self, case, obs):
        return obs["unlimited"]["nontrivial_depth"] >= 2

    def tags(self, case, obs):
        un = obs["unlimited"]
        t = [f"dyn-depth{un['max_depth']}", "async" if case.get("async") else "sync", f"limits{len(case['limits'])}"]
        for run in obs["runs"]:
            t.append("res:" + run["result"])
            N = run["limit"]
            if not N:
                t.append("limit:none")
            elif un["result"] == "ok":
                p = un["max_product"]
                t.append("limit:=product" if p == N else "limit:product-1" if p == N + 1 else "limit<product" if p > N else "limit>product")
        if un["result"] == "ok" and un["worst_chain"]:
            t.append("chain:" + ">".join(un["worst_chain"]))
        return t


# ------------------------------------------------------------------------------------------------
# generators


class Ids:
    def __init__(self):
        self.n = 0

    def new(self):
        self.n += 1
        return self.n


REPEATING = ("for", "tablerow", "include-for", "include-with", "render-for")
BOUNDARIES = ("none", "render", "include", "call")


def build_chain(layers, boundaries, limits, depth=30, is_async=False, srcs=None):
    """layers: [(kind, n)] outermost first; boundaries[i] sits between layer i and layer i+1 (len = len(layers)-1 … or
    len(layers) to also put one between the last layer and the mark)."""
    ids = Ids()
    templates = []
    macros = 0

    def inner(i):
        """nodes for layers[i:]"""
        if i == len(layers):
            return [["mark", ids.new()]]
        kind, n = layers[i]
        rest = wrap(i)
        if kind == "for":
            return [["for", ids.new(), n, (srcs or {}).get(i, "array"), rest, []]]
        if kind == "tablerow":
            return [["tablerow", ids.new(), n, (srcs or {}).get(i, "array"), None, rest]]
        name = f"p{len(templates)}"
        templates.append([name, None])
        slot = len(templates) - 1
        templates[slot][1] = rest
        tag, mode = {"include-for": ("include", "for"), "include-with": ("include", "with_array"), "render-for": ("render", "for")}[kind]
        return [[tag, ids.new(), name, mode, n]]

    def wrap(i):
        """body of layer i = boundary i applied to layers[i+1:]"""
        nonlocal macros
        b = boundaries[i] if i < len(boundaries) else "none"
        if b == "none":
            return inner(i + 1)
        if b in ("render", "include"):
            name = f"p{len(templates)}"
            templates.append([name, None])
            slot = len(templates) - 1
            templates[slot][1] = inner(i + 1)
            return [[b, ids.new(), name, "plain", 0]]
        macros += 1
        m = f"m{macros}"
        return [["macro", m, inner(i + 1)], ["call", m]]

    main = inner(0)
    return {"limits": list(limits) if isinstance(limits, (list, tuple)) else [limits], "depth": depth, "async": is_async, "templates": templates, "main": main}


def chain_limits(lengths):
    p = prod(lengths)
    cand = {p - 1, p, p + 1}
    cand |= set(lengths)
    if len(lengths) > 1:
        cand.add(prod(lengths[:-1]))
        cand.add(prod(lengths[1:]))
    return sorted(c for c in cand if 1 <= c <= 200)


class ChainStream(NestStream):
    name = "chains"
    exhaustive = True

    def cases(self, ctx):
        import itertools

        out = []
        thorough = ctx.tier == "thorough"
        grid1 = list(range(0, 13))
        grid2 = list(range(0, 13)) if thorough else [0, 1, 2, 3, 12]
        grid3 = [0, 1, 2, 3, 6] if thorough else []  # depth 3: no boundary between the innermost layer and the mark
        k = 0
        for d, grid in ((1, grid1), (2, grid2), (3, grid3)):
            if not grid:
                continue
            # include-with-array takes the same branch as include-for (the tag does not distinguish): all depths only in
            # the thorough tier, depth 1 always
            kindset = REPEATING if (d == 1 or (d == 2 and thorough)) else ("for", "tablerow", "include-for", "render-for")
            for kinds in itertools.product(kindset, repeat=d):
                bsets = itertools.product(BOUNDARIES, repeat=d) if d <= 2 else [b + ("none",) for b in itertools.product(("none", "render", "call"), repeat=2)]
                for bs in bsets:
                    # an `include` below a render boundary, a render-for layer or a macro call is a disabled tag
                    # (DisabledTagError before anything repeats): one representative length vector only
                    in_copy = disabled = False
                    for i in range(d):
                        if kinds[i].startswith("include") and in_copy:
                            disabled = True
                        if kinds[i] == "render-for" or bs[i] in ("render", "call"):
                            in_copy = True
                        if bs[i] == "include" and (in_copy or kinds[i] == "render-for"):
                            disabled = True
                    for lens in itertools.product(grid, repeat=d):
                        if disabled and any(l != 2 for l in lens):
                            continue
                        lims = chain_limits(list(lens)) or [1]
                        if d == 3:
                            lims = lims[:1] + lims[-2:]
                        k += 1
                        out.append(build_chain(list(zip(kinds, lens)), list(bs), lims, is_async=bool(k % 2)))
        return out


def node_cost(case):
    """Upper estimate of the number of block executions of the unlimited render (generator sizing only)."""
    tpl = {n: b for n, b in case["templates"]}
    macros = {}

    def collect(nodes):
        for nd in nodes:
            if nd[0] == "macro":
                macros[nd[1]] = nd[2]
                collect(nd[2])
            elif nd[0] == "blk":
                collect(nd[3])
            elif nd[0] == "for":
                collect(nd[4])
                collect(nd[5])
            elif nd[0] == "tablerow":
                collect(nd[5])

    collect(case["main"])
    for _, b in case["templates"]:
        collect(b)
    memo = {}

    def cost_nodes(nodes, d):
        return sum(cost(nd, d) for nd in nodes)

    def cost_named(table, name, d):
        if d > 12 or name not in table:
            return 1
        key = (id(table), name)
        if key not in memo:
            memo[key] = 10**9  # a cycle: treat as unbounded
            memo[key] = 1 + cost_nodes(table[name], d + 1)
        return memo[key]

    def cost(nd, d):
        k = nd[0]
        if k == "mark":
            return 1
        if k == "blk":
            return cost_nodes(nd[3], d)
        if k == "for":
            return nd[2] * (1 + cost_nodes(nd[4], d)) + cost_nodes(nd[5], d)
        if k == "tablerow":
            return nd[2] * (1 + cost_nodes(nd[5], d))
        if k in ("include", "render"):
            reps = nd[4] if (nd[3] == "for" or (k == "include" and nd[3] == "with_array")) else 1
            return reps * cost_named(tpl, nd[2], d)
        if k == "call":
            return cost_named(macros, nd[1], d)
        return 0

    return cost_nodes(case["main"], 0)


def gen_random_case(rng, is_async):
    ids = Ids()
    # a small set of "interesting" lengths so that products land near the limit
    palette = [rng.range(0, 12) for _ in range(3)] + [rng.choice([0, 1, 2, 2, 3, 3, 4, 5, 6, 7, 10, 12])]
    templates = []  # [name, body, depth]
    n_tpl = rng.range(0, 4)

    def length():
        return rng.choice(palette) if rng.chance(80) else rng.range(0, 12)

    def src_for(n):
        s = rng.choice(["array", "array", "array", "range", "limit", "offset", "reversed"])
        return "array" if (s == "limit" and n == 0) else s

    def gen_block(budget, in_copy, macros, width):
        """A list of nodes whose repeating depth (through partials and macro bodies) is <= budget."""
        nodes = []
        for _ in range(rng.range(1, width)):
            r = rng.below(100)
            if budget == 0 or r < 22:
                nodes.append(["mark", ids.new()])
            elif r < 40:
                n = length()
                dflt = [["mark", ids.new()]] if rng.chance(25) else []
                nodes.append(["for", ids.new(), n, src_for(n), gen_block(budget - 1, in_copy, macros, 3), dflt])
            elif r < 54:
                n = length()
                s = rng.choice(["array", "array", "range", "limit"])
                nodes.append(["tablerow", ids.new(), n, "array" if (s == "limit" and n == 0) else s, rng.choice([None, None, 1, 2, 3]), gen_block(budget - 1, in_copy, macros, 2)])
            elif r < 62:
                nodes.append(["blk", rng.choice(["if", "unless", "case", "capture"]), rng.chance(80), gen_block(budget, in_copy, macros, 2)])
            elif r < 84 and templates:
                tag = "render" if (in_copy and rng.chance(92)) or rng.chance(50) else "include"
                modes = ["plain", "plain", "for", "for", "for", "with_array", "with_scalar"] + (["for_scalar"] if tag == "render" else [])
                mode = rng.choice(modes)
                repeats = mode == "for" or (tag == "include" and mode == "with_array")
                ok = [t for t in templates if t[2] <= budget - (1 if repeats else 0)]
                if not ok:
                    nodes.append(["mark", ids.new()])
                    continue
                t = rng.choice(ok)
                name = t[0] if rng.chance(97) else "missing"
                nodes.append([tag, ids.new(), name, mode, length() if mode in ("for", "with_array") else 0])
            elif r < 92:
                # macro tables belong to one context: a macro defined in a loop body is visible in later iterations and
                # after the loop; `include` shares the table ("ms" is defined by one template and called by others),
                # `render`/`call` start with an empty one
                m = "ms" if rng.chance(15) else f"m{ids.new()}"
                body = gen_block(max(budget - 1, 0), True, [], 2)
                if rng.chance(15):
                    nodes.insert(0, ["call", m])  # before the definition: defined only from the second iteration on
                nodes.append(["macro", m, body])
                macros.append(m)
                if rng.chance(70):
                    nodes.append(["call", m])
            elif macros or rng.chance(30):
                nodes.append(["call", rng.choice(macros + ["ms"]) if rng.chance(95) else "undefined_macro"])
            else:
                nodes.append(["mark", ids.new()])
        return nodes

    # templates bottom-up: template i may reference templates created before it (acyclic)
    for i in range(n_tpl):
        d = rng.range(0, 3)
        body = gen_block(d, rng.chance(50), [], 3)
        templates.append([f"p{i}", body, d])
    # a macro body / partial can be deeper than declared if it calls a deep macro: budgets are per generated block,
    # and macro bodies are generated with the budget of the place of definition, calls only happen at that level or deeper.
    main = gen_block(4, False, [], 4)
    case = {"limits": [], "depth": 30 if rng.chance(85) else rng.range(4, 10), "async": is_async,
            "templates": [[n, b] for n, b, _ in templates], "main": main}
    # choose the limits near products that can occur
    prods = sorted({prod(rng.sample([p for p in palette if p > 0] or [1], rng.range(1, 4))) for _ in range(4)})
    for _ in range(rng.range(2, 4)):
        r = rng.below(100)
        if r < 4:
            lim = None
        elif r < 7:
            lim = 0
        elif r < 75:
            lim = min(200, max(1, rng.choice(prods) + rng.choice([-1, 0, 0, 1, 2, -2])))
        else:
            lim = rng.range(1, 200)
        if lim not in case["limits"]:
            case["limits"].append(lim)
    return case


class RandomStream(NestStream):
    name = "random"

    def cases(self, ctx):
        rng = ctx.rng_for("random")
        n = ctx.scale(1200, 12000)
        out = []
        while len(out) < n:
            c = gen_random_case(rng, is_async=bool(len(out) % 3 == 0))
            if node_cost(c) <= 12000:
                if len(out) % 4 == 1:
                    c["loader"] = "dict"
                out.append(c)
        return out


class RecursionStream(NestStream):
    """Recursive partial families: termination is by the context depth limits, which the model carries."""

    name = "recursion"

    def cases(self, ctx):
        rng = ctx.rng_for("recursion")
        out = []
        n = ctx.scale(300, 3000)
        while len(out) < n:
            ids = Ids()
            depth = rng.range(4, 8)

            def ref(names, in_copy):
                tag = "render" if in_copy or rng.chance(50) else "include"
                mode = rng.choice(["plain", "plain", "for", "with_array"])
                return [tag, ids.new(), rng.choice(names), mode, rng.choice([1, 2, 2, 0]) if mode != "plain" else 0]

            names = ["p0", "p1"][: rng.range(1, 2)]
            templates = []
            for nm in names:
                body = [["mark", ids.new()]]
                inner = [ref(names, False)]
                w = rng.below(4)
                if w == 0:
                    inner = [["for", ids.new(), rng.choice([1, 2, 2]), "array", inner, []]]
                elif w == 1:
                    inner = [["tablerow", ids.new(), rng.choice([1, 2]), "array", None, inner]]
                elif w == 2:
                    m = f"m{ids.new()}"
                    inner = [["macro", m, [ref(names, True)]], ["call", m]]
                body += inner
                if rng.chance(30):
                    body.append(["mark", ids.new()])
                templates.append([nm, body])
            main = [ref(names, False), ["mark", ids.new()]]
            lims = rng.sample([None, 1, 2, 3, 4, 8, 16, 64, 200], 3)
            c = {"limits": lims, "depth": depth, "async": bool(len(out) % 2), "loader": "dict", "templates": templates, "main": main}
            out.append(c)
        return out

    def nontrivial(self, case, obs):
        return obs["unlimited"]["n_events"] >= 3 or obs["unlimited"]["result"] == "ContextDepthError"


def regress_cases():
    """Witnesses of the carry defects of the unchanged tree (fixed on fix-C06) and their neighbours."""
    out = []
    for a in (False, True):
        for outer in ("tablerow", "include-for", "include-with", "render-for"):
            for b in BOUNDARIES:
                for innerk in ("for", "tablerow", "render-for"):
                    out.append(build_chain([(outer, 5), (innerk, 5)], [b], [19, 20, 24, 25], is_async=a))
        out.append(build_chain([("for", 5), ("for", 5)], ["none"], [20], is_async=a))
        out.append(build_chain([("for", 5), ("for", 5)], ["none"], [25], is_async=a))
        out.append(build_chain([("for", 5), ("for", 0), ("for", 12)], ["none", "none"], [4], is_async=a))
        out.append(build_chain([("tablerow", 12), ("tablerow", 12), ("tablerow", 2)], ["none", "none"], [200], is_async=a))
    return out


class RegressStream(NestStream):
    name = "regress"
    exhaustive = True
    parallel = False

    def cases(self, ctx):
        return regress_cases()


# ------------------------------------------------------------------------------------------------
# deepening round: error modes, break / continue (model LoopLimitModes, driver command c06x)


def inject_interrupts(rng, nodes, in_loop):
    """Sprinkle {% break %} / {% continue %} (bare or inside an if block) over a nest, mostly inside loops."""
    out = []
    for nd in nodes:
        k = nd[0]
        if k == "blk":
            # a capture block whose body is cut short discards what was written: executions would be unobservable
            nd = ["blk", "if" if nd[1] == "capture" else nd[1], True if nd[1] == "capture" else nd[2], inject_interrupts(rng, nd[3], in_loop)]
        elif k == "for":
            nd = nd[:4] + [inject_interrupts(rng, nd[4], True), inject_interrupts(rng, nd[5], in_loop)]
        elif k == "tablerow":
            nd = nd[:5] + [inject_interrupts(rng, nd[5], True)]
        elif k == "macro":
            nd = [nd[0], nd[1], inject_interrupts(rng, nd[2], rng.chance(50))]
        out.append(nd)
        if rng.chance(14 if in_loop else 3):
            it = [rng.choice(["break", "continue"])]
            out.append(it if rng.chance(50) else ["blk", "if", rng.chance(70), [it]])
    return out


def modes_oracle(case, obs, what):
    if obs["problems"]:
        return (f"{what}|observer|{obs['problems'][0].split(' ')[0]}", f"output structure: {obs['problems'][:3]}")
    allowed = KNOWN_ERRORS + ("LiquidSyntaxError",)
    for run in obs["runs"]:
        N, res = run["limit"], run["result"]
        if res != "ok" and res not in allowed:
            return (f"{what}|unexpected|{res}", f"render raised {res}")
        if case["mode"] != "strict" and res != "ok" and not (res == "ContextDepthError" and case["depth"] < 4):
            return (f"{what}|{case['mode']}-raised|{res}", f"{res} escaped a {case['mode']} render")
        if not N and res == "LoopIterationLimitError":
            return (f"{what}|raised-without-limit", "LoopIterationLimitError with no limit configured")
        # sentence 1, every mode: whatever was executed ran under a product <= N
        if N and run["max_product"] > N:
            chain = ">".join(run["worst_chain"])
            return (f"{what}|over|{case['mode']}|{chain}", f"limit {N}: a block ran under a product of {run['max_product']} (enclosing {chain}) in {case['mode']} mode")
        # the limit must not interfere when nothing the unlimited render executes is nested deeper than N
        un = obs["unlimited"]
        if N and un.get("result") == "ok" and un["max_product"] <= N and not run["same_as_unlimited"]:
            return (f"{what}|spurious|{case['mode']}", f"limit {N} changed a {case['mode']} render whose deepest block runs under product {un['max_product']}")
    return None


class ModesStream(NestStream):
    """STRICT / LAX / WARN renders of acyclic nests with break and continue; output parsed leniently."""

    name = "modes"

    def cases(self, ctx):
        rng = ctx.rng_for("modes")
        out = regress_modes_cases()
        n = ctx.scale(900, 9000)
        while len(out) < n:
            c = gen_random_case(rng, is_async=bool(len(out) % 3 == 0))
            if node_cost(c) > 6000:
                continue
            c["main"] = inject_interrupts(rng, c["main"], False)
            c["templates"] = [[nm, inject_interrupts(rng, b, rng.chance(30))] for nm, b in c["templates"]]
            c["mode"] = rng.choice(["strict", "lax", "lax", "warn"])
            c["resync"] = True
            out.append(c)
        return out

    def impl(self, case):
        import warnings

        from liquid.exceptions import LiquidWarning

        kinds = kinds_of(case)
        try:
            env, tpl = make_template(case)
        except BaseException as e:  # noqa: BLE001
            if isinstance(e, (KeyboardInterrupt, SystemExit)):
                raise
            return {"runs": [], "problems": ["parse-error " + type(e).__name__], "unlimited": {"nontrivial_depth": 0, "max_depth": 0}}
        runs, problems, depth = [], [], 0
        with warnings.catch_warnings(record=True):
            warnings.simplefilter("always")
            ures, utext = render_real(env, tpl, None, bool(case.get("async")))
        uevents, _, uworst = parse_output(utext, kinds, lenient=True)
        for N in case["limits"]:
            with warnings.catch_warnings(record=True) as ws:
                warnings.simplefilter("always")
                res, text = render_real(env, tpl, N, bool(case.get("async")))
            events, probs, worst = parse_output(text, kinds, lenient=True)
            problems += probs
            depth = max(depth, max((sum(1 for l in e[1] if l >= 2) for e in events), default=0))
            runs.append({"limit": N, "result": res, "n": len(events), "digest": digest(events),
                         "head": "|".join(f"{i}:" + ",".join(map(str, ls)) for i, ls in events[:8]),
                         "max_product": worst[0] if res == "ok" else 0, "worst_chain": worst[1],
                         "suppressed": sum(1 for w in ws if issubclass(w.category, LiquidWarning)) if case["mode"] == "warn" else None,
                         "same_as_unlimited": res == ures and events == uevents})
        return {"runs": runs, "problems": problems, "unlimited": {"nontrivial_depth": depth, "max_depth": depth, "result": ures, "max_product": uworst[0]}}

    def line(self, case):
        return ["c06x", case["mode"] == "strict", case["limits"], case["depth"], [[n, to_model(b)] for n, b in case["templates"]], to_model(case["main"])]

    def compare_view(self, case, obs):
        return [{"result": r["result"], "n": r["n"], "digest": r["digest"], "head": r["head"], "max_product": r["max_product"], "suppressed": r["suppressed"]} for r in obs["runs"]]

    def canon_model(self, case, mobs):
        if isinstance(mobs, dict) and "runs" in mobs:
            return [{"result": r["result"], "n": r["n"], "digest": r["digest"], "head": r["head"], "max_product": r["max"],
                     "suppressed": len(r["suppressed"]) if case["mode"] == "warn" else None} for r in mobs["runs"]]
        return mobs

    def oracle(self, case, obs):
        if "unlimited" not in obs:
            return None
        return modes_oracle(case, obs, self.name)

    def nontrivial(self, case, obs):
        return obs["unlimited"]["nontrivial_depth"] >= 2

    def tags(self, case, obs):
        t = ["mode:" + case["mode"]]
        for r in obs["runs"]:
            t.append("res:" + r["result"])
            if r.get("suppressed"):
                t.append("suppressed>0")
        return t


def regress_modes_cases():
    """The stale-loop-stack witness (fixed on fix2-C06): in LAX/WARN mode a ContextDepthError raised by `extend` inside
    RenderContext.loop left the ForLoop on the stack, so later loops were over-counted (spurious suppressed
    LoopIterationLimitError). Depth 6: the third nested for cannot extend the scope."""
    out = []
    for mode in ("lax", "warn", "strict"):
        for a, d, e in ((2, 3, 2), (3, 2, 2), (2, 2, 2), (4, 3, 1)):
            main = [
                ["for", 1, a, "range", [["for", 2, 1, "range", [["for", 3, 3, "range", [["mark", 4]], []]], []]], []],
                ["for", 5, d, "range", [["mark", 6], ["for", 7, e, "range", [["mark", 8]], []]], []],
            ]
            out.append({"limits": [a * 3, d * e, d * e + 1, a * d * e], "depth": 6, "async": False, "mode": mode, "resync": True,
                        "loader": "dict", "templates": [], "main": main})
    return out


def streams(ctx):
    return [RegressStream(), ChainStream(), RandomStream(), RecursionStream(), ModesStream()]
