"""C25 — built-in filters honour their documented contracts
(liquid/builtin/filters/{string,array,math,misc}.py, liquid/utils/text.py, liquid/filter.py)."""
from __future__ import annotations

import itertools
import math
from fractions import Fraction

from ..core import Stream

ID = "C25"
LEAN_MODULE = "LiquidVerif.Props.C25"
TRANSLATE = False
RULE = (
    "every case is a left value, a chain of one or two filters and their positional arguments, drawn from typed "
    "value pools (strings over a small alphabet incl. whitespace, ints incl. negative/2^63/10^30, floats incl. "
    "ties, 2^53 and 17-digit values, numeric strings, lists of mixed values and of dicts, dicts, nil, booleans, "
    "undefined); each case is run (a) by calling the registered filter function, (b) by rendering "
    "`{{ left | f: a0, a1 | vcap }}` where `vcap` captures the filter's return value, and (c) on the Lean model. "
    "Streams text/splitjoin/array/slice/default/math/trunc enumerate their pools completely (exhaustive for the "
    "small sizes stated in notes/C25.md); stream random draws larger values; stream prim samples the modelled "
    "CPython primitives (float repr, nearest double, int()/float() syntax). Cases the model marks `unmodelled` "
    "(list/dict repr, inf/nan spellings, bool operands of math filters, non-string attr) are removed from the "
    "differential streams before they run and counted in the distribution. Non-trivial: the filter changed its "
    "input, raised, or (math) at least one operand is not a small non-negative int."
)
TRUSTED_BASE = [
    "Lean 4.33 kernel; axioms subset of {propext, Classical.choice, Quot.sound}",
    "hand-written models LiquidVerif/Model/{PyStr,Dec,Filters}.lean of liquid/builtin/filters/{string,array,math,misc}.py, liquid/utils/text.py, liquid/filter.py",
    "correspondence harness harness/props/c25.py + Driver/C25.lean (differential: every case runs on the real filter function, through a rendered template, and on the model)",
    "CPython primitives modelled, not verified: str.upper/lower/strip/split on ASCII, int()/float() literal syntax, repr(float) (shortest round-trip), nearest-double rounding of float(Decimal)/int->float/true division, decimal context (prec 28, half-even), list.sort raising TypeError on any num/str mixture — each sampled by a stream (text, prim, math, array)",
    "Python == on the value universe is modelled as equality of a canonical serialisation (True == 1 == 1.0, None == Undefined, dicts order-insensitive)",
]
MANIFEST = {
    "technique": "Lean 4 proof (one contract theorem per filter family over faithful models of the filter functions, their decorators and the numeric tower) + differential correspondence through the real filter functions and through rendered templates",
    "text": "Theorems in Props/C25.lean state, for all inputs of the model with no size bound: size; ASCII case/strip characterisations; split|join round trip (partial: sep != ' ' and value != sep, counter-examples kernel-decided); reverse/sort/sort_natural/uniq/compact/concat/map/where/reject membership (List.Perm / sublist), order and first-occurrence; slice/first/last selection; truncate (unchanged when len <= n, else ends with the ellipsis and len = max n |ellipsis|, after the fix) and truncatewords; integer plus/minus/times exact, divided_by = Int.fdiv, modulo = Int.fmod with the division law; ceil/floor/round characterised on exact rationals; at_least/at_most; decimal add/sub/mul exact when the exact result has <= 28 digits; default. The model is tied to the code by exhaustive small-pool and random differential streams.",
    "note": "Trusted: Lean kernel (axioms propext/Classical.choice/Quot.sound only), the hand models, the harness, CPython primitives as listed in the trusted base (ASCII case mapping; float repr and nearest-double rounding are modelled and sampled, not proved).",
}
ASSUMPTIONS = [
    "case and whitespace filters are modelled on ASCII (str.upper/lower/capitalize/strip on code points < 128); generators stay ASCII",
    "floats are finite; inf/nan and values whose result overflows binary64 are outside the model (C02 covers the exceptions they cause)",
    "repr of lists/dicts (a list or dict converted to a string by a string filter or join) is outside the model",
    "decimal results are exact only up to the 28-digit context; the one double-rounding consequence is a listed known finding",
]

LIQUID_ERRORS = ("FilterArgumentError", "FilterValueError", "FilterError", "FilterItemTypeError", "LiquidTypeError", "LiquidValueError")

# ------------------------------------------------------------------------------------------------
# wire format (same as Driver/C25.lean)
U = {"u": 1}


def I(n):
    return {"i": str(n)}


def F(x: float):
    n, d = x.as_integer_ratio()
    return {"f": [str(n), str(d)]}


def D(**kv):
    return {"d": [[k, v] for k, v in kv.items()]}


def enc(o):
    from liquid import Undefined

    if o is None or type(o).__name__ == "_Null":
        return None
    if isinstance(o, bool):
        return o
    if isinstance(o, int):
        return I(o)
    if isinstance(o, float):
        if math.isnan(o) or math.isinf(o):
            return {"f": repr(o)}
        return F(o)
    if isinstance(o, str):
        return str(o)
    if isinstance(o, Undefined):
        return U
    if isinstance(o, (list, tuple, range)):
        return [enc(x) for x in o]
    if isinstance(o, dict):
        return {"d": [[k if isinstance(k, str) else repr(k), enc(v)] for k, v in o.items()]}
    return {"other": type(o).__name__}


def dec(j):
    from liquid import Undefined

    if j is None or isinstance(j, (bool, str)):
        return j
    if isinstance(j, list):
        return [dec(x) for x in j]
    if "i" in j:
        return int(j["i"])
    if "f" in j:
        return int(j["f"][0]) / int(j["f"][1]) if j["f"][1] != "1" else float(int(j["f"][0]))
    if "d" in j:
        return {k: dec(v) for k, v in j["d"]}
    if "u" in j:
        return Undefined("nosuch")
    raise ValueError(j)


def has_undef(j):
    return isinstance(j, dict) and "u" in j


# ------------------------------------------------------------------------------------------------
# running the real code
_STATE = None


def _state():
    global _STATE
    if _STATE is None:
        from liquid import Environment

        env = Environment()
        box: list = []

        def vcap(val, *a, **k):
            box.append(val)
            return ""

        env.add_filter("vcap", vcap)
        _STATE = (env, box, {})
    return _STATE


def _outcome(thunk):
    from liquid.exceptions import LiquidError

    try:
        return {"ok": enc(thunk())}
    except LiquidError as e:
        n = type(e).__name__
        # LiquidTypeError is what Filter.evaluate makes of a stray TypeError; same class for our purpose
        return {"err": n}
    except Exception as e:  # a non-Liquid exception escaped (C02's subject); class only
        return {"err": "non-liquid:" + type(e).__name__}


def call_direct(name, left, args):
    env = _state()[0]
    kw = {}
    fname = name
    if name == "default_allow_false":
        fname = "default"
        kw["allow_false"] = True
    f = env.filters[fname]
    if getattr(f, "with_environment", False):
        kw["environment"] = env
    return f(left, *args, **kw)


def run_direct(left_j, chain):
    """Every stage's outcome, calling the registered filter functions directly."""
    outs = []
    cur = dec(left_j)
    for name, args in chain:
        a = [dec(x) for x in args]
        o = _outcome(lambda: call_direct(name, cur, a))
        outs.append(o)
        if "err" in o:
            break
        # feed the *actual* Python object on, not its encoding
        cur = call_direct(name, cur, a)
    return outs


def run_template(left_j, chain):
    """Final outcome of `{{ left | f: a00, a01 | g: a10 | vcap }}`."""
    env, box, cache = _state()
    parts = []
    data = {}
    if not has_undef(left_j):
        data["left"] = dec(left_j)
    for si, (name, args) in enumerate(chain):
        names = []
        for ai, a in enumerate(args):
            v = f"a{si}_{ai}"
            names.append(v)
            if not has_undef(a):
                data[v] = dec(a)
        if name == "default_allow_false":
            parts.append("default: " + ", ".join(names + ["allow_false: true"]))
        else:
            parts.append(name + (": " + ", ".join(names) if names else ""))
    src = "{{ left | " + " | ".join(parts) + " | vcap }}"
    t = cache.get(src)
    if t is None:
        t = cache[src] = env.from_string(src)
    del box[:]

    def go():
        t.render(**data)
        return box[-1]

    return _outcome(go)


# ------------------------------------------------------------------------------------------------
# the property, stated directly on observations (independent of the Lean model)
def is_int(j):
    return isinstance(j, dict) and "i" in j


def is_flt(j):
    return isinstance(j, dict) and "f" in j


def is_str(j):
    return isinstance(j, str)


def is_list(j):
    return isinstance(j, list)


def is_dict(j):
    return isinstance(j, dict) and "d" in j


def frac(j):
    """exact value of an int/float wire value"""
    if is_int(j):
        return Fraction(int(j["i"]))
    return Fraction(int(j["f"][0]), int(j["f"][1]))


def dec_frac(j):
    """exact value of Decimal(str(x)) — what the decimal-based filters are documented to compute with"""
    from decimal import Decimal

    if is_int(j):
        return Fraction(int(j["i"]))
    return Fraction(Decimal(repr(dec(j))))


def py_eq(a, b):
    """Liquid/Python equality on wire values, by value."""
    return _norm(a) == _norm(b)


def _norm(j):
    if j is None or has_undef(j):
        return ("nil",)
    if isinstance(j, bool):
        return ("n", Fraction(int(j)))
    if is_int(j) or is_flt(j):
        return ("n", frac(j))
    if is_str(j):
        return ("s", j)
    if is_list(j):
        return ("l", tuple(_norm(x) for x in j))
    if is_dict(j):
        return ("d", tuple(sorted((k, _norm(v)) for k, v in j["d"])))
    return ("?", repr(j))


def flat(j, level=5):
    out = []
    for x in j:
        if is_list(x) and level:
            out += flat(x, level - 1)
        else:
            out.append(x)
    return out


def is_subsequence(small, big):
    it = iter(big)
    return all(any(_norm(x) == _norm(y) and x == y for y in it) for x in small)


def ordkey(j):
    if isinstance(j, bool):
        return ("n", Fraction(int(j)))
    if is_int(j) or is_flt(j):
        return ("n", frac(j))
    if is_str(j):
        return ("s", [ord(c) for c in j])
    return None


WS = " \t\n\r\x0b\x0c\x1c\x1d\x1e\x1f"


def contract(name, left, args, out):
    """None if the documented contract holds for this application, else (signature, detail).
    Only speaks about inputs of the documented types; everything else is left to the differential check."""
    if "err" in out:
        if out["err"].startswith("non-liquid:"):
            return None  # escaping non-Liquid exceptions are C02's subject, not a contract of C25
        return None
    r = out["ok"]
    if name == "size":
        exp = len(left) if is_str(left) or is_list(left) else len(left["d"]) if is_dict(left) else 0
        if r != I(exp):
            return ("size|wrong", f"size of {left} is {r}, expected {exp}")
    elif name in ("upcase", "downcase", "capitalize", "strip", "lstrip", "rstrip") and is_str(left):
        exp = {"upcase": str.upper, "downcase": str.lower, "capitalize": str.capitalize, "strip": str.strip, "lstrip": str.lstrip, "rstrip": str.rstrip}[name](left)
        if r != exp:
            return (f"{name}|differs-from-str-op", f"{left!r} -> {r!r}, expected {exp!r}")
    elif name == "reverse" and is_list(left):
        if r != flat(left)[::-1]:
            return ("reverse|wrong", f"{left} -> {r}")
    elif name in ("sort", "sort_natural") and is_list(left) and not args and is_list(r):
        fl = flat(left)
        if sorted(map(repr, map(_jkey, r))) != sorted(map(repr, map(_jkey, fl))):
            return (f"{name}|not-a-permutation", f"{left} -> {r}")
        if name == "sort":
            ks = [ordkey(x) for x in r]
            if all(k is not None for k in ks) and any(ks[i + 1] < ks[i] for i in range(len(ks) - 1)):
                return ("sort|not-ascending", f"{left} -> {r}")
        elif all(is_str(x) for x in r):
            ks = [x.lower() for x in r]
            if any(ks[i + 1] < ks[i] for i in range(len(ks) - 1)):
                return ("sort_natural|not-ascending", f"{left} -> {r}")
    elif name == "uniq" and is_list(left) and not args:
        fl = flat(left)
        exp = []
        for x in fl:
            if not any(py_eq(x, y) for y in exp):
                exp.append(x)
        if r != exp:
            return ("uniq|not-first-occurrences", f"{left} -> {r}, expected {exp}")
    elif name == "compact" and is_list(left) and not args:
        exp = [x for x in flat(left) if x is not None]
        if r != exp:
            return ("compact|wrong", f"{left} -> {r}, expected {exp}")
    elif name == "concat" and is_list(left) and args and is_list(args[0]):
        exp = flat(left) + args[0]
        if r != exp:
            return ("concat|wrong", f"{left} + {args[0]} -> {r}")
    elif name == "map" and is_list(left) and all(is_dict(x) for x in flat(left)) and args and is_str(args[0]):
        exp = [dict(x["d"]).get(args[0]) for x in flat(left)]
        if r != exp:
            return ("map|wrong", f"{left} map {args[0]} -> {r}, expected {exp}")
    elif name in ("where", "reject") and is_list(left) and all(is_dict(x) for x in flat(left)) and args and is_str(args[0]):
        fl = flat(left)
        val = args[1] if len(args) > 1 else None

        def hit(x):
            got = dict(x["d"]).get(args[0])
            if val is None or has_undef(val):
                return not (got is None or got is False or has_undef(got) or (not isinstance(got, bool) and (is_int(got) or is_flt(got)) and frac(got) == 0))
            return py_eq(got, val)

        exp = [x for x in fl if hit(x) == (name == "where")]
        if r != exp:
            return (f"{name}|wrong-selection", f"{left} {name} {args} -> {r}, expected {exp}")
    elif name == "first" and is_list(left):
        exp = left[0] if left else None
        if r != exp:
            return ("first|wrong", f"{left} -> {r}")
    elif name == "last" and is_list(left):
        exp = left[-1] if left else None
        if r != exp:
            return ("last|wrong", f"{left} -> {r}")
    elif name == "slice" and (is_str(left) or is_list(left)) and args and is_int(args[0]) and (len(args) == 1 or is_int(args[1])):
        st = int(args[0]["i"])
        ln = int(args[1]["i"]) if len(args) > 1 else 1
        n = len(left)
        if -n <= st <= n and abs(st) < 2**62 and abs(ln) < 2**62:
            b = st if st >= 0 else n + st
            exp = left[b : b + max(ln, 0)]
            if r != exp:
                sig = "slice|length<0|selects-items" if ln < 0 else "slice|wrong-items"
                return (sig, f"{left!r} slice {st},{ln} -> {r!r}, expected {exp!r}")
    elif name == "truncate" and is_str(left) and len(args) <= 2 and (not args or is_int(args[0])) and (len(args) < 2 or is_str(args[1])):
        n = int(args[0]["i"]) if args else 50
        e = args[1] if len(args) > 1 else "..."
        if len(left) <= n:
            if r != left:
                return ("truncate|len<=n|changed" if len(left) < n else "truncate|len=n|changed", f"{left!r} truncate {n},{e!r} -> {r!r}")
        else:
            if not (is_str(r) and r.endswith(e)):
                return ("truncate|no-ellipsis", f"{left!r} truncate {n},{e!r} -> {r!r}")
            if len(r) > max(n, len(e)):
                return ("truncate|n<len(end)|too-long" if n < len(e) else "truncate|too-long", f"{left!r} truncate {n},{e!r} -> {r!r} (length {len(r)} > {max(n, len(e))})")
            if not left.startswith(r[: len(r) - len(e)]):
                return ("truncate|not-a-prefix", f"{left!r} truncate {n},{e!r} -> {r!r}")
    elif name == "truncatewords" and is_str(left) and args and is_int(args[0]) and (len(args) < 2 or is_str(args[1])):
        n = int(args[0]["i"])
        e = args[1] if len(args) > 1 else "..."
        words = left.split()
        if n < 2**31 - 1 and is_str(r):
            body = r[: len(r) - len(e)] if (e and r.endswith(e) and len(words) >= max(n, 1)) else r
            kept = body.split()
            if kept != words[: len(kept)] or len(kept) > max(n, 0):
                sig = "truncatewords|n<=0|keeps-one-word" if n <= 0 and len(kept) == 1 else "truncatewords|too-many-words"
                return (sig, f"{left!r} truncatewords {n},{e!r} -> {r!r} keeps {len(kept)} words")
    elif name == "default" or name == "default_allow_false":
        d = args[0] if args else ""
        empty = left is None or has_undef(left) or left == "" or left == [] or left == {"d": []}
        if name == "default":
            empty = empty or left is False
        if empty and r != d:
            return ("default|not-the-argument", f"{left} default {d} -> {r}")
        if not empty and r != left:
            return ("default|replaced-a-value", f"{left} default {d} -> {r}")
    elif name in ("plus", "minus", "times", "divided_by", "modulo", "at_least", "at_most") and len(args) == 1 and _isnum(left) and _isnum(args[0]):
        return math_contract(name, left, args[0], r)
    elif name in ("abs", "ceil", "floor") and not args and _isnum(left):
        x = frac(left)
        exp = abs(x) if name == "abs" else Fraction(math.ceil(x)) if name == "ceil" else Fraction(math.floor(x))
        if not _isnum(r) or frac(r) != exp or (name != "abs" and not is_int(r)):
            return (f"{name}|inexact", f"{left} {name} -> {r}, expected {exp}")
    elif name == "round" and _isnum(left) and (not args or is_int(args[0])):
        nd = int(args[0]["i"]) if args else 0
        x = frac(left)
        if abs(nd) <= 30:
            exp = Fraction(round(x, nd)) if nd else Fraction(round(x))
            if nd > 0 and is_flt(left):
                exp = Fraction(float(exp))  # nearest double of the exactly rounded decimal
            if not _isnum(r) or frac(r) != exp:
                return ("round|ndigits<0|returns-0" if nd < 0 else "round|inexact", f"{left} round {nd} -> {r}, expected {exp}")
    return None


def _jkey(j):
    return _norm(j)


def _isnum(j):
    return (is_int(j) or is_flt(j)) and not isinstance(j, bool) and (not is_flt(j) or isinstance(j["f"], list))


def math_contract(name, a, b, r):
    both_int = is_int(a) and is_int(b)
    if name in ("at_least", "at_most"):
        x, y = frac(a), frac(b)
        exp = max(x, y) if name == "at_least" else min(x, y)
        if not _isnum(r) or frac(r) != exp:
            return (f"{name}|wrong", f"{a} {name} {b} -> {r}")
        return None
    if both_int:
        x, y = int(a["i"]), int(b["i"])
        if name in ("divided_by", "modulo") and y == 0:
            return None
        q = math.floor(Fraction(x, y)) if y else 0
        exp = {"plus": x + y, "minus": x - y, "times": x * y, "divided_by": q, "modulo": x - y * q}[name]
        if r != I(exp):
            return (f"{name}|int|inexact", f"{x} {name} {y} -> {r}, expected {exp}")
        return None
    if not _isnum(r):
        return (f"{name}|float|not-a-number", f"{a} {name} {b} -> {r}")
    if name == "divided_by":
        x, y = Fraction(float(frac(a))), Fraction(float(frac(b)))  # true division of the two doubles
        if y == 0:
            return None
        exp = Fraction(float(x / y))
    else:
        x, y = dec_frac(a), dec_frac(b)
        if name == "modulo":
            if y == 0:
                return None
            q = x / y
            t = math.floor(q) if q >= 0 else math.ceil(q)  # decimal remainder: quotient truncated towards zero
            ex = x - y * t
        else:
            ex = {"plus": x + y, "minus": x - y, "times": x * y}[name]
        try:
            exp = Fraction(float(ex))  # nearest double of the exact decimal result
        except OverflowError:
            return None
    if frac(r) != exp:
        sig = f"{name}|decimal|28-digit-double-rounding" if name != "divided_by" else "divided_by|float|inexact"
        return (sig, f"{a} {name} {b} -> {r}, exact decimal arithmetic gives {exp}")
    return None


def chain_oracle(case, obs):
    """contract of every stage + the split|join round trip + function/template agreement"""
    left = case["left"]
    chain = case["chain"]
    fn = obs["fn"]
    if obs["tpl"] != fn[-1]:
        return ("template|differs-from-function:" + chain[len(fn) - 1][0], f"function path {fn[-1]} but rendered template captured {obs['tpl']}")
    cur = left
    for (name, args), out in zip(chain, fn):
        v = contract(name, cur, args, out)
        if v:
            return v
        if "err" in out:
            break
        cur = out["ok"]
    if len(chain) == 2 and chain[0][0] == "split" and chain[1][0] == "join" and len(fn) == 2 and is_str(left) and left != "":
        sep = chain[0][1][0]
        if is_str(sep) and chain[1][1] == [sep] and "ok" in fn[1] and fn[1]["ok"] != left:
            if sep == " ":
                sig = "split_join|sep=space|whitespace-collapsed"
            elif sep == left:
                sig = "split_join|val=sep|empty"
            else:
                sig = "split_join|not-restored"
            return (sig, f"{left!r} | split: {sep!r} | join: {sep!r} -> {fn[1]['ok']!r}")
    return None


# ------------------------------------------------------------------------------------------------
class ChainStream(Stream):
    """Generic differential stream over filter chains."""

    exhaustive = True
    parallel = False  # a fork pool costs more than it saves here (0.1 ms per case)

    def raw_cases(self, ctx):
        return []

    def cases(self, ctx):
        raw = self.raw_cases(ctx)
        # drop what the model declares outside its fragment (counted, never silently)
        self.unmodelled = 0
        if not ctx.driver.available() or not raw:
            return raw
        outs = ctx.driver.batch([["chain", c["left"], c["chain"]] for c in raw])
        keep = []
        for c, o in zip(raw, outs):
            if isinstance(o, list) and any(isinstance(x, dict) and x.get("err") == "unmodelled" for x in o):
                self.unmodelled += 1
            else:
                keep.append(c)
        ctx.dist[f"{self.name}:dropped-unmodelled"] += self.unmodelled
        return keep

    def impl(self, case):
        fn = run_direct(case["left"], case["chain"])
        tpl = run_template(case["left"], case["chain"])
        return {"fn": fn, "tpl": tpl}

    def line(self, case):
        return ["chain", case["left"], case["chain"]]

    def canon_model(self, case, mobs):
        if isinstance(mobs, list) and mobs:
            return {"fn": mobs, "tpl": mobs[-1]}
        return mobs

    def compare_view(self, case, obs):
        def cls(o):
            # Filter.evaluate re-labels nothing for the classes the decorators raise; a stray TypeError would be LiquidTypeError
            return o

        return {"fn": [cls(o) for o in obs["fn"]], "tpl": cls(obs["tpl"])}

    def oracle(self, case, obs):
        return chain_oracle(case, obs)

    def nontrivial(self, case, obs):
        last = obs["fn"][-1]
        if "err" in last:
            return True
        return last["ok"] != case["left"]

    def tags(self, case, obs):
        t = ["+".join(n for n, _ in case["chain"])]
        last = obs["fn"][-1]
        t.append("err:" + last["err"] if "err" in last else "ok")
        t.append("left:" + kind(case["left"]))
        return t


def kind(j):
    if j is None:
        return "nil"
    if isinstance(j, bool):
        return "bool"
    if is_str(j):
        return "str"
    if is_list(j):
        return "list"
    if is_int(j):
        return "int"
    if is_flt(j):
        return "float"
    if is_dict(j):
        return "dict"
    return "undef"


def strings(alpha, maxlen):
    out = []
    for n in range(maxlen + 1):
        out += ["".join(p) for p in itertools.product(alpha, repeat=n)]
    return out


ODD_LEFT = [None, U, True, False, I(0), I(-12), I(12345), F(1.5), F(-0.25), F(1e16), [], ["a", "b"], D(), D(a=I(1))]


class TruncStream(ChainStream):
    name = "trunc"

    def raw_cases(self, ctx):
        L = ctx.scale(3, 5)
        vals = strings("ab ", L) + ["a b a", " ab ", "a  b", "ab ab", "one two three", "  lead and trail  ", "a\tb\nc  d", "x" * 50, "x" * 51, "word " * 15, "word " * 16]
        ns = [I(n) for n in (-3, -1, 0, 1, 2, 3, 4, 5, 6, 50, 2**31 - 1, 2**31, 2**63, -(2**63), 10**30)]
        ns += ["3", " 2 ", "x", "", F(2.7), F(-0.5), None, U, True, [I(1)], "1_0"]
        ends = ["...", "", ".", "ab", "-->>", I(7), U, None, F(0.5)]
        out = []
        for f in ("truncate", "truncatewords"):
            for v in vals:
                out.append({"left": v, "chain": [[f, []]]})
                for n in ns:
                    out.append({"left": v, "chain": [[f, [n]]]})
                    if is_int(n) and abs(int(n["i"])) < 100:
                        for e in ends:
                            out.append({"left": v, "chain": [[f, [n, e]]]})
            for v in ODD_LEFT:
                for n in (I(0), I(2), I(5), U):
                    out.append({"left": v, "chain": [[f, [n]]]})
                    out.append({"left": v, "chain": [[f, [n, ".."]]]})
            out.append({"left": "abc", "chain": [[f, [I(1), "..", "extra"]]]})
        return out


class TextStream(ChainStream):
    name = "text"

    def raw_cases(self, ctx):
        L = ctx.scale(4, 5)
        vals = strings("aB \t", L) + strings("zZ\n\x1f09", 3) + ["Hello World", " \r\n x \x0b\x0c ", "\x1c\x1d\x1e", "@[`{", "ÀÉ"[:0] + "mIxEd CaSe 123"]
        vals = list(dict.fromkeys(vals))
        out = []
        for f in ("size", "upcase", "downcase", "capitalize", "strip", "lstrip", "rstrip", "first", "last"):
            for v in vals + ODD_LEFT + [[I(1), [I(2), "x"]], D(a=I(1), b=None), [[]], [None]]:
                out.append({"left": v, "chain": [[f, []]]})
            out.append({"left": "abc", "chain": [[f, ["extra"]]]})
        # idempotence / composition pipelines
        for v in strings("aB ", 3):
            for f, g in (("upcase", "downcase"), ("downcase", "upcase"), ("strip", "strip"), ("lstrip", "rstrip"), ("capitalize", "capitalize"), ("strip", "size")):
                out.append({"left": v, "chain": [[f, []], [g, []]]})
        return out


class SplitJoinStream(ChainStream):
    name = "splitjoin"

    def raw_cases(self, ctx):
        L = ctx.scale(5, 6)
        vals = strings("a, ", L) + strings("ab", 4) + ["a,b,,c", ",", ",,", "ab", "abab", " a  b ", "a\tb", "x"]
        vals = list(dict.fromkeys(vals))
        seps = [",", " ", "", "ab", "a", ",,", ", ", "  ", None, U, I(1), "\t"]
        out = []
        for v in vals:
            for s in seps:
                out.append({"left": v, "chain": [["split", [s]], ["join", [s]]]})
        for v in vals[:200]:
            out.append({"left": v, "chain": [["split", [","]], ["join", []]]})
            out.append({"left": v, "chain": [["split", [","]], ["size", []]]})
            out.append({"left": v, "chain": [["split", [" "]], ["first", []]]})
        for v in ODD_LEFT:
            for s in (",", "1", ""):
                out.append({"left": v, "chain": [["split", [s]]]})
        return out


ELEMS = [I(1), I(2), F(1.0), F(2.5), "a", "b", "B", None, True, False, U]
DVALS = [I(1), I(2), None, False, "x", "A", F(1.0), U, I(0)]


def small_lists(elems, maxlen):
    out = []
    for n in range(maxlen + 1):
        out += [list(p) for p in itertools.product(elems, repeat=n)]
    return out


def dict_items():
    items = [D()]
    for v in DVALS:
        items.append(D(a=v))
    items.append(D(a=I(1), b=I(2)))
    items.append(D(b=I(1)))
    return items


class ArrayStream(ChainStream):
    name = "array"

    def raw_cases(self, ctx):
        n = ctx.scale(3, 4)
        lists = small_lists(ELEMS[: ctx.scale(8, 11)], n)
        out = []
        for xs in lists:
            for f in ("reverse", "sort", "sort_natural", "uniq", "compact", "first", "last", "size", "join"):
                out.append({"left": xs, "chain": [[f, []]]})
            out.append({"left": xs, "chain": [["concat", [[I(9), [I(8)]]]]]})
            out.append({"left": xs, "chain": [["join", ["-"]]]})
        # nested lists: flatten depth
        nest = [[I(1), [I(2), [I(3), [I(4), [I(5), [I(6), [I(7), [I(8)]]]]]]]], [[], [[]]], [[["a"]], "b", [None, [None]]], [[I(3), I(1)], [I(2)]]]
        for xs in nest:
            for f in ("reverse", "sort", "uniq", "compact", "size", "first", "last", "join", "sort_natural"):
                out.append({"left": xs, "chain": [[f, []]]})
            out.append({"left": xs, "chain": [["concat", [xs]]]})
        # lists of dicts (and strays) for keyed filters
        items = dict_items()
        strays = ["a", "xa", None, I(3), U, [I(1)]]
        dl = small_lists(items, ctx.scale(2, 3))
        dl += [[i, s] for i in items[:4] for s in strays] + [[s, i] for i in items[:4] for s in strays] + [[s] for s in strays]
        for xs in dl:
            for k in ("a", "b"):
                out.append({"left": xs, "chain": [["map", [k]]]})
                out.append({"left": xs, "chain": [["where", [k]]]})
                out.append({"left": xs, "chain": [["reject", [k]]]})
                out.append({"left": xs, "chain": [["sort", [k]]]})
                out.append({"left": xs, "chain": [["sort_natural", [k]]]})
            for val in (I(1), "x", False, None, U, F(1.0), "a"):
                out.append({"left": xs, "chain": [["where", ["a", val]]]})
                out.append({"left": xs, "chain": [["reject", ["a", val]]]})
            out.append({"left": xs, "chain": [["uniq", []]]})
            out.append({"left": xs, "chain": [["reject", [None]]]})
            out.append({"left": xs, "chain": [["reject", [U]]]})
            out.append({"left": xs, "chain": [["sort", [""]]]})
        # non-list left values, wrong argument types/counts
        for v in ODD_LEFT + ["abc"]:
            for f in ("reverse", "sort", "sort_natural", "uniq", "compact", "join"):
                out.append({"left": v, "chain": [[f, []]]})
            out.append({"left": v, "chain": [["concat", [[I(1)]]]]})
            out.append({"left": v, "chain": [["concat", ["notalist"]]]})
            out.append({"left": v, "chain": [["concat", [U]]]})
            out.append({"left": v, "chain": [["map", ["a"]]]})
            out.append({"left": v, "chain": [["where", ["a"]]]})
        for f in ("reverse", "compact", "uniq", "concat", "map", "where", "reject", "sort"):
            out.append({"left": [I(1)], "chain": [[f, ["a", "b", "c"]]]})
        return out


class SliceStream(ChainStream):
    name = "slice"

    def raw_cases(self, ctx):
        L = ctx.scale(4, 5)
        seqs = ["", "a", "ab", "abc", "abcd", "abcde"][: L + 1] + [[], [I(1)], [I(1), "b", None], [I(1), I(2), I(3), I(4)], [[I(1)], [I(2)]]]
        idx = [I(n) for n in range(-L - 2, L + 3)] + [I(2**63), I(-(2**63)), I(2**64), I(-(2**64) - 5), I(2**63 - 1)]
        odd = ["1", " -2 ", "x", F(1.0), F(0.5), None, U, True, [I(1)]]
        out = []
        for s in seqs:
            for a in idx:
                out.append({"left": s, "chain": [["slice", [a]]]})
                for b in idx:
                    out.append({"left": s, "chain": [["slice", [a, b]]]})
            for a in odd:
                out.append({"left": s, "chain": [["slice", [a]]]})
                out.append({"left": s, "chain": [["slice", [I(1), a]]]})
                out.append({"left": s, "chain": [["slice", [a, I(2)]]]})
        for v in ODD_LEFT:
            for a in (I(0), I(1), I(-1)):
                out.append({"left": v, "chain": [["slice", [a, I(2)]]]})
        out.append({"left": "abc", "chain": [["slice", []]]})
        out.append({"left": "abc", "chain": [["slice", [I(0), I(1), I(2)]]]})
        return out


class DefaultStream(ChainStream):
    name = "default"

    def raw_cases(self, ctx):
        vals = [None, U, True, False, I(0), I(1), I(-1), I(10**30), F(0.0), F(0.5), "", " ", "a", "0", "false", [], [None], [[]], [I(0)], D(), D(a=None), [False]]
        ds = ["", "d", None, U, I(0), I(7), F(1.5), False, True, [], [I(1)], D(), D(k="v"), " "]
        out = []
        for v in vals:
            out.append({"left": v, "chain": [["default", []]]})
            for d in ds:
                out.append({"left": v, "chain": [["default", [d]]]})
                out.append({"left": v, "chain": [["default_allow_false", [d]]]})
                out.append({"left": v, "chain": [["default", [d]], ["size", []]]})
            out.append({"left": v, "chain": [["default", ["a", "b"]]]})
        return out


INTS = [0, 1, -1, 2, 3, -3, 5, 7, -7, 10, 15, 25, -25, 100, 2**31, 2**53, 2**53 + 1, 2**63, -(2**63), 2**64 + 1, 10**30, -(10**30), 10**28, 10**28 + 1]
FLOATS = [0.0, 0.5, -0.5, 1.5, 2.5, -2.5, 3.5, 0.1, 0.2, 0.3, 1.1, -3.7, 2.675, 1e16, 1e-7, 1e22, 123456.789, 1.0000000000000002, 9007199254740992.0, 9007199254740994.0, 5e-324, 1.7976931348623157e308, 0.30000000000000004, 1e15, 4.35, -0.1]
NUMSTR = ["12", "-3", "1.5", " 7 ", "1e3", "abc", "", "1_000", "+5", ".5", "1.", "0x10", "1__0", "-0.25", "1E-2", " 2.50 ", "1e", "e5", "--1", "1.5.2", "1 000", "٣"[:0] + "007"]
NONNUM = [None, U, [], [I(1)], D(), "x"]


class MathStream(ChainStream):
    name = "math"

    def raw_cases(self, ctx):
        ni = ctx.scale(11, len(INTS))
        nf = ctx.scale(11, len(FLOATS))
        nums = [I(i) for i in INTS[:ni]] + [F(f) for f in FLOATS[:nf]]
        if ctx.tier != "thorough":
            nums += [I(INTS[-1]), I(2**53), F(1.0000000000000002), F(9007199254740992.0), I(10**30), F(5e-324), F(1e22)]
        others = nums + NUMSTR[: ctx.scale(12, len(NUMSTR))] + NONNUM
        out = []
        for f in ("plus", "minus", "times", "divided_by", "modulo", "at_least", "at_most"):
            for a in nums + NUMSTR[:6] + NONNUM[:3]:
                for b in others:
                    out.append({"left": a, "chain": [[f, [b]]]})
            out.append({"left": I(1), "chain": [[f, []]]})
            out.append({"left": I(1), "chain": [[f, [I(1), I(2)]]]})
        for f in ("abs", "ceil", "floor", "round"):
            for a in nums + NUMSTR + NONNUM:
                out.append({"left": a, "chain": [[f, []]]})
            out.append({"left": I(1), "chain": [[f, [I(1), I(2)]]]})
        nds = [I(n) for n in (-2, -1, 0, 1, 2, 3, 5, 10, 20, 30)] + ["1", "2.9", "x", F(1.9), F(-0.5), F(-1.5), None, U, [], ""]
        for a in nums + NUMSTR[:6]:
            for nd in nds:
                out.append({"left": a, "chain": [["round", [nd]]]})
        return out

    def nontrivial(self, case, obs):
        def small(j):
            return is_int(j) and 0 <= int(j["i"]) < 100

        vals = [case["left"]] + list(case["chain"][0][1])
        return not all(small(v) for v in vals)


class RandomStream(ChainStream):
    """Larger random values through every modelled filter."""

    name = "random"
    exhaustive = False

    def raw_cases(self, ctx):
        rng = ctx.rng_for("random")
        n = ctx.scale(4000, 120000)
        out = []

        def rstr(alpha="abAB ,\t", lo=0, hi=12):
            return "".join(rng.choice(alpha) for _ in range(rng.range(lo, hi)))

        def rint():
            k = rng.range(0, 5)
            if k == 0:
                return rng.range(-5, 5)
            if k == 1:
                return rng.range(-1000, 1000)
            if k == 2:
                return rng.range(-(2**40), 2**40)
            if k == 3:
                return (rng.next() * rng.next()) * (1 if rng.range(0, 1) else -1)
            return rng.choice([2**63, -(2**63), 2**53, 10**28, 10**29 - 1]) + rng.range(-2, 2)

        def rfloat():
            k = rng.range(0, 4)
            if k == 0:
                return rng.range(-50, 50) / 2
            if k == 1:
                return rng.range(-10**6, 10**6) / 1000
            if k == 2:
                import struct

                bits = rng.next() & 0xFFFFFFFFFFFFFFFF
                e = (bits >> 52) & 0x7FF
                e = 1023 + (e % 120) - 60  # keep magnitudes where products/sums stay finite
                bits = (bits & ~(0x7FF << 52)) | (e << 52)
                return struct.unpack("<d", struct.pack("<Q", bits))[0]
            if k == 3:
                return float(rng.range(-(2**55), 2**55))
            return rng.range(1, 10**9) / 10 ** rng.range(1, 12)

        def rnum():
            return I(rint()) if rng.range(0, 1) else F(rfloat())

        def relem():
            k = rng.range(0, 6)
            return [I(rng.range(-3, 3)), F(rng.range(-4, 4) / 2), rstr("abAB", 0, 3), None, True, I(rint()), F(rfloat())][k]

        def rlist(depth=0):
            xs = [relem() for _ in range(rng.range(0, 7))]
            if depth < 6 and rng.range(0, 3) == 0:
                xs.insert(rng.range(0, len(xs)), rlist(depth + 1))
            return xs

        def rhomog():
            if rng.range(0, 1):
                return [rnum() for _ in range(rng.range(0, 9))]
            return [rstr("abAB", 0, 4) for _ in range(rng.range(0, 9))]

        def rdicts():
            return [D(**{k: rng.choice(DVALS + [I(3), "b", "B"]) for k in ("a", "b") if rng.range(0, 2)}) for _ in range(rng.range(0, 7))]

        for _ in range(n):
            k = rng.range(0, 9)
            if k == 0:
                f = rng.choice(["truncate", "truncatewords"])
                out.append({"left": rstr(hi=30), "chain": [[f, [I(rng.range(-2, 25)), rstr(".-> ", 0, 5)]]]})
            elif k == 1:
                s = rstr("ab, ", 0, 14)
                sep = rng.choice([",", " ", "ab", "a", ", ", ""])
                out.append({"left": s, "chain": [["split", [sep]], ["join", [sep]]]})
            elif k == 2:
                f = rng.choice(["upcase", "downcase", "capitalize", "strip", "lstrip", "rstrip", "size"])
                out.append({"left": rstr(" \taBzZ09\n", 0, 12), "chain": [[f, []]]})
            elif k == 3:
                f = rng.choice(["reverse", "uniq", "compact", "sort", "sort_natural", "first", "last", "size"])
                xs = rhomog() if f in ("sort", "sort_natural") and rng.range(0, 3) else rlist()
                out.append({"left": xs, "chain": [[f, []]]})
            elif k == 4:
                f = rng.choice(["map", "where", "reject", "sort", "sort_natural"])
                args = [rng.choice(["a", "b"])]
                if f in ("where", "reject") and rng.range(0, 1):
                    args.append(rng.choice(DVALS))
                out.append({"left": rdicts(), "chain": [[f, args]]})
            elif k == 5:
                s = rstr("abcdef", 0, 10) if rng.range(0, 1) else [I(i) for i in range(rng.range(0, 8))]
                out.append({"left": s, "chain": [["slice", [I(rng.range(-12, 12)), I(rng.range(-3, 12))]]]})
            elif k in (6, 7):
                f = rng.choice(["plus", "minus", "times", "divided_by", "modulo", "at_least", "at_most"])
                out.append({"left": rnum(), "chain": [[f, [rnum()]]]})
            elif k == 8:
                f = rng.choice(["abs", "ceil", "floor", "round"])
                args = [I(rng.range(0, 6))] if f == "round" and rng.range(0, 1) else []
                out.append({"left": rnum(), "chain": [[f, args]]})
            else:
                out.append({"left": rlist(), "chain": [["concat", [rlist()]]]})
        return out


class PrimStream(Stream):
    """The CPython primitives the model re-implements (modelled, not verified): sampled against Python."""

    name = "prim"
    exhaustive = False

    def cases(self, ctx):
        rng = ctx.rng_for("prim")
        import struct

        out = []
        for f in FLOATS + [float(i) for i in INTS if abs(i) < 10**300] + [1 / 3, 2 / 3, 1e21, 1e-5, 1e-4, 0.0001234, 123456789012345680.0, 2.0**-1074, 2.0**-1022, 2.0**1023]:
            out.append({"k": "repr", "x": F(f)})
        for _ in range(ctx.scale(1500, 20000)):
            bits = rng.next() & 0x7FFFFFFFFFFFFFFF
            x = struct.unpack("<d", struct.pack("<Q", bits))[0]
            if math.isnan(x) or math.isinf(x):
                continue
            out.append({"k": "repr", "x": F(x if rng.range(0, 1) else -x)})
        for _ in range(ctx.scale(800, 8000)):
            n = rng.next() * rng.choice([1, rng.next(), 10**20]) * (1 if rng.range(0, 1) else -1)
            d = max(1, (rng.next() >> rng.range(0, 60)) * rng.choice([1, 1, 10**25]))
            out.append({"k": "todouble", "n": str(n), "d": str(d)})
        lits = NUMSTR + ["1e400", "1e-400", "123456789012345678901234567890", "0.1e1", "1_0.0_1", "_1", "1_", "1._5", "inf", "-Infinity", "nan", " 1.5\n", "1e+5", "1e-_5", ".", "+", "-.5", "9007199254740993", "4.35", "2.675", "1.7976931348623159e308"]
        for _ in range(ctx.scale(500, 5000)):
            lits.append("".join(rng.choice("0123456789.eE+-_ ") for _ in range(rng.range(1, 9))))
        for s in lits:
            out.append({"k": "parsefloat", "s": s})
            out.append({"k": "parseint", "s": s})
        return out

    def impl(self, case):
        k = case["k"]
        if k == "repr":
            return repr(dec(case["x"]))
        if k == "todouble":
            try:
                return [str(v) for v in (int(case["n"]) / int(case["d"])).as_integer_ratio()]
            except OverflowError:
                return "overflow"
        if k == "parsefloat":
            s = case["s"]
            if s.strip().lstrip("+-").lower() in ("inf", "infinity", "nan"):
                return "special"
            try:
                x = float(s)
            except ValueError:
                return "ValueError"
            if math.isinf(x):
                return "overflow"
            return [str(v) for v in x.as_integer_ratio()]
        if k == "parseint":
            try:
                return str(int(case["s"]))
            except ValueError:
                return "ValueError"
        raise ValueError(k)

    def line(self, case):
        k = case["k"]
        if k == "repr":
            return ["repr"] + case["x"]["f"]
        if k == "todouble":
            return ["todouble", case["n"], case["d"]]
        return [k, case["s"]]

    def tags(self, case, obs):
        return [case["k"]]


def streams(ctx):
    return [TruncStream(), TextStream(), SplitJoinStream(), ArrayStream(), SliceStream(), DefaultStream(), MathStream(), RandomStream(), PrimStream()]
