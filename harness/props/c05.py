"""C05 — autoescape keeps render data from injecting HTML.

Model: lean/LiquidVerif/Model/Escape.lean (markupsafe.escape, Clean, Ent, skeleton) and Model/Taint.lean (values
{chars, safe}; every modelled filter and tag with its autoescape branch and the Markup operator semantics).
Streams run generated filter chains and templates on the real engine (autoescape on and off) and on the Lean model.
The comparison is made at the abstraction the property needs: the kind and Markup flag(s) of the resulting value and
the *special skeleton* of the output (the sub-sequence of < > ' " and of &, an & that begins one of markupsafe's five
entities written E). Set C05_EXACT=1 to compare exact strings (model debugging).
"""
from __future__ import annotations

import os
import re

from ..core import Stream

ID = "C05"
LEAN_MODULE = "LiquidVerif.Props.C05"
TRANSLATE = False
RULE = (
    "stream escape: markupsafe.escape on strings over the special-rich alphabet vs the model table (exhaustive up to length 3 "
    "over 9 symbols + random); stream markup: the markupsafe.Markup operator table (+, radd, join, replace, upper/lower/"
    "capitalize, strip family, slicing, split, rpartition, iteration, to_liquid_string of every value kind, quote_plus, escapejs) "
    "on all safe/unsafe operand combinations vs the model combinators, exact results; stream filter-pairs: every ordered pair "
    "of modelled filter variants on fixed special-rich inputs (exhaustive); stream filter-taint: random chains of 1-4 filters "
    "(incl. ternaries) whose every argument position is a clean literal, an integer, nil, or a variable holding a str, Markup, list, "
    "dict, float, list with non-string items, int, bool, nil, __html__ object or nothing (special-rich contents); filter-pairs includes "
    "variants with a list/dict/mixed-list/float/int variable as argument; stream render: templates over output/echo/assign/capture/cycle/"
    "for/if/unless/elsif/case/liquid/include/render/translate; stream cycle-key: every triple of unnamed cycles over literal / plain / Markup / "
    "undefined items (exhaustive over 7 argument groups x 3 data sets); stream safe-values: Markup and __html__ objects through "
    "output/assign/for/first/last/default/cycle/include. Every case renders with autoescape on and off. Non-trivial: the render "
    "data reaching the expression contain at least one of < > ' \" & and the render succeeded (or, for escape/markup, an operand "
    "contains a special)."
)
TRUSTED_BASE = [
    "Lean 4.33 kernel; axioms subset of {propext, Classical.choice, Quot.sound}",
    "hand-written models LiquidVerif/Model/Escape.lean and Model/Taint.lean of stringify.py, primitive.py StringLiteral, capture_tag.py, "
    "filters/string.py, array.py, extra.py, misc.py (default, size), the modelled tags, and of the markupsafe.Markup operators they call",
    "correspondence harness harness/props/c05.py + Driver/C05.lean (surface templates are desugared to model nodes by the harness: "
    "unless/elsif/case -> if, liquid/echo -> nodes, partials inlined)",
    "CPython/markupsafe primitives are modelled, not verified: str methods on the ASCII fragment (PyStr.lean), Markup operator "
    "dispatch, urllib.parse.quote_plus, the escapejs table; sampled by the markup stream",
    "opaque text functions (html.unescape, the HTMLParser inside strip_tags, urllib.parse.unquote, base64, str(list)) are parameters "
    "of the model; every theorem quantifies over all of them; the driver is given the values the real functions returned",
]
ASSUMPTIONS = [
    "data values are str, Markup, int, None, bool, flat lists of str/Markup, or objects with __html__; a dict, float or list with non-string "
    "items is modelled through its str() only (value kind `other`): as an argument a filter stringifies, as the left value of a string "
    "filter or of join, and when written; anywhere else the case is compared by the direct oracle only (tag outside-model)",
    "templates are finite trees: include/render are modelled with the partial inlined (every terminating render unrolls to one)",
    "case conversions are modelled on ASCII; Python's Unicode case mapping never produces < > ' \" (not proved)",
    "translations are the null translations (message text = template text); a real catalogue is trusted template text",
    "the date filter, json, currency/number formatting, map/where/sort and the HTML-generating filters (newline_to_br modelled, "
    "script_tag/stylesheet_tag, tablerow) are outside the model; date is covered by the direct oracle of stream date-cache only",
]
MANIFEST = {
    "technique": "Lean 4 proof (invariant 'every Markup value is free of raw specials', induction over filter chains and template "
    "structure, for all data, all templates of the modelled fragment and all opaque text functions) + differential correspondence "
    "against the real engine at the special-skeleton abstraction + direct output-scan oracle + on/off differential",
    "text": "escape_clean, filter_preserves_inv, expression_preserves_inv, capture_safe, output_no_raw_specials and safe_values_unchanged "
    "are proved for every template of the modelled fragment, every filter chain, every render data and all opaque text functions; "
    "amp_entities_partial holds for templates restricted to the entity-friendly filters, with kernel-checked counter-examples for the "
    "filters that cut, replace inside or upper-case an already escaped value (known findings); the exclusion list of amp_entities_partial is exact "
    "(amp_entities_exclusions_exact); the autoescape-is-a-no-op sentence is proved for every admitted filter (filter_noop_on_clean) and "
    "for one-statement templates with chains of any length (autoescape_noop_on_clean), at operator level in general "
    "(autoescape_noop_on_clean_partial), refuted on outputs (autoescape_noop_counterexample) and otherwise checked by rendering every "
    "generated case with autoescape on and off.",
    "note": "Trusted: Lean kernel, the hand model of the filters/tags and of markupsafe operators (tied by ~15.6k differential cases "
    "per quick run, ~93k per thorough run), the harness desugaring. Not covered: dict/drop data, date/number formatting filters, real translation catalogues.",
}

EXACT = os.environ.get("C05_EXACT") == "1"

# ---------------------------------------------------------------------------------------------------------------------
# alphabet and helpers
# ---------------------------------------------------------------------------------------------------------------------
ALPHA = ["<", ">", "&", "'", '"', "a", "b", " ", "&lt;", "&amp;", "&#39;", "&#34;", "&gt;", "&#", ";", "lt;", "amp", "%3C", "%26",
         "%22", "+", "<b>", "</b>", "<script>", "PGI+", "Jg==", "\n", "\r\n", ",", "%", "1", "-", "A", "m", "  ", "\t", "=", "`", "\\"]
CLEAN_LITS = ["", "a", " ", ",", "b", "ab", "lt;", "amp;", "#", ";", "%3C", "%", "1", "-", "x y", "+", "m", "p;", "#39;", "A", ", ", "l", "t;"]
# no whitespace-only text: a block holding only whitespace text is "blank" and the engine suppresses it (not modelled)
TEXTS = ["", "a", ".\n", "-", "hello ", " = ", "x;y", "[", "]", "amp;", "#"]
SPECIALS = "<>'\""
ENTITIES = ("&amp;", "&lt;", "&gt;", "&#39;", "&#34;")
STR_VARS = ["x", "y", "z"]
KW_POOL = ["a", "b", "", "lt;", "1"]
INTS = [0, 1, 2, 3, -1, -2, -3, 5, 10, 50]


def skeleton(s: str) -> str:
    out = []
    for i, c in enumerate(s):
        if c in SPECIALS:
            out.append(c)
        elif c == "&":
            out.append("E" if s.startswith(ENTITIES, i) else "&")
    return "".join(out)


def is_clean(s: str) -> bool:
    return not any(c in SPECIALS for c in s)


def is_ent(s: str) -> bool:
    return "&" not in skeleton(s)


def has5(s: str) -> bool:
    return any(c in "<>'\"&" for c in s)


# ---- values ------------------------------------------------------------------------------------------------------------
def py_val(j):
    """value JSON -> Python object handed to render()"""
    from markupsafe import Markup

    if j is None or isinstance(j, bool):
        return j
    if "s" in j:
        return Markup(j["s"]) if j["m"] else j["s"]
    if "a" in j:
        return [py_val(x) for x in j["a"]]
    if "n" in j:
        return int(j["n"])
    if "h" in j:
        return _HtmlObj(j["h"], j["t"])
    if "d" in j:
        return _mk_other(j["d"])
    raise ValueError(j)


def _mk_other(d):
    """a dict, float or list with non-string items taken from the render data (JSON -> a fresh Python object)"""
    import copy

    return copy.deepcopy(d)


def is_other(x):
    return isinstance(x, (dict, float)) or (isinstance(x, (list, tuple)) and not all(isinstance(i, str) for i in x))


def model_val(j):
    """value JSON as the driver reads it: a `{"d": obj}` value travels as `{"x": str(obj)}` (only its str() is modelled)"""
    if isinstance(j, dict) and "d" in j:
        return {"x": str(_mk_other(j["d"]))}
    return j


class _HtmlObj:
    def __init__(self, h, t):
        self.h, self.t = h, t

    def __html__(self):
        return self.h

    def __str__(self):
        return self.t


def val_json(v):
    """Python value -> value JSON (None for values outside the model)"""
    from markupsafe import Markup

    from liquid.undefined import Undefined

    if v is None:
        return None
    if isinstance(v, Undefined):
        return {"u": 1}
    if isinstance(v, bool):
        return v
    if isinstance(v, str):
        return {"s": str(v), "m": isinstance(v, Markup)}
    if isinstance(v, int):
        return {"n": str(v)}
    if isinstance(v, _HtmlObj):
        return {"h": v.h, "t": v.t}
    if isinstance(v, (dict, float)):
        return {"x": str(v)}
    if isinstance(v, (list, tuple)):
        items = [val_json(x) for x in v]
        if all(isinstance(x, dict) and "s" in x for x in items):
            return {"a": items}
        return {"other": "list"}
    return {"other": type(v).__name__}


def canon_val(j):
    """the abstraction of a value: kind, Markup flag(s), special skeleton (exact text under C05_EXACT)"""
    if j is None or (isinstance(j, dict) and "u" in j):
        return "nil"
    if isinstance(j, bool):
        return j
    if "s" in j:
        return {"k": "str", "m": j["m"], "sk": j["s"] if EXACT else skeleton(j["s"])}
    if "a" in j:
        return {"k": "arr", "items": [[x["m"], x["s"] if EXACT else skeleton(x["s"])] for x in j["a"]]}
    if "n" in j:
        return {"k": "num", "n": j["n"]}
    if "h" in j:
        return {"k": "obj"}
    if "x" in j:
        return {"k": "other", "sk": j["x"] if EXACT else skeleton(j["x"])}
    return j


def data_strings(data):
    for v in data.values():
        if isinstance(v, dict):
            if "s" in v:
                yield v["s"], v["m"]
            elif "a" in v:
                for x in v["a"]:
                    yield x["s"], x["m"]
            elif "h" in v:
                yield v["h"], True
                yield v["t"], False
            elif "d" in v:
                yield str(_mk_other(v["d"])), False


# ---- surface syntax ---------------------------------------------------------------------------------------------------
def arg_src(a):
    if a is None:
        return "nil"
    if "lit" in a:
        s = a["lit"]
        return '"' + s + '"' if "'" in s else "'" + s + "'"
    if "var" in a:
        return a["var"]
    return str(a["int"])


def fcall_src(f):
    name, args = f
    return name + (": " + ", ".join(arg_src(a) for a in args) if args else "")


def chain_src(e):
    return " | ".join([arg_src(e["h"])] + [fcall_src(f) for f in e["f"]])


def cond_src(c):
    k = c[0]
    if k == "truthy":
        return arg_src(c[1])
    if k == "eq":
        return f"{arg_src(c[1])} == {arg_src(c[2])}"
    if k == "contains":
        return f"{arg_src(c[1])} contains {arg_src(c[2])}"
    if k == "not":
        return "not " + cond_src(c[1])
    return f"{cond_src(c[1])} {k} {cond_src(c[2])}"


def expr_src(e):
    s = chain_src(e)
    if "c" in e:
        s += " if " + cond_src(e["c"])
        if e.get("alt"):
            s += " else " + chain_src(e["alt"])
        if e.get("tail"):
            s += " || " + " | ".join(fcall_src(f) for f in e["tail"])
    return s


def kw_src(args, f):
    return "".join(f", {k}: {f(v)}" for k, v in args)


def nodes_src(nodes, partials, line=False):
    """surface nodes -> Liquid source; partial bodies are collected into `partials` (name -> source).
    line=True: statements of a {% liquid %} tag, one per line."""
    out = []

    def tag(s):
        out.append(s + "\n" if line else "{% " + s + " %}")

    for n in nodes:
        k = n[0]
        if k == "text":
            out.append(n[1])
        elif k == "output":
            if line:
                tag("echo " + expr_src(n[1]))
            else:
                out.append("{{ " + expr_src(n[1]) + " }}")
        elif k == "echo":
            tag("echo " + expr_src(n[1]))
        elif k == "assign":
            tag(f"assign {n[1]} = {expr_src(n[2])}")
        elif k == "capture":
            tag(f"capture {n[1]}")
            out.append(nodes_src(n[2], partials, line))
            tag("endcapture")
        elif k == "cycle":
            tag("cycle " + ", ".join(arg_src(a) for a in n[1]))
        elif k == "for":
            tag(f"for {n[1]} in {expr_src(n[2])}")
            out.append(nodes_src(n[3], partials, line))
            if n[4]:
                tag("else")
                out.append(nodes_src(n[4], partials, line))
            tag("endfor")
        elif k == "if":
            tag("if " + cond_src(n[1]))
            out.append(nodes_src(n[2], partials, line))
            if n[3]:
                tag("else")
                out.append(nodes_src(n[3], partials, line))
            tag("endif")
        elif k == "unless":
            tag("unless " + cond_src(n[1]))
            out.append(nodes_src(n[2], partials, line))
            if n[3]:
                tag("else")
                out.append(nodes_src(n[3], partials, line))
            tag("endunless")
        elif k == "ifchain":
            for i, (c, body) in enumerate(n[1]):
                tag(("if " if i == 0 else "elsif ") + cond_src(c))
                out.append(nodes_src(body, partials, line))
            if n[2]:
                tag("else")
                out.append(nodes_src(n[2], partials, line))
            tag("endif")
        elif k == "case":
            tag("case " + arg_src(n[1]))
            for ws, body in n[2]:
                tag("when " + ", ".join(arg_src(w) for w in ws))
                out.append(nodes_src(body, partials, line))
            if n[3]:
                tag("else")
                out.append(nodes_src(n[3], partials, line))
            tag("endcase")
        elif k == "liquid":
            out.append("{% liquid\n" + nodes_src(n[1], partials, True) + "%}")
        elif k in ("include", "render"):
            partials[n[1]] = nodes_src(n[3], partials, False)
            tag(f"{k} '{n[1]}'" + kw_src(n[2], arg_src))
        elif k == "translate":
            tag("translate " + ", ".join(f"{a}: {expr_src(e)}" for a, e in n[1]) if n[1] else "translate")
            out.append("".join(p[1] if p[0] == "t" else "{{ " + p[1] + " }}" for p in n[2]))
            tag("endtranslate")
        else:
            raise ValueError(k)
    return "".join(out)


def to_model(nodes):
    """surface nodes -> model nodes (Driver/C05.lean parseNode)"""
    out = []
    for n in nodes:
        k = n[0]
        if k in ("text", "assign", "cycle"):
            out.append(n)
        elif k in ("output", "echo"):
            out.append(["output", n[1]])
        elif k == "capture":
            out.append(["capture", n[1], to_model(n[2])])
        elif k == "for":
            out.append(["for", n[1], n[2], to_model(n[3]), to_model(n[4])])
        elif k == "if":
            out.append(["if", n[1], to_model(n[2]), to_model(n[3])])
        elif k == "unless":
            out.append(["if", ["not", n[1]], to_model(n[2]), to_model(n[3])])
        elif k == "ifchain":
            els = to_model(n[2])
            for c, body in reversed(n[1]):
                els = [["if", c, to_model(body), els]]
            out.extend(els)
        elif k == "case":
            # every `when` expression that equals the subject renders its block once; `else` when none did
            eqs = []
            for ws, body in n[2]:
                for w in ws:
                    out.append(["if", ["eq", n[1], w], to_model(body), []])
                    eqs.append(["eq", n[1], w])
            if n[3]:
                if eqs:
                    c = eqs[-1]
                    for e in reversed(eqs[:-1]):
                        c = ["or", e, c]
                    out.append(["if", c, [], to_model(n[3])])
                else:
                    out.extend(to_model(n[3]))
        elif k == "liquid":
            out.extend(to_model(n[1]))
        elif k in ("include", "render"):
            out.append([k, n[2], to_model(n[3])])
        elif k == "translate":
            out.append(["translate", n[1], n[2]])
        else:
            raise ValueError(k)
    return out


def walk_exprs(nodes):
    """every expression/argument list of a surface tree: yields ('f', name) for filters and ('lit', text) for literals/text"""
    def arg(a):
        if isinstance(a, dict) and "lit" in a:
            yield ("lit", a["lit"])

    def chain(e):
        yield from arg(e["h"])
        for name, args in e["f"]:
            yield ("f", name)
            for a in args:
                yield from arg(a)

    def expr(e):
        yield from chain(e)
        if "c" in e:
            yield from cond(e["c"])
            if e.get("alt"):
                yield from chain(e["alt"])
            for name, args in e.get("tail") or []:
                yield ("f", name)
                for a in args:
                    yield from arg(a)

    def cond(c):
        if c[0] in ("truthy",):
            yield from arg(c[1])
        elif c[0] in ("eq", "contains"):
            yield from arg(c[1])
            yield from arg(c[2])
        elif c[0] == "not":
            yield from cond(c[1])
        else:
            yield from cond(c[1])
            yield from cond(c[2])

    for n in nodes:
        k = n[0]
        if k == "text":
            yield ("lit", n[1])
        elif k in ("output", "echo"):
            yield from expr(n[1])
        elif k == "assign":
            yield from expr(n[2])
        elif k == "capture":
            yield from walk_exprs(n[2])
        elif k == "cycle":
            for a in n[1]:
                yield from arg(a)
        elif k == "for":
            yield from expr(n[2])
            yield from walk_exprs(n[3])
            yield from walk_exprs(n[4])
        elif k in ("if", "unless"):
            yield from cond(n[1])
            yield from walk_exprs(n[2])
            yield from walk_exprs(n[3])
        elif k == "ifchain":
            for c, body in n[1]:
                yield from cond(c)
                yield from walk_exprs(body)
            yield from walk_exprs(n[2])
        elif k == "case":
            yield from arg(n[1])
            for ws, body in n[2]:
                for w in ws:
                    yield from arg(w)
                yield from walk_exprs(body)
            yield from walk_exprs(n[3])
        elif k == "liquid":
            yield from walk_exprs(n[1])
        elif k in ("include", "render"):
            for _, a in n[2]:
                yield from arg(a)
            yield from walk_exprs(n[3])
        elif k == "translate":
            for _, e in n[1]:
                yield from expr(e)
            for p in n[2]:
                if p[0] == "t":
                    yield ("lit", p[1])


HTML_GEN = {"safe", "newline_to_br"}
AMP_CLASS = {
    "slice": "cut", "split": "cut",
    "remove": "replace", "remove_first": "replace", "remove_last": "replace", "replace": "replace", "replace_first": "replace",
    "replace_last": "replace", "upcase": "case",
}


def qualifies(nodes, data):
    """the hypotheses of the property's first sentence: literal text free of < > ' " and of bare &, no safe filter, no
    HTML-generating filter, and the explicitly safe data values themselves free of raw specials"""
    for kind, x in walk_exprs(nodes):
        if kind == "f" and x in HTML_GEN:
            return False
        if kind == "lit" and not (is_clean(x) and is_ent(x)):
            return False
    for s, m in data_strings(data):
        if m and not (is_clean(s) and is_ent(s)):
            return False
    return True


# ---------------------------------------------------------------------------------------------------------------------
# running the real engine
# ---------------------------------------------------------------------------------------------------------------------
STRING_FILTERS = {
    "append", "prepend", "upcase", "downcase", "capitalize", "escape", "escape_once", "lstrip", "rstrip", "strip", "remove",
    "remove_first", "remove_last", "replace", "replace_first", "replace_last", "split", "strip_html", "strip_newlines", "newline_to_br",
    "truncate", "truncatewords", "url_encode", "url_decode", "base64_encode", "base64_decode", "base64_url_safe_encode",
    "base64_url_safe_decode", "squish", "safe", "escapejs",
}
# argument positions that a filter only stringifies (`str(arg)` / `soft_str(arg)`): there a dict, float or mixed list from the
# render data is inside the model (value kind `other`)
STR_ARG_POS = {"append": (0,), "prepend": (0,), "remove": (0,), "remove_first": (0,), "remove_last": (0,), "replace": (0, 1),
               "replace_first": (0, 1), "replace_last": (0, 1), "split": (0,), "truncate": (1,), "truncatewords": (1,), "join": (0,)}
MODELLED = STRING_FILTERS | {"slice", "join", "first", "last", "reverse", "concat", "size", "default"}
B64 = {"base64_encode": 0, "base64_decode": 1, "base64_url_safe_encode": 2, "base64_url_safe_decode": 3}


def _coerce(val):
    if val is None:
        return ""
    return val if isinstance(val, str) else str(val)


class _TooLong(Exception):
    pass


_ENVS: dict = {}
_REC: dict = {}


def make_env(auto, partials, rec):
    """Environment with every filter wrapped (built once per process and autoescape setting; `rec` is the per-run record):
    the wrappers record (a) the values the opaque text functions take on the inputs they receive (handed to the Lean model
    as its `Prims`), (b) which filter first turned an entity-complete Markup into one with a bare & (classification of the
    known findings), (c) values outside the modelled domain, (d) the last value seen by the probe filter."""
    from liquid import DictLoader

    _REC["cur"] = rec
    key = (bool(auto), os.environ.get("LIQUID_REPO", ""))
    env = _ENVS.get(key)
    if env is None:
        env = _ENVS[key] = _build_env(auto)
    env.loader = DictLoader(dict(partials))
    return env


def _build_env(auto):
    import functools
    import html
    import urllib.parse

    from liquid import DictLoader, Environment
    from liquid.utils.html import strip_tags
    from markupsafe import Markup

    class Env(Environment):
        ternary_expressions = True
        logical_not_operator = True

    env = Env(autoescape=auto, extra=True, loader=DictLoader({}))

    def ent_ok(v):
        if isinstance(v, Markup):
            return is_ent(str(v))
        if isinstance(v, list):
            return all(ent_ok(x) for x in v)
        return True

    def wrap(name, fn):
        @functools.wraps(fn)
        def w(val, *a, **k):
            rec = _REC["cur"]
            # `replace: '', x` multiplies lengths; a chain of them grows exponentially. Such cases are cut short here
            # (reported as an error outcome, outside the model) instead of grinding through megabytes of text.
            lens = [len(x) for x in (val,) + a if isinstance(x, str)]
            if lens and (max(lens) > 2000 or (len(lens) > 1 and max(lens) * sorted(lens)[-2] > 50000)):
                rec["outside"].append("value-too-long")
                raise _TooLong()
            if name in ("join", "reverse", "concat") and (val is None or isinstance(val, (bool, _HtmlObj))):
                rec["outside"].append(name + ":" + type(val).__name__)
            if name not in MODELLED:
                rec["outside"].append(name + ":unmodelled-filter")
            for pos, x in enumerate((val,) + a):
                if is_other(x):
                    # only its str() is modelled: fine as the left value of a string filter (or of join, for a dict/float) and
                    # in the argument positions a filter stringifies — and only for objects that came from the render data
                    ok = id(x) in rec["data_ids"] and (
                        (pos == 0 and (name in STRING_FILTERS or (name == "join" and isinstance(x, (dict, float)))))
                        or (pos > 0 and (pos - 1) in STR_ARG_POS.get(name, ())))
                    if not ok:
                        rec["outside"].append(name + ":" + type(x).__name__)
                elif isinstance(x, (list, tuple)):
                    rec["liststr"].append([val_json(x)["a"], str(x)])
            if name in STRING_FILTERS:
                s = _coerce(val)
                if name == "escape_once":
                    rec["unescape"].append([str(s), html.unescape(str(s))])
                elif name == "strip_html":
                    rec["strip"].append([str(s), str(strip_tags(str(s)))])
                elif name == "url_decode":
                    t = str(s).replace("+", " ")
                    rec["unquote"].append([t, urllib.parse.unquote(t)])
            if name in B64:
                s = str(_coerce(val))
                try:
                    r = fn(val, *a, **k)
                except Exception:
                    rec["b64"].append([B64[name], s, None])
                    raise
                rec["b64"].append([B64[name], s, str(r)])
                return r
            r = fn(val, *a, **k)
            if isinstance(val, Markup) and ent_ok(val) and not ent_ok(r) and all(ent_ok(x) for x in a):
                rec["breakers"].append(name)
            return r

        return w

    for name in list(env.filters):
        f = env.filters[name]
        if callable(f) and not isinstance(f, type) and hasattr(f, "__name__"):
            env.filters[name] = wrap(name, f)

    def probe(val):
        rec = _REC["cur"]
        if isinstance(val, (list, tuple)) and not all(isinstance(i, str) for i in val):
            rec["outside"].append("result:mixed-list")
        if isinstance(val, (dict, float)) and id(val) not in rec["data_ids"]:
            rec["outside"].append("result:" + type(val).__name__)
        rec["probe"] = val
        return val

    env.add_filter("c05probe", probe)
    return env


def new_rec():
    return {"unescape": [], "strip": [], "unquote": [], "b64": [], "liststr": [], "breakers": [], "probe": None, "outside": [], "data_ids": set()}


def run_template(src, partials, data, auto):
    import warnings

    from liquid.exceptions import LiquidError

    rec = new_rec()
    try:
        with warnings.catch_warnings():
            warnings.simplefilter("ignore")
            env = make_env(auto, partials, rec)
            pydata = {k: py_val(v) for k, v in data.items()}
            rec["data_ids"] = {id(v) for v in pydata.values() if is_other(v)}
            out = env.from_string(src).render(**pydata)
        return {"ok": out}, rec
    except LiquidError as e:
        return {"err": "error", "cls": type(e).__name__, "liquid": True}, rec
    except Exception as e:
        return {"err": "error", "cls": type(e).__name__, "liquid": False}, rec


def prims_of(rec):
    return {k: rec[k] for k in ("unescape", "strip", "unquote", "b64", "liststr")}


def data_list(data):
    return [[k, model_val(v)] for k, v in sorted(data.items())]


def scan(out: str):
    """the direct statement of the property on an output"""
    for c in out:
        if c in SPECIALS:
            return "raw", c
    if "&" in skeleton(out):
        return "amp", "&"
    return None


def amp_signature(rec):
    for b in rec["breakers"]:
        if b in AMP_CLASS:
            return "amp|" + AMP_CLASS[b]
    if rec["breakers"]:
        return "amp|by-" + rec["breakers"][0]
    return "amp|no-entity-breaking-filter"


def prim_strings(prims):
    for k in ("unescape", "strip", "unquote"):
        for a, b in prims.get(k, []):
            yield b
    for _, a, b in prims.get("b64", []):
        if b is not None:
            yield b
    for _, b in prims.get("liststr", []):
        yield b


def output_oracle(prefix, nodes, data, on, off, breakers, filters_used, prims=None):
    """None | (signature, detail). `on`/`off` = outcomes with autoescape on/off."""
    if "ok" not in on:
        return None
    out = on["ok"]
    if qualifies(nodes, data):
        bad = scan(out)
        if bad and bad[0] == "raw":
            return (f"{prefix}|raw|{bad[1]}|" + "+".join(sorted(set(filters_used))[:4]), f"raw {bad[1]!r} in output {out[:120]!r}")
        if bad:
            return (amp_signature({"breakers": breakers}), f"bare & in output {out[:120]!r}")
    # enabling autoescape never changes output that contains no special characters (an object whose __html__ differs
    # from its __str__ legitimately renders differently: the two settings read different methods)
    twofaced = any(isinstance(v, dict) and "h" in v and v["h"] != v["t"] for v in data.values())
    if "ok" in off and not twofaced and not has5(off["ok"]) and off["ok"] != out:
        # a special character can also come out of a decoding function or of str(list) (quotes of the repr)
        strings = [s for s, _ in data_strings(data)] + [x for k, x in walk_exprs(nodes) if k == "lit"] + list(prim_strings(prims or {}))
        if any(has5(s) for s in strings):
            return ("noop|escaped-value-observed", f"autoescape off: {off['ok'][:80]!r}, on: {out[:80]!r}")
        return ("noop|clean-data", f"autoescape off: {off['ok'][:80]!r}, on: {out[:80]!r} with no special character anywhere")
    return None


# ---------------------------------------------------------------------------------------------------------------------
# generators
# ---------------------------------------------------------------------------------------------------------------------
def gen_str(rng, lo=0, hi=6):
    return "".join(rng.choice(ALPHA) for _ in range(rng.range(lo, hi)))


def gen_clean_data_str(rng):
    return "".join(rng.choice(["a", "b", " ", "1", "-", ",", "m", "A", "%", ";", "+", "lt;", "\n"]) for _ in range(rng.range(0, 5)))


def gen_data(rng, clean=False, dirty_markup=False):
    g = gen_clean_data_str if clean else gen_str
    d = {}
    for v in STR_VARS:
        if rng.chance(92):
            d[v] = {"s": g(rng), "m": False}
    if rng.chance(20):
        d[rng.choice(STR_VARS)] = {"s": rng.choice(CLEAN_LITS), "m": True}
    d["m"] = {"s": gen_str(rng) if dirty_markup else rng.choice(CLEAN_LITS + ["&amp;", "&lt;b", "a&#39;"] if not clean else CLEAN_LITS), "m": True}
    d["arr"] = {"a": [{"s": g(rng), "m": (not clean) and rng.chance(12) and False} for _ in range(rng.range(0, 3))]}
    if rng.chance(30):
        d["arr"]["a"].append({"s": rng.choice(CLEAN_LITS), "m": True})
    d["n"] = {"n": str(rng.choice(INTS))}
    if rng.chance(85):
        d["k"] = {"s": rng.choice(KW_POOL + ["<"]), "m": rng.chance(20)}
    if rng.chance(85):
        d["w"] = {"s": rng.choice(KW_POOL + ["&"]), "m": False}
    if rng.chance(50):
        d["nn"] = None
    if rng.chance(30):
        d["o"] = {"h": rng.choice(CLEAN_LITS) if not dirty_markup else gen_str(rng), "t": g(rng)}
    if rng.chance(20):
        d["t"] = True
    # non-string values that a filter may receive as an *argument*: dict, float, list with non-string items
    if rng.chance(70):
        d["dct"] = {"d": {g(rng) or "k": g(rng), "n": 1} if rng.chance(70) else {g(rng): [g(rng)]}}
    if rng.chance(50):
        d["flt"] = {"d": rng.choice([1.5, -0.25, 2.0, 1e21])}
    if rng.chance(60):
        d["mx"] = {"d": [g(rng), rng.choice([1, None, True, 2.5]), g(rng)][: rng.range(2, 3)]}
    return d


def gen_arg(rng, want="str", rich=False):
    k = rng.below(100)
    if want == "int":
        if k < 75:
            return {"int": rng.choice(INTS)}
        if k < 85:
            return {"var": "n"}
        if k < 92:
            return {"lit": rng.choice(["1", "2", "-1", "0", "a"])}
        return {"var": rng.choice(["x", "nosuch", "nn"])}
    if want == "arr":
        return {"var": "arr"} if k < 85 else {"var": rng.choice(["x", "nosuch"])}
    if k < 36:
        return {"var": rng.choice(STR_VARS + ["m"])}
    if k < 80:
        return {"lit": rng.choice(CLEAN_LITS)}
    if k < 84:
        return {"int": rng.choice(INTS)}
    if k < 97 and rich:
        # every argument position can also be a variable holding a list, dict, number, bool, nil or an __html__ object
        return {"var": rng.choice(["arr", "arr", "dct", "dct", "flt", "mx", "n", "t", "nn", "o", "nosuch"])}
    if k < 97:
        return {"var": rng.choice(["nosuch", "nn", "n", "o"])}
    return None


# filter -> (input type, output type, [argument kinds], number of optional trailing args)
FSPEC = {
    "append": ("str", "str", ["str"], 0), "prepend": ("str", "str", ["str"], 0), "upcase": ("str", "str", [], 0),
    "downcase": ("str", "str", [], 0), "capitalize": ("str", "str", [], 0), "escape": ("str", "str", [], 0),
    "escape_once": ("str", "str", [], 0), "lstrip": ("str", "str", [], 0), "rstrip": ("str", "str", [], 0),
    "strip": ("str", "str", [], 0), "remove": ("str", "str", ["str"], 0), "remove_first": ("str", "str", ["str"], 0),
    "remove_last": ("str", "str", ["str"], 0), "replace": ("str", "str", ["str", "str"], 1),
    "replace_first": ("str", "str", ["str", "str"], 1), "replace_last": ("str", "str", ["str", "str"], 0),
    "slice": ("any", "same", ["int", "int"], 1), "split": ("str", "arr", ["str"], 0), "strip_html": ("str", "str", [], 0),
    "strip_newlines": ("str", "str", [], 0), "truncate": ("str", "str", ["int", "str"], 2),
    "truncatewords": ("str", "str", ["int", "str"], 2), "url_encode": ("str", "str", [], 0), "url_decode": ("str", "str", [], 0),
    "base64_encode": ("str", "str", [], 0), "base64_decode": ("str", "str", [], 0), "base64_url_safe_encode": ("str", "str", [], 0),
    "base64_url_safe_decode": ("str", "str", [], 0), "squish": ("str", "str", [], 0), "escapejs": ("str", "str", [], 0),
    "join": ("arr", "str", ["str"], 1), "first": ("arr", "str", [], 0), "last": ("arr", "str", [], 0),
    "reverse": ("arr", "arr", [], 0), "concat": ("arr", "arr", ["arr"], 0), "size": ("any", "num", [], 0),
    "default": ("any", "same", ["str"], 1),
    "safe": ("str", "str", [], 0), "newline_to_br": ("str", "str", [], 0),
}
QUAL_FILTERS = [f for f in FSPEC if f not in HTML_GEN]


def gen_fcall(rng, ty, allow_html=False):
    pool = list(FSPEC) if allow_html else QUAL_FILTERS
    if rng.chance(88):
        cand = [f for f in pool if FSPEC[f][0] in (ty, "any") or ty == "any"]
        name = rng.choice(cand or pool)
    else:
        name = rng.choice(pool)
    if name in ("base64_decode", "base64_url_safe_decode") and rng.chance(75):
        name = rng.choice(["escape", "append", "strip", "url_decode", "replace", "slice", "upcase", "escape_once"])
    _, out, kinds, opt = FSPEC[name]
    n = len(kinds) - (rng.below(opt + 1) if opt else 0)
    if rng.chance(1):
        n = max(0, n + rng.choice([-1, 1]))
    args = [gen_arg(rng, kinds[i] if i < len(kinds) else "str", rich=True) for i in range(n)]
    return [name, args], (ty if out == "same" else out)


def head_type(a):
    if isinstance(a, dict) and a.get("var") == "arr":
        return "arr"
    if isinstance(a, dict) and ("int" in a or a.get("var") == "n"):
        return "num"
    return "str"


def gen_head(rng):
    k = rng.below(100)
    if k < 55:
        return {"var": rng.choice(STR_VARS)}
    if k < 70:
        return {"var": "arr"}
    if k < 80:
        return {"lit": rng.choice(CLEAN_LITS)}
    if k < 87:
        return {"var": "m"}
    if k < 91:
        return {"var": "o"}
    if k < 93:
        return {"var": rng.choice(["nosuch", "nn", "n", "t"])}
    if k < 95:
        return {"var": rng.choice(["dct", "flt"])}
    if k < 97:
        return {"int": rng.choice(INTS)}
    return None


OTHER_VARS = ("dct", "flt", "mx")


def gen_chain(rng, maxlen=4, allow_html=False, minlen=0):
    h = gen_head(rng)
    ty = head_type(h)
    fs = []
    for _ in range(rng.range(minlen, maxlen)):
        f, ty = gen_fcall(rng, ty, allow_html)
        fs.append(f)
    return {"h": h, "f": fs}


def gen_atom(rng):
    k = rng.below(10)
    if k < 4:
        return ["truthy", {"var": rng.choice(STR_VARS + ["nn", "nosuch", "t", "arr", "n"])}]
    if k < 7:
        return ["eq", {"var": rng.choice(STR_VARS + ["m"])}, rng.choice([{"lit": rng.choice(CLEAN_LITS)}, {"var": rng.choice(STR_VARS + ["m"])}, None])]
    return ["contains", {"var": rng.choice(STR_VARS + ["arr", "m"])}, {"lit": rng.choice(["a", "b", "lt;", ";", " ", "amp"])}]


def gen_cond(rng, depth=0):
    k = rng.below(10)
    if depth >= 2 or k < 5:
        return gen_atom(rng)
    if k < 7:
        return ["not", gen_cond(rng, depth + 1)]
    return [rng.choice(["and", "or"]), gen_atom(rng), gen_cond(rng, depth + 1)]


def gen_expr(rng, maxlen=3, allow_html=False, ternary=12):
    e = gen_chain(rng, maxlen, allow_html)
    if rng.chance(ternary):
        e["c"] = gen_cond(rng)
        e["alt"] = gen_chain(rng, 2, allow_html) if rng.chance(70) else None
        ty = "str"
        tail = []
        for _ in range(rng.below(3)):
            f, ty = gen_fcall(rng, ty, allow_html)
            tail.append(f)
        e["tail"] = tail
    return e


class TplGen:
    def __init__(self, rng, allow_html=False):
        self.r = rng
        self.allow_html = allow_html
        self.np = 0
        self.loopvars = []
        self.in_render = 0

    def expr(self, maxlen=3):
        e = gen_expr(self.r, maxlen, self.allow_html)
        if self.loopvars and self.r.chance(40) and "var" in (e["h"] or {}):
            e["h"] = {"var": self.r.choice(self.loopvars)}
        return e

    def block(self, depth, line=False):
        return [self.node(depth, line) for _ in range(self.r.range(0 if depth else 1, 3 if depth else 5))]

    def node(self, depth, line=False):
        r = self.r
        k = r.below(100)
        if depth >= 3:
            k = k % 40
        if k < 12 and not line:
            return ["text", r.choice(TEXTS)]
        if k < 30:
            return ["output", self.expr()]
        if k < 40:
            e = self.expr()
            # a dict/float is only modelled through its str(): it may be written or filtered, never stored and then looped
            # over or tested
            for ch in (e, e.get("alt") or {}):
                if isinstance(ch.get("h"), dict) and ch["h"].get("var") in OTHER_VARS and not ch.get("f"):
                    ch["h"] = {"var": "x"}
            return ["assign", r.choice(STR_VARS + ["v1", "arr"] if r.chance(80) else ["m"]), e]
        if k < 48:
            return ["capture", r.choice(["c1", "c2", "x"]), self.block(depth + 1, line)]
        if k < 54:
            return ["cycle", [gen_arg(r) for _ in range(r.range(1, 3))]]
        if k < 64:
            v = r.choice(["i", "j"])
            it = {"h": {"var": r.choice(["arr", "arr", "arr", "v1", "x", "nosuch"])}, "f": []}
            self.loopvars.append(v)
            body = self.block(depth + 1, line)
            self.loopvars.pop()
            return ["for", v, it, body, self.block(depth + 1, line) if r.chance(30) else []]
        if k < 71:
            return ["if", gen_cond(r), self.block(depth + 1, line), self.block(depth + 1, line) if r.chance(50) else []]
        if k < 74:
            return ["unless", gen_cond(r), self.block(depth + 1, line), self.block(depth + 1, line) if r.chance(40) else []]
        if k < 78:
            return ["ifchain", [[gen_cond(r), self.block(depth + 1, line)] for _ in range(r.range(2, 3))], self.block(depth + 1, line) if r.chance(60) else []]
        if k < 83:
            # subject and `when` values are never assignment targets: the engine evaluates all `when` expressions of a
            # block before rendering it, the desugaring re-evaluates them
            subj = {"var": r.choice(["k", "w"])}
            whens = [[[r.choice([{"lit": r.choice(KW_POOL)}, {"var": "w"}, {"var": "k"}]) for _ in range(r.range(1, 2))], self.block(depth + 1, line)] for _ in range(r.range(1, 3))]
            return ["case", subj, whens, self.block(depth + 1, line) if r.chance(60) else []]
        if k < 88 and not line:
            saved = self.loopvars
            inner = [self.node(depth + 1, True) for _ in range(r.range(1, 4))]
            self.loopvars = saved
            return ["liquid", inner]
        if k < 95:
            # `include` is a disabled tag inside `render` (DisabledTagError): not modelled, not generated
            kind = "include" if (r.chance(50) and not self.in_render) else "render"
            self.np += 1
            name = f"p{self.np}"
            args = [[key, gen_arg(r)] for key in r.sample(["q", "x", "y"], r.below(3))]
            saved = self.loopvars
            if kind == "render":
                self.loopvars = []
                self.in_render += 1
            body = self.block(depth + 1, False)
            if kind == "render":
                self.in_render -= 1
            self.loopvars = saved
            return [kind, name, args, body]
        if line:
            return ["output", self.expr()]
        args = [[key, {"h": gen_head(r), "f": []}] for key in r.sample(["a1", "a2"], r.below(3))]  # translate arguments are primitives
        pieces = []
        for i in range(r.range(1, 4)):
            if i % 2 == 0:
                pieces.append(["t", r.choice(["Hello", "a b", "x", "amp;", "-"])])
            else:
                pieces.append(["v", r.choice(["a1", "a2", "x", "y", "m", "nosuch"])])
                pieces.append(["t", r.choice([" and", ";", "!", " x"])])
        return ["translate", args, pieces]


def filters_in(nodes):
    return [x for k, x in walk_exprs(nodes) if k == "f"]


# ---------------------------------------------------------------------------------------------------------------------
# streams
# ---------------------------------------------------------------------------------------------------------------------
class EscapeStream(Stream):
    """markupsafe.escape vs the model's table; Clean/Ent/skeleton of the model vs the harness' own scanner"""

    name = "escape"
    exhaustive = True

    def cases(self, ctx):
        import itertools

        syms = ["<", ">", "&", "'", '"', "a", ";", "&amp;", "#39;"]
        out = [""]
        for n in (1, 2, 3):
            out += ["".join(p) for p in itertools.product(syms, repeat=n)]
        rng = ctx.rng_for("escape")
        out += [gen_str(rng, 0, 10) for _ in range(ctx.scale(300, 3000))]
        out += ["é<", "a&", "&AMP;", "&amp", "&#39", "&#x27;", "&lt;&gt;&#34;&#39;&amp;"]
        return out

    def impl(self, case):
        import markupsafe

        return {"esc": str(markupsafe.escape(case)), "clean": is_clean(case), "ent": is_ent(case), "skel": skeleton(case)}

    def line(self, case):
        return ["c05escape", case]

    def oracle(self, case, obs):
        bad = scan(obs["esc"])
        if bad:
            return (f"escape|{bad[0]}", f"markupsafe.escape({case!r}) = {obs['esc']!r}")
        return None

    def nontrivial(self, case, obs):
        return has5(case)

    def tags(self, case, obs):
        return ["len%d" % min(len(case), 9)]


class MarkupStream(Stream):
    """the markupsafe.Markup operator table vs the model combinators (exact results)"""

    name = "markup"

    OPS = ["add", "escape", "join", "replace", "upper", "lower", "capitalize", "strip", "lstrip", "rstrip", "slice", "split", "rpartition",
           "iter", "out", "quote_plus", "escapejs", "str"]

    def cases(self, ctx):
        rng = ctx.rng_for("markup")
        out = []
        def t(maxlen=5):
            return {"s": gen_str(rng, 0, maxlen), "m": rng.chance(50)}
        for i in range(ctx.scale(2500, 20000)):
            op = self.OPS[i % len(self.OPS)]
            if op == "add":
                out.append([op, t(), t()])
            elif op == "escape":
                out.append([op, t()])
            elif op == "join":
                out.append([op, {"s": rng.choice([" ", ",", "", "<", "&", ", "]), "m": rng.chance(50)}, [t(3) for _ in range(rng.below(4))]])
            elif op == "replace":
                out.append([op, t(6), {"s": rng.choice(["", "a", "&", ";", "lt;", "<", "&lt;", "b", " ", "mp"]), "m": rng.chance(30)}, t(2), rng.chance(40)])
            elif op in ("upper", "lower", "capitalize", "strip", "lstrip", "rstrip", "iter"):
                out.append([op, {"s": rng.choice(["", " ", "\n", "\t "]) + gen_str(rng, 0, 4) + rng.choice(["", " ", "\r\n", "  "]), "m": rng.chance(60)}])
            elif op == "slice":
                out.append([op, t(6), rng.range(-8, 8), rng.choice([None, rng.range(-8, 8)])])
            elif op == "split":
                out.append([op, t(6), rng.choice([None, "a", "&", ";", "lt;", " ", ",", "<b>", "m"])])
            elif op == "rpartition":
                out.append([op, t(6), rng.choice(["a", "&", ";", "lt;", " ", ",", "<b>", "m", "&amp;"])])
            elif op == "out":
                v = rng.choice([t(), {"a": [t(3) for _ in range(rng.below(4))]}, {"n": str(rng.range(-1200, 1200))}, None, True, False,
                                {"h": gen_str(rng, 0, 3), "t": gen_str(rng, 0, 3)}])
                out.append([op, v])
            elif op in ("quote_plus", "escapejs"):
                out.append([op, gen_str(rng, 0, 6) + rng.choice(["", "é", " ", "/~._", "\x01", "€", "𝄞", "=`\\"])])
            else:
                out.append([op, str(rng.choice([0, 7, 10, 99, 100, -5, 12345678901234567890, -(10 ** 30), rng.range(-100000, 100000)]))])
        return out

    def impl(self, case):
        import urllib.parse

        from liquid.builtin.filters.extra import escapejs
        from liquid.stringify import to_liquid_string
        from markupsafe import Markup, escape

        def T(j):
            return Markup(j["s"]) if j["m"] else j["s"]

        def J(v):
            return {"s": str(v), "m": isinstance(v, Markup)}

        op = case[0]
        if op == "add":
            return J(T(case[1]) + T(case[2]))
        if op == "escape":
            return J(escape(T(case[1])))
        if op == "join":
            return J(T(case[1]).join(T(x) for x in case[2]))
        if op == "replace":
            s, old, new = T(case[1]), T(case[2]), T(case[3])
            return J(s.replace(old, new, 1) if case[4] else s.replace(old, new))
        if op in ("upper", "lower", "capitalize", "strip", "lstrip", "rstrip"):
            return J(getattr(T(case[1]), op)())
        if op == "slice":
            return J(T(case[1])[case[2]:case[3]])
        if op == "split":
            return [J(x) for x in T(case[1]).split(case[2])] if case[2] != "" else None
        if op == "rpartition":
            b, sep, a = T(case[1]).rpartition(case[2])
            return [J(b), J(a)] if sep else None
        if op == "iter":
            return [J(x) for x in list(T(case[1]))]
        if op == "out":
            return to_liquid_string(py_val(case[1]), True)
        if op == "quote_plus":
            return urllib.parse.quote_plus(case[1])
        if op == "escapejs":
            class E:
                autoescape = True
            r = escapejs(case[1], environment=E())
            return str(r) if isinstance(r, Markup) else "NOT-MARKUP"
        if op == "str":
            return str(int(case[1]))
        raise ValueError(op)

    def line(self, case):
        return ["c05markup"] + list(case)

    def oracle(self, case, obs):
        op = case[0]
        # a Markup produced by an operator from operands whose Markup parts are clean is clean
        def clean_in(j):
            return (not j["m"]) or is_clean(j["s"])
        if op in ("add", "join", "replace", "escape"):
            ins = [case[1]] + (case[2] if op == "join" else [case[2]] if op == "add" else [case[3]] if op == "replace" else [])
            if isinstance(obs, dict) and obs["m"] and all(clean_in(j) for j in ins) and not is_clean(obs["s"]):
                return (f"markup|{op}|raw", f"{case} -> {obs}")
        if op in ("quote_plus", "escapejs") and not is_clean(obs):
            return (f"markup|{op}|raw", f"{case} -> {obs}")
        return None

    def nontrivial(self, case, obs):
        return has5(str(case))

    def tags(self, case, obs):
        return [case[0]]


def _chain_case_run(case):
    """filter-taint / filter-pairs implementation side"""
    e = case["expr"]
    src = "{% assign c05r = " + expr_src(e) + " %}{{ c05r | c05probe }}"
    on, rec = run_template(src, {}, case["data"], True)
    off, _ = run_template(src, {}, case["data"], False)
    obs = {"on": on, "off": off, "prims": prims_of(rec), "breakers": rec["breakers"], "src": src, "outside": rec["outside"][:3]}
    if "ok" in on:
        obs["val"] = val_json(rec["probe"])
    return obs


class FilterTaintStream(Stream):
    name = "filter-taint"
    parallel = False  # ~1 ms CPU per case: a process pool only pays off for the thorough tier (set in cases())

    def cases(self, ctx):
        self.parallel = ctx.tier == "thorough"
        rng = ctx.rng_for("filter-taint")
        out = []
        for i in range(ctx.scale(4000, 40000)):
            r = rng.fork(str(i))
            html = r.chance(6)
            out.append({"expr": gen_expr(r, 4, html, ternary=10) if r.chance(97) else gen_chain(r, 6, html, 4),
                        "data": gen_data(r, clean=r.chance(8), dirty_markup=r.chance(6))})
        return out

    def impl(self, case):
        return _chain_case_run(case)

    def line_obs(self, case, obs):
        if obs["outside"]:
            return None  # a value outside the modelled domain took part (listed in ASSUMPTIONS); oracle still applies
        return ["c05chain", True, case["expr"], data_list(case["data"]), obs["prims"]]

    def compare_view(self, case, obs):
        if "ok" in obs["on"]:
            return {"val": canon_val(obs["val"]), "skel": obs["on"]["ok"] if EXACT else skeleton(obs["on"]["ok"])}
        return {"err": "error"}

    def canon_model(self, case, mobs):
        if isinstance(mobs, dict) and "val" in mobs:
            return {"val": canon_val(mobs["val"]), "skel": mobs["out"] if EXACT else mobs["skel"]}
        if isinstance(mobs, dict) and mobs.get("err") == "unmodelled":
            return "unmodelled"
        return mobs

    def _nodes(self, case):
        return [["output", case["expr"]]]

    def oracle(self, case, obs):
        return output_oracle("chain", self._nodes(case), case["data"], obs["on"], obs["off"], obs["breakers"], filters_in(self._nodes(case)), obs["prims"])

    def nontrivial(self, case, obs):
        return "ok" in obs["on"] and any(has5(s) for s, _ in data_strings(case["data"]))

    def tags(self, case, obs):
        t = ["ok" if "ok" in obs["on"] else "err:" + obs["on"].get("cls", "?")]
        t.append("qualifies" if qualifies(self._nodes(case), case["data"]) else "unqualified")
        v = obs.get("val")
        if isinstance(v, dict) and "s" in v:
            t.append("result:Markup" if v["m"] else "result:str")
        elif isinstance(v, dict) and "a" in v:
            t.append("result:list")
        t.append("len%d" % (len(case["expr"]["f"]) + len(case["expr"].get("tail") or [])))
        if obs["outside"]:
            t.append("outside-model")
        if "c" in case["expr"]:
            t.append("ternary")
        for b in obs["breakers"][:1]:
            t.append("entity-broken-by:" + b)
        return t

    def shrink_candidates(self, case):
        e = case["expr"]
        for i in range(len(e["f"])):
            d = dict(case)
            d["expr"] = dict(e, f=e["f"][:i] + e["f"][i + 1:])
            yield d
        if "c" in e:
            d = dict(case)
            d["expr"] = {"h": e["h"], "f": e["f"]}
            yield d
        for k, v in case["data"].items():
            if isinstance(v, dict) and "s" in v and v["s"]:
                for s2 in (v["s"][: len(v["s"]) // 2], v["s"][1:], v["s"][:-1]):
                    d = dict(case)
                    d["data"] = dict(case["data"])
                    d["data"][k] = {"s": s2, "m": v["m"]}
                    yield d


def _variants():
    """(filter, args) variants for the exhaustive pair stream"""
    L = lambda s: {"lit": s}
    V = lambda n: {"var": n}
    I = lambda i: {"int": i}
    return [
        ["append", [L("a")]], ["append", [V("y")]], ["prepend", [L("lt;")]], ["prepend", [V("y")]], ["upcase", []], ["downcase", []],
        ["capitalize", []], ["escape", []], ["escape_once", []], ["lstrip", []], ["rstrip", []], ["strip", []], ["remove", [L(";")]],
        ["remove", [V("y")]], ["remove_first", [L("&")]], ["remove_last", [L("lt")]], ["replace", [L("a"), V("y")]], ["replace", [L(""), L("-")]],
        ["replace", [V("y"), L("b")]], ["replace_first", [L("&"), V("y")]], ["replace_last", [L(";"), V("y")]], ["replace_last", [L("t"), L("m")]],
        ["slice", [I(0), I(2)]], ["slice", [I(-3), I(2)]], ["slice", [I(1)]], ["split", [L("")]], ["split", [L("l")]], ["split", [L(" ")]],
        ["split", [V("y")]], ["strip_html", []], ["strip_newlines", []], ["truncate", [I(3)]], ["truncate", [I(4), V("y")]], ["truncate", [I(50)]],
        ["truncatewords", [I(1)]], ["truncatewords", [I(1), V("y")]], ["url_encode", []], ["url_decode", []], ["base64_encode", []], ["base64_decode", []],
        ["base64_url_safe_encode", []], ["base64_url_safe_decode", []], ["squish", []], ["escapejs", []], ["join", []], ["join", [L(",")]],
        ["join", [V("y")]], ["first", []], ["last", []], ["reverse", []], ["concat", [V("arr")]], ["size", []], ["default", [V("y")]],
        ["default", [L("d")]],
        ["join", [V("arr")]], ["join", [V("dct")]], ["append", [V("dct")]], ["prepend", [V("mx")]], ["replace", [V("arr"), V("dct")]],
        ["split", [V("flt")]], ["truncate", [I(2), V("dct")]], ["remove", [V("n")]],
    ]


class FilterPairsStream(FilterTaintStream):
    """every ordered pair of filter variants, on fixed special-rich inputs (exhaustive over the variant table)"""

    name = "filter-pairs"
    exhaustive = True

    def cases(self, ctx):
        self.parallel = ctx.tier == "thorough"
        vs = _variants()
        inputs = [
            {"x": {"s": "<a> &amp; 'b\"&lt;%3C+", "m": False}, "y": {"s": "&<", "m": False}, "arr": {"a": [{"s": "<i>", "m": False}, {"s": "&amp;", "m": True}]}},
            {"x": {"s": " PGI+ &#39;x&#39;\n<b>t</b> ", "m": False}, "y": {"s": ";", "m": False}, "arr": {"a": [{"s": "'", "m": False}]}},
        ]
        if ctx.tier == "thorough":
            inputs.append({"x": {"s": "&lt;script&gt;", "m": True}, "y": {"s": "\"", "m": False}, "arr": {"a": []}})
        for d in inputs:
            d.update({"dct": {"d": {"<k>": "&'v\""}}, "mx": {"d": ["<i>", 1, None]}, "flt": {"d": 1.5}, "n": {"n": "7"}})
        out = []
        for d in inputs:
            for f in vs:
                out.append({"expr": {"h": {"var": "x"}, "f": [f]}, "data": d})
                out.append({"expr": {"h": {"var": "arr"}, "f": [f]}, "data": d})
                for g in vs:
                    out.append({"expr": {"h": {"var": "x"}, "f": [f, g]}, "data": d})
        return out


class RenderStream(Stream):
    name = "render"
    parallel = False

    def cases(self, ctx):
        self.parallel = ctx.tier == "thorough"
        rng = ctx.rng_for("render")
        out = []
        for i in range(ctx.scale(1500, 15000)):
            r = rng.fork(str(i))
            g = TplGen(r, allow_html=r.chance(5))
            out.append({"nodes": g.block(0), "data": gen_data(r, clean=r.chance(10), dirty_markup=r.chance(5))})
        return out

    def impl(self, case):
        partials = {}
        src = nodes_src(case["nodes"], partials)
        on, rec = run_template(src, partials, case["data"], True)
        off, rec_off = run_template(src, partials, case["data"], False)
        return {"on": on, "off": off, "prims": prims_of(rec), "prims_off": prims_of(rec_off), "breakers": rec["breakers"], "src": src, "partials": partials,
                "outside": rec["outside"][:3], "outside_off": rec_off["outside"][:3]}

    def line_obs(self, case, obs):
        if obs["outside"]:
            return None
        return ["c05render", True, to_model(case["nodes"]), data_list(case["data"]), obs["prims"]]

    def compare_view(self, case, obs):
        if "ok" in obs["on"]:
            return {"skel": obs["on"]["ok"] if EXACT else skeleton(obs["on"]["ok"])}
        return {"err": "error"}

    def canon_model(self, case, mobs):
        if isinstance(mobs, dict) and "ok" in mobs:
            return {"skel": mobs["ok"] if EXACT else mobs["skel"]}
        if isinstance(mobs, dict) and mobs.get("err") == "unmodelled":
            return "unmodelled"
        return mobs

    def oracle(self, case, obs):
        return output_oracle("render", case["nodes"], case["data"], obs["on"], obs["off"], obs["breakers"], filters_in(case["nodes"]), obs["prims"])

    def nontrivial(self, case, obs):
        return "ok" in obs["on"] and has5(obs["on"]["ok"].replace("&", "")+("&" if "E" in skeleton(obs["on"]["ok"]) else "")) or \
            ("ok" in obs["on"] and "E" in skeleton(obs["on"]["ok"]))

    def tags(self, case, obs):
        t = ["ok" if "ok" in obs["on"] else "err:" + obs["on"].get("cls", "?")]
        t.append("qualifies" if qualifies(case["nodes"], case["data"]) else "unqualified")
        kinds = set()

        def walk(ns):
            for n in ns:
                kinds.add(n[0])
                for x in n[1:]:
                    if isinstance(x, list) and x and isinstance(x[0], list) and x[0] and isinstance(x[0][0], str) and x[0][0] in NODE_KINDS:
                        walk(x)
                if n[0] == "ifchain":
                    for _, b in n[1]:
                        walk(b)
                if n[0] == "case":
                    for _, b in n[2]:
                        walk(b)
        walk(case["nodes"])
        t += ["tag:" + k for k in sorted(kinds)]
        if obs["outside"]:
            t.append("outside-model")
        if "ok" in obs["on"] and "E" in skeleton(obs["on"]["ok"]):
            t.append("escaped-something")
        return t


NODE_KINDS = {"text", "output", "echo", "assign", "capture", "cycle", "for", "if", "unless", "ifchain", "case", "liquid", "include", "render", "translate"}


class RenderOffStream(RenderStream):
    """the same model with autoescape off, against the engine with autoescape off (ties the `auto = false` half of
    autoescape_noop_on_clean to the code)"""

    name = "render-off"

    def cases(self, ctx):
        self.parallel = ctx.tier == "thorough"
        rng = ctx.rng_for("render-off")
        out = []
        for i in range(ctx.scale(500, 5000)):
            r = rng.fork(str(i))
            g = TplGen(r, allow_html=r.chance(5))
            data = gen_data(r, clean=r.chance(50), dirty_markup=False)
            # with autoescape off the engine is not meant to be handed Markup values (html.escape(Markup) stays a Markup and
            # then escapes what is added to it): outside the property and outside the `auto = false` model
            for v in data.values():
                if isinstance(v, dict) and "s" in v:
                    v["m"] = False
                elif isinstance(v, dict) and "a" in v:
                    for x in v["a"]:
                        x["m"] = False
            out.append({"nodes": g.block(0), "data": data})
        return out

    def line_obs(self, case, obs):
        if obs["outside_off"]:
            return None
        return ["c05render", False, to_model(case["nodes"]), data_list(case["data"]), obs["prims_off"]]

    def compare_view(self, case, obs):
        if "ok" in obs["off"]:
            return {"skel": obs["off"]["ok"] if EXACT else skeleton(obs["off"]["ok"])}
        return {"err": "error"}

    def nontrivial(self, case, obs):
        return "ok" in obs["off"] and len(obs["off"]["ok"]) > 0


class CycleKeyStream(RenderStream):
    """unnamed cycles with equal items share their state whether the items are literals (Markup under autoescape), plain
    strings or Markup values from the data: the on/off oracle and the model's cycle key (fix aa2433c)"""

    name = "cycle-key"
    exhaustive = True

    def cases(self, ctx):
        self.parallel = False
        out = []
        L = lambda s: {"lit": s}
        V = lambda n: {"var": n}
        groups = [[L("a"), L("b")], [V("x"), V("y")], [V("m"), L("b")], [L("a"), V("y")], [V("x"), L("c")], [V("nosuch"), L("b")], [V("z"), L("b")]]
        datas = [{"x": {"s": "a", "m": False}, "y": {"s": "b", "m": False}, "m": {"s": "a", "m": True}},
                 {"x": {"s": "a", "m": True}, "y": {"s": "b", "m": False}, "m": {"s": "a", "m": True}},
                 {"x": {"s": "<", "m": False}, "y": {"s": "b", "m": False}, "m": {"s": "&lt;", "m": True}}]
        for d in datas:
            for g1 in groups:
                for g2 in groups:
                    for g3 in (groups[0], groups[1]):
                        out.append({"nodes": [["cycle", g1], ["text", "."], ["cycle", g2], ["text", "."], ["cycle", g3]], "data": d})
        return out


class SafeValuesStream(Stream):
    """values explicitly marked safe (Markup, objects with __html__) are output unchanged"""

    name = "safe-values"

    TEMPLATES = [
        ("{{ v }}", 1), ("{% echo v %}", 1), ("{% assign w = v %}{{ w }}", 1), ("{% for i in vs %}{{ i }}{% endfor %}", 2),
        ("{{ vs | first }}{{ vs | last }}", 2), ("{{ v | default: 'd' }}", 1), ("{{ nosuch | default: v }}", 1), ("{% cycle v, v %}", 1),
        ("{% include 'p', k: v %}", 1), ("{% render 'p', k: v %}", 1), ("{{ vs }}", 2), ("{{ vs | reverse | reverse }}", 2),
        ("{{ v if true else 'x' }}", 1), ("{% if v %}{{ v }}{% endif %}", 1), ("{% capture c %}{{ v }}{% endcapture %}{{ c }}", 1),
        ("{% translate a: v %}{{ a }}{% endtranslate %}", 1), ("{{ vs | concat: vs | slice: 0, 2 }}", 2), ("{{ v | strip_newlines }}", 0),
    ]

    def cases(self, ctx):
        rng = ctx.rng_for("safe-values")
        out = []
        for i in range(ctx.scale(600, 6000)):
            s = gen_str(rng, 1, 5)
            if i % 5 == 4:
                s = s.replace("\n", "").replace("\r", "")
            s = s or "<&>"  # an empty value takes the `default` branch and is falsy in `if`: not what this stream is about
            t = i % len(self.TEMPLATES)
            out.append({"t": t, "s": s, "obj": rng.chance(25) and self.TEMPLATES[t][1] != 0})
        return out

    def impl(self, case):
        src, k = self.TEMPLATES[case["t"]]
        v = {"h": case["s"], "t": "STR"} if case["obj"] else {"s": case["s"], "m": True}
        data = {"v": v, "vs": {"a": [{"s": case["s"], "m": True}, {"s": case["s"], "m": True}]}}
        if case["obj"] and k == 2:
            data["vs"] = {"a": [{"s": case["s"], "m": True}] * 2}
        on, _ = run_template(src, {"p": "{{ k }}"}, data, True)
        return {"on": on, "expect": case["s"] * max(k, 1), "src": src, "k": k}

    has_model = False

    def shrink_candidates(self, case):
        for s2 in (case["s"][: len(case["s"]) // 2], case["s"][1:], case["s"][:-1]):
            if s2:
                yield dict(case, s=s2)

    def oracle(self, case, obs):
        if "ok" not in obs["on"]:
            return ("safe|error|" + obs["on"].get("cls", "?"), f"{obs['src']} raised")
        exp = obs["expect"]
        if obs["k"] == 0:
            exp = re.sub(r"\r?\n", "", case["s"])
        if obs["on"]["ok"] != exp:
            return (f"safe|changed|t{case['t']}" + ("|obj" if case["obj"] else ""), f"{obs['src']} with v = Markup({case['s']!r}) gave {obs['on']['ok']!r}")
        return None

    def nontrivial(self, case, obs):
        return has5(case["s"])

    def tags(self, case, obs):
        return ["t%d" % case["t"], "obj" if case["obj"] else "markup"]


class DateCacheStream(Stream):
    """the `date` filter memoises on (dat, fmt) with Markup('f') == 'f': a result computed for a trusted literal format must
    not come back, still marked safe, for an equal format string that arrives as render data (direct oracle only)"""

    name = "date-cache"
    has_model = False

    def cases(self, ctx):
        rng = ctx.rng_for("date-cache")
        out = []
        for i in range(ctx.scale(40, 400)):
            fmt = rng.choice(["<b>%Y</b>", "%Y<", "'%m'", "\"%d\"", "<%H>", "%Y&%m"]) + rng.choice(["", " ", "-", "x"]) * rng.below(3)
            out.append({"fmt": fmt, "dat": rng.choice(["2020-01-02", "1 March 2001", "2011-11-11 11:11"]), "first": rng.choice(["literal", "data"])})
        return out

    def impl(self, case):
        from liquid import Environment

        env = Environment(autoescape=True)
        q = "'" if "'" not in case["fmt"] else '"'
        lit = env.from_string("{{ d | date: " + q + case["fmt"] + q + " }}")
        dat = env.from_string("{{ d | date: f }}")
        res = {}
        order = [("literal", lit), ("data", dat)] if case["first"] == "literal" else [("data", dat), ("literal", lit)]
        for k, t in order:
            try:
                res[k] = t.render(d=case["dat"], f=case["fmt"])
            except Exception as e:
                res[k] = "ERR:" + type(e).__name__
        return res

    def oracle(self, case, obs):
        bad = scan(obs["data"]) if not obs["data"].startswith("ERR:") else None
        if bad and bad[0] == "raw":
            return ("date|cached-markup-for-data-format", f"{{{{ d | date: f }}}} with f = {case['fmt']!r} (render data) gave {obs['data']!r}")
        return None

    def nontrivial(self, case, obs):
        return case["first"] == "literal"

    def tags(self, case, obs):
        return [case["first"] + "-first"]


def streams(ctx):
    return [EscapeStream(), MarkupStream(), FilterPairsStream(), FilterTaintStream(), RenderStream(), RenderOffStream(), CycleKeyStream(), SafeValuesStream(), DateCacheStream()]
