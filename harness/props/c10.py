"""C10 — literal text, raw blocks, comments and whitespace control (liquid/lex.py and the anchored tags).

A case is `{"d": "default" | "comments", "ps": [piece…]}`; a piece is one of
    ["text", s]                                   literal text
    ["output", l, r, ws1, e, ws2]                 {{[-] ws1 e ws2 [-]}}
    ["tag", l, r, ws0, name, ws1, e, ws2]         {%[-] ws0 name ws1 e ws2 [-]%}   (any tag; `#` = inline comment,
                                                  `liquid`, and `comment` … `endcomment` delimit a block comment)
    ["raw", [l, r, ws1, ws2], body, [l, r, ws1, ws2]]      {% raw %} body {% endraw %}
    ["doc", [l, r, ws1, ws2], body, [l, r, ws1, ws2]]      {% doc %} body {% enddoc %}
    ["short", l, r, body]                         {#[-] body [-]#}   (template_comments=True only)
exactly the `Piece` type of lean/LiquidVerif/Model/Lex.lean.  `assemble` builds the source, `spec_render`
states the property directly on the piece list (the direct oracle), the Lean driver answers with the
model's matches / tokens / output.
"""
from __future__ import annotations

import re

from ..core import Stream

ID = "C10"
LEAN_MODULE = "LiquidVerif.Props.C10"
TRANSLATE = False
RULE = (
    "streams: scan (ARBITRARY strings, mostly malformed: every string of up to 3/4 atoms over two 10-atom alphabets of "
    "delimiters, hyphens, blanks, keywords, plus random concatenations of ~70 markup fragments, default / template_comments / "
    "seven custom delimiter sets: the compiled regex's finditer against the model's hand-written string scanner `scan`, and the "
    "real token list against tokenize(scan) incl. the end-of-file errors), delims (random piece lists under seven custom "
    "non-colliding delimiter sets, all four levels), spaces (all 0x110000 code points: str.isspace, regex \\s and str.strip against the model's whitespace "
    "table; exhaustive), strip (str.lstrip/rstrip against the model on whitespace-rich strings), triple (every markup "
    "kind — output, assign, echo, inline comment, liquid, raw, doc, block comment, shorthand comment, padded and "
    "unpadded — with every combination of its 2 or 4 whitespace-control markers, between every pair of text fragments "
    "from a table of plain, whitespace-only, unicode-whitespace and markup-like fragments or no text at all; default "
    "delimiters and template_comments=True; exhaustive), pair (every ordered pair of markup kinds with every "
    "combination of the facing markers and of the outer closing/opening markers, with nothing, whitespace or text "
    "between them; exhaustive), random (piece lists of 1..14 pieces: random paddings incl. unicode whitespace, nested "
    "block comments containing markup, raw bodies containing markup, markup-like text). Every case is observed at four "
    "levels, all compared with the model: `finditer` of the compiled rules against matchesOf (match), the real token list against tokenize (tokens), "
    "the parsed node list (classes and retained text) against parse (nodes), the rendered output — render() and render_async(), which must agree — against the model and against the direct specification spec_render (render). Non-trivial: "
    "some text piece next to markup has whitespace on the facing edge (so the marker decides what is output), or the "
    "case contains a raw / doc / comment piece."
)
TRUSTED_BASE = [
    "Lean 4.33 kernel; axioms subset of {propext, Classical.choice, Quot.sound}",
    "hand-written models LiquidVerif/Model/Lex.lean (pieces, assemble, matchesOf, _tokenize_template line by line) and Model/LexRender.lean (Parser._parse + the parse methods of content/comment/doc/inline-comment tags, render fold)",
    "that the hand-written string scanner `scan` (Model/LexScan.lean) equals `rules.finditer` of the compiled regex on strings — measured by stream `scan` on arbitrary (mostly malformed) strings under default, template-comment and custom delimiters. (That `scan (assemble d ps) = matchesOf d 0 ps` on well-formed piece lists is PROVED for the default delimiters with template comments off or on — scan_assemble_default — and additionally evaluated by the driver on every case, `scan_eq`; for other plain delimiter sets it is proved up to the per-piece hypothesis AllMarkupFound and evaluated likewise.)",
    "the liquid tag's line scanner model Model/LiquidLines.lean (C20's, tied there by its own stream; here it drives the render level of every liquid piece)",
    "CPython str.lstrip()/rstrip()/isspace and regex \\s agree with the model's 29-code-point whitespace table (stream spaces, exhaustive over all code points)",
    "correspondence harness harness/props/c10.py + Driver/C10.lean; the Python assemble() is compared with the model's assemble on every case",
    "what an output statement / echo / assign / liquid tag prints is a parameter (Sem) of the render theorems; the driver instantiates it with literals and assigned variables only",
]
ASSUMPTIONS = [
    "Quantifier as in the property: sources assembled from text, output statements, raw, comment, doc, inline-comment and liquid tags (plus assign/echo as representatives of 'every tag kind'); block tags such as if/for are outside it (their blank-body suppression is a different rule)",
    "Text pieces contain no opening delimiter ({{, {%, and {# when template comments are on) and expressions do not contain their own closing delimiter (srcWf) — otherwise the fragment is markup, not text",
    "Block comments are balanced inside the piece list for the comment theorems (a comment never closed is a syntax error)",
    "Delimiters: default and default + template_comments are the property's quantifier; seven custom plain delimiter sets are exercised in streams delims and scan (the scanner assumes Delims.plain: no delimiter starts with whitespace, '-' or a word character)",
    "`{#-#}` (shorthand comment, empty body, one hyphen) is outside the quantifier: the single hyphen is both the left and the right marker, so no piece list with one marker assembles to it; the observed behaviour (both sides stripped) is mirrored by the scanner and pinned by the scan stream",
]
MANIFEST = {
    "technique": "Lean 4 proof (induction over the piece list of a template, for all pieces, paddings, markers and delimiters) of a line-by-line model of _tokenize_template + parser/render of the anchored tags; a deterministic string-level scanner for the rule alternation; differential correspondence at four levels (regex matches, tokens, parsed nodes, rendered output sync+async) and scanner-vs-regex on arbitrary strings, exhaustive over marker combinations x piece kinds x neighbours",
    "text": "Theorems lex_refines_spec, nodes_split, strip_rules, strip_between, text_verbatim, whitespace_only_text, markup_item, raw_verbatim, comments_silent, render_strip_rules, render_raw_verbatim, render_comments_silent, wf_text_is_clean, tokens_start_in_source, liquid_inner_tokens_in_source, scan_text, scan_assemble_default, string_level_refines_spec, lstrip_spec, rstrip_spec hold for every piece list with no bound on length, nesting depth of comments, padding or text; the model is tied to liquid/lex.py by comparing finditer matches, token lists (values and start offsets), parsed node lists and rendered output on every generated case.",
    "note": "Trusted: Lean kernel (axioms propext/Classical.choice/Quot.sound only), the hand model, the harness, and that the hand-written string scanner `scan` equals the compiled regex's finditer (measured on arbitrary strings by stream scan, not proved). The string-level statement (scanner on the assembled string = matchesOf, hence source string -> nodes = specification) is proved at full strength for the default delimiters with template comments off or on (scan_assemble_default, string_level_refines_spec); for other plain delimiter sets it is scan_assemble_partial (residual hypothesis: each markup piece alone is found), evaluated by the driver on every case. Three defects of the original tree were repaired on fix-C10 (endraw's right marker ignored; trailing newline of a template swallowed after a right-controlled tag; empty liquid tag consuming the following token); the model mirrors the repaired code.",
}

_ESC = re.compile("\x01(\\d+);")


def unesc(x):
    """the driver writes non-ASCII code points as \\x01<decimal>; (see Driver/C10.lean `escChar`)"""
    if isinstance(x, str):
        return _ESC.sub(lambda m: chr(int(m.group(1))), x)
    if isinstance(x, list):
        return [unesc(e) for e in x]
    if isinstance(x, dict):
        return {k: unesc(v) for k, v in x.items()}
    return x


DEFAULT = ["{%", "%}", "{{", "}}", "", ""]
COMMENTS = ["{%", "%}", "{{", "}}", "{#", "#}"]


def dl_of(d):
    """delimiter set of a case: "default", "comments" (default + template_comments) or an explicit list of six strings"""
    if isinstance(d, (list, tuple)):
        return list(d)
    return COMMENTS if d == "comments" else DEFAULT


def delims(case):
    return dl_of(case["d"])


# custom delimiter sets for stream `delims`: non-colliding, none starts with whitespace, '-' or a word character
# (Delims.plain); shorthand comments only as `{#` so that the liquid tag's line-comment marker stays `#`
CUSTOM_DELIMS = [
    ["<%", "%>", "<<", ">>", "", ""],
    ["[%", "%]", "[[", "]]", "", ""],
    ["{%", "%}", "${", "}$", "{#", "#}"],
    ["<?", "?>", "<=", "=>", "", ""],
    ["(%", "%)", "((", "))", "", ""],
    ["<%%", "%%>", "<{{", "}}>", "", ""],
    ["@|", "|@", "$|", "|$", "{#", "#}"],
]


# ----------------------------------------------------------------------------------------------
# pieces -> source, and the property stated directly on pieces
# ----------------------------------------------------------------------------------------------
def hy(b):
    return "-" if b else ""


def ends_src(d, kw, x):
    return d[0] + hy(x[0]) + x[2] + kw + x[3] + hy(x[1]) + d[1]


def piece_src(d, p):
    k = p[0]
    if k == "text":
        return p[1]
    if k == "output":
        _, l, r, a, e, b = p
        return d[2] + hy(l) + a + e + b + hy(r) + d[3]
    if k == "tag":
        _, l, r, w0, n, w1, e, w2 = p
        return d[0] + hy(l) + w0 + n + w1 + e + w2 + hy(r) + d[1]
    if k == "raw":
        return ends_src(d, "raw", p[1]) + p[2] + ends_src(d, "endraw", p[3])
    if k == "doc":
        return ends_src(d, "doc", p[1]) + p[2] + ends_src(d, "enddoc", p[3])
    if k == "short":
        return d[4] + hy(p[1]) + p[3] + hy(p[2]) + d[5]
    raise ValueError(p)


def assemble(d, ps):
    return "".join(piece_src(d, p) for p in ps)


def open_hyphen(p):
    k = p[0]
    if k in ("output", "tag", "short"):
        return bool(p[1])
    if k in ("raw", "doc"):
        return bool(p[1][0])
    return False


def close_hyphen(p):
    """hyphen on the piece's *closing* delimiter — for raw/doc: the closing delimiter of endraw/enddoc"""
    k = p[0]
    if k in ("output", "tag", "short"):
        return bool(p[2])
    if k in ("raw", "doc"):
        return bool(p[3][1])
    return False


def kind_of(p):
    if p[0] == "tag":
        return {"#": "inline", "liquid": "liquid", "comment": "comment", "endcomment": "endcomment"}.get(p[4], "tag")
    return p[0]


def eval_expr(env, e):
    e = e.strip()
    if e[:1] in ("'", '"'):
        q = e[0]
        return e[1:].split(q)[0]
    if e.isdigit():
        return e
    return env.get(e, "")


def simple_tag(env, name, e):
    if name == "echo":
        return eval_expr(env, e)
    if name == "assign":
        k, _, v = e.partition("=")
        env[k.strip()] = eval_expr(env, v)
    return ""


def spec_contribs(ps):
    """The property, directly: what each piece contributes to the output.
    Text is output verbatim, except that a hyphen on the closing delimiter of the piece before removes its leading
    whitespace and a hyphen on the opening delimiter of the piece after removes its trailing whitespace; a raw body
    is output verbatim; comments (block, inline, shorthand) and doc blocks contribute nothing."""
    out = []
    env: dict = {}
    depth = 0
    for i, p in enumerate(ps):
        k = p[0]
        if depth > 0:  # inside a block comment
            if k == "tag" and p[4] == "endcomment":
                depth -= 1
            elif k == "tag" and p[4] == "comment":
                depth += 1
            out.append("")
            continue
        if k == "text":
            s = p[1]
            if i > 0 and close_hyphen(ps[i - 1]):
                s = s.lstrip()
            if i + 1 < len(ps) and open_hyphen(ps[i + 1]):
                s = s.rstrip()
            out.append(s)
        elif k == "raw":
            out.append(p[2])
        elif k in ("doc", "short"):
            out.append("")
        elif k == "output":
            out.append(eval_expr(env, p[4]))
        elif k == "tag":
            name, e = p[4], p[6]
            if name == "comment":
                depth = 1
                out.append("")
            elif name == "#":
                out.append("")
            elif name == "liquid":
                acc = []
                for ln in e.split("\n"):
                    ln = ln.strip(" \t\r")
                    if not ln or ln.startswith("#"):
                        continue
                    m = re.match(r"(\w+)[ \t]*(.*)", ln)
                    acc.append(simple_tag(env, m.group(1), m.group(2)))
                out.append("".join(acc))
            else:
                out.append(simple_tag(env, name, e))
        else:
            raise ValueError(p)
    return out


def spec_render(ps):
    return "".join(spec_contribs(ps))


def spec_content_contribs(ps):
    """per piece: the value of the `content` token the lexer must produce for it (None: no content token) —
    stripped texts and raw bodies outside comments"""
    vals = []
    depth = 0
    for i, p in enumerate(ps):
        k = p[0]
        v = None
        if depth > 0:
            if k == "tag" and p[4] == "endcomment":
                depth -= 1
            elif k == "tag" and p[4] == "comment":
                depth += 1
        elif k == "tag" and p[4] == "comment":
            depth = 1
        elif k == "text":
            s = p[1]
            if i > 0 and close_hyphen(ps[i - 1]):
                s = s.lstrip()
            if i + 1 < len(ps) and open_hyphen(ps[i + 1]):
                s = s.rstrip()
            v = s
        elif k == "raw":
            v = p[2]
        vals.append(v)
    return vals


def spec_content_tokens(ps):
    return [v for p, v in zip(ps, spec_content_contribs(ps)) if v is not None and (v or p[0] == "raw")]


def starts_markup(d, t):
    return t.startswith(d[0]) or t.startswith(d[2]) or (d[4] != "" and t.startswith(d[4]))


def text_ok(d, s, nxt):
    """no opening delimiter begins inside the text (also not across the boundary to what follows)"""
    if "{{" in s or "{%" in s or (s.endswith("{") and nxt[:1] in ("{", "%")):
        return False  # `_tokenize_template` rejects content that starts with these two literally, whatever the delimiters
    return s != "" and not any(starts_markup(d, s[i:] + nxt) for i in range(len(s)))


def mismatch_signature(ps, got, what, contribs=None):
    """Name the piece at which the output first departs from the specification, with its neighbours' markers."""
    if contribs is None:
        contribs = spec_contribs(ps)
    exp = "".join(contribs)
    n = 0
    while n < len(got) and n < len(exp) and got[n] == exp[n]:
        n += 1
    idx = None
    pos = 0
    for i, c in enumerate(contribs):
        if pos <= n < pos + len(c):
            idx = i  # the piece whose expected contribution covers the first wrong position
            break
        pos += len(c)
    if idx is None:
        # the output goes on after the expected end: blame the last text piece (it should have been stripped), else the last piece
        texts = [i for i, p in enumerate(ps) if p[0] == "text"]
        idx = texts[-1] if texts else len(ps) - 1
    elif n < len(got) and ps[idx][0] != "text":
        # something extra was written before this piece's contribution: blame the text piece just before it, if any
        if idx > 0 and ps[idx - 1][0] == "text" and n == pos:
            idx -= 1
    p = ps[idx]
    prev = ps[idx - 1] if idx > 0 else None
    nxt = ps[idx + 1] if idx + 1 < len(ps) else None
    pv = "start" if prev is None else kind_of(prev) + ("-" if close_hyphen(prev) else "")
    nx = "end" if nxt is None else ("-" if open_hyphen(nxt) else "") + kind_of(nxt)
    return f"{what}|{kind_of(p)}|after={pv}|before={nx}"


# ----------------------------------------------------------------------------------------------
# case tables
# ----------------------------------------------------------------------------------------------
TEXTS_QUICK = [None, "a", " a ", "  ", " \n a\n", " %} "]
TEXTS_MORE = ["\n", " x ", "{ {", "\n\n", "\t\r\n", " - ", "-", " }} ", "}", "{", "{ % raw % }", "endraw", " \x1c\x0c ", " {-", "#} ", "b\n\n"]
TEXTS_DEFAULT_ONLY = [" {# x #} ", "{#"]  # plain text while template comments are off

B2 = [(False, False), (False, True), (True, False), (True, True)]


def markups(flagsets="all"):
    """name -> function(flags) -> list of pieces; flags = (l, r) or (ol, or, cl, cr)"""
    return {
        "output": (2, lambda f: [["output", f[0], f[1], " ", "'O'", " "]]),
        "output_tight": (2, lambda f: [["output", f[0], f[1], "", "'O'", ""]]),
        "output_nl": (2, lambda f: [["output", f[0], f[1], "\n\t", "12", " \n"]]),
        "assign": (2, lambda f: [["tag", f[0], f[1], " ", "assign", " ", "v = 'A'", " "]]),
        "echo": (2, lambda f: [["tag", f[0], f[1], " ", "echo", " ", "'E'", " "]]),
        "echo_tight": (2, lambda f: [["tag", f[0], f[1], "", "echo", " ", "'E'", ""]]),
        "inline": (2, lambda f: [["tag", f[0], f[1], " ", "#", " ", "note {{ x }}", " "]]),
        "inline_ml": (2, lambda f: [["tag", f[0], f[1], "\n", "#", " ", "a\n  # b", "\n"]]),
        "liquid": (2, lambda f: [["tag", f[0], f[1], " ", "liquid", "\n  ", "echo 'L'\n  # c\n\n  assign w = 'M'\n  echo w", "\n"]]),
        "liquid_empty": (2, lambda f: [["tag", f[0], f[1], " ", "liquid", " ", "", ""]]),
        "raw": (4, lambda f: [["raw", [f[0], f[1], " ", " "], " R {{ x }} {% if %} ", [f[2], f[3], " ", " "]]]),
        "raw_tight": (4, lambda f: [["raw", [f[0], f[1], "", ""], "R", [f[2], f[3], "", ""]]]),
        "raw_ws": (4, lambda f: [["raw", [f[0], f[1], "\n", "\t"], "  \n", [f[2], f[3], " ", "\n"]]]),
        "raw_empty": (4, lambda f: [["raw", [f[0], f[1], " ", " "], "", [f[2], f[3], " ", " "]]]),
        "doc": (4, lambda f: [["doc", [f[0], f[1], " ", " "], " D {{ x }} ", [f[2], f[3], " ", " "]]]),
        "doc_tight": (4, lambda f: [["doc", [f[0], f[1], "", ""], "D", [f[2], f[3], "", ""]]]),
        "comment": (
            4,
            lambda f: [
                ["tag", f[0], f[1], " ", "comment", " ", "", ""],
                ["text", " C "],
                ["output", False, True, " ", "'X'", " "],
                ["text", " "],
                ["tag", f[2], f[3], " ", "endcomment", " ", "", ""],
            ],
        ),
        "comment_empty": (
            4,
            lambda f: [["tag", f[0], f[1], "", "comment", "", "", ""], ["tag", f[2], f[3], "", "endcomment", "", "", ""]],
        ),
        "comment_nested": (
            4,
            lambda f: [
                ["tag", f[0], f[1], " ", "comment", " ", "", ""],
                ["tag", True, True, " ", "comment", " ", "", ""],
                ["text", "n"],
                ["tag", True, True, " ", "endcomment", " ", "", ""],
                ["raw", [False, True, " ", " "], "{% endcomment %}", [False, True, " ", " "]],
                ["tag", f[2], f[3], " ", "endcomment", " ", "", ""],
            ],
        ),
        "short": (2, lambda f: [["short", f[0], f[1], " S {{ x }} "]]),
        "short_tight": (2, lambda f: [["short", f[0], f[1], "S"]]),
    }


QUICK_KINDS = ["output", "output_tight", "assign", "echo_tight", "inline", "liquid", "liquid_empty", "raw", "raw_empty", "doc", "comment", "comment_nested", "short"]


def flag_sets(n):
    if n == 2:
        return B2
    return [a + b for a in B2 for b in B2]


def mk_case(d, ps):
    return {"d": d, "ps": ps}


def triple_cases(ctx):
    out = []
    for d in ("default", "comments"):
        texts = list(TEXTS_QUICK) + ctx.scale([], TEXTS_MORE)
        if d == "default":
            texts = texts + ctx.scale(TEXTS_DEFAULT_ONLY[:1], TEXTS_DEFAULT_ONLY)
        dl = DEFAULT if d == "default" else COMMENTS
        for name, (n, f) in markups().items():
            if name.startswith("short") and d == "default":
                continue
            if ctx.tier != "thorough" and name not in QUICK_KINDS:
                continue
            for fl in flag_sets(n):
                m = f(fl)
                msrc = assemble(dl, m)
                for tb in texts:
                    if tb is not None and not text_ok(dl, tb, msrc):
                        continue
                    for ta in texts:
                        if ta is not None and not text_ok(dl, ta, ""):
                            continue
                        ps = ([["text", tb]] if tb is not None else []) + m + ([["text", ta]] if ta is not None else [])
                        out.append(mk_case(d, ps))
    return out


def pair_cases(ctx):
    out = []
    mids = ctx.scale([None, "  "], [None, "  ", " m ", "\n"])
    for d in ("default", "comments"):
        dl = DEFAULT if d == "default" else COMMENTS
        ms = {k: v for k, v in markups().items() if not (k.startswith("short") and d == "default")}
        base = ["output", "assign", "inline", "liquid", "raw", "doc", "comment", "short"]
        if ctx.tier == "thorough":
            base = list(ms)
        names = [n for n in base if n in ms]
        for n1 in names:
            k1, f1 = ms[n1]
            # left piece: its closing marker(s) vary; for blocks also the opening tag's right marker (the old raw defect)
            fl1 = [(False, r) for r in (False, True)] if k1 == 2 else [(False, a, False, b) for a in (False, True) for b in (False, True)]
            for n2 in names:
                k2, f2 = ms[n2]
                fl2 = [(l, False) for l in (False, True)] if k2 == 2 else [(a, False, b, False) for a in (False, True) for b in (False, True)]
                for a in fl1:
                    for b in fl2:
                        m1, m2 = f1(a), f2(b)
                        for mid in mids:
                            tail = assemble(dl, m2)
                            if mid is not None and not text_ok(dl, mid, tail):
                                continue
                            ps = [["text", " s "]] + m1 + ([["text", mid]] if mid is not None else []) + m2 + [["text", " e\n"]]
                            out.append(mk_case(d, ps))
    return out


WS_ATOMS = ["", "", " ", " ", "\u2028", "\x85\u3000", "  ", "\n", "\t", " \n ", "\r\n", " ", " ", "\x0c", "\x1f"]
TEXT_ATOMS = [
    "\u2029", "\x85", "a", "b c", "x", " ", "  ", "\n", "\n\n", "\t", "\r\n", " ", "  ", "\x1c", "-", " - ", "%}", "}}", "#}", "{", "}",
    "%", "#", "{ {", "{ %", "raw", "endraw", "{-", "-}", "comment", "<p>", "é", "日本", "{}", "}{", "%%",
]
STR_BODIES = ["", "a", "a b", " p ", "x-y", "{%", "q}", "-", "a-"]
BODY_ATOMS = ["x", " ", "\n", "{{ y }}", "{% if z %}", "{% raw %}", "{{-", "-%}", "{%- endfor -%}", "{# c #}", "endraw", "{% end raw %}", "  ", "%}", "{{"]


def gen_ws(rng):
    return rng.choice(WS_ATOMS) if rng.chance(85) else rng.choice(WS_ATOMS) + rng.choice(WS_ATOMS)


def gen_ws1(rng):
    """non-empty whitespace (between a tag name and its expression)"""
    w = gen_ws(rng)
    return w if w else " "


def gen_strlit(rng):
    q = rng.choice(["'", '"'])
    return q + rng.choice(STR_BODIES) + q


def gen_expr(rng, names):
    r = rng.below(10)
    if r < 6:
        return gen_strlit(rng)
    if r < 8:
        return str(rng.below(1000))
    return rng.choice(names + ["nosuch"])


def gen_body(rng, forbid):
    s = "".join(rng.choice(BODY_ATOMS) for _ in range(rng.below(5)))
    for f in forbid:
        if re.search(f, s, re.S):
            return "b"
    return s


def gen_flags(rng):
    # bias towards hyphens: they are what the property is about
    return rng.chance(55)


def sane(p):
    """keep a generated output/tag piece inside srcWf: an expression ending in '-' must not touch an unmarked closing delimiter"""
    if p[0] == "output" and p[4].endswith("-") and p[5] == "" and not p[2]:
        p[5] = " "
    if p[0] == "tag" and p[6].endswith("-") and p[7] == "" and not p[2]:
        p[7] = " "
    return p


def gen_markup(rng, d, names, depth=0):
    """one markup item -> list of pieces"""
    return [sane(p) if p[0] in ("output", "tag") else p for p in gen_markup0(rng, d, names, depth)]


def gen_markup0(rng, d, names, depth=0):
    dl = dl_of(d)
    kinds = ["output", "output", "assign", "echo", "inline", "liquid", "raw", "raw", "doc", "comment", "comment"]
    if dl[4] != "":
        kinds += ["short", "short"]
    k = rng.choice(kinds)
    l, r = gen_flags(rng), gen_flags(rng)
    if k == "output":
        e = gen_expr(rng, names)
        return [["output", l, r, gen_ws(rng), e, gen_ws(rng)]]
    if k == "assign":
        v = rng.choice(["v", "w", "u1"])
        if v not in names:
            names.append(v)
        return [["tag", l, r, gen_ws(rng), "assign", gen_ws1(rng), f"{v} = {gen_strlit(rng)}", gen_ws(rng)]]
    if k == "echo":
        return [["tag", l, r, gen_ws(rng), "echo", gen_ws1(rng), gen_expr(rng, names), gen_ws(rng)]]
    if k == "inline":
        txt = rng.choice(["", "note", "a b", "x\n # y", "{{ q }}", "-", "# #"])
        w1 = gen_ws(rng) if txt else ""
        return [["tag", l, r, gen_ws(rng), "#", w1 if txt else "", txt, gen_ws(rng) if txt else ""]]
    if k == "liquid":
        lines = []
        for _ in range(rng.below(4)):
            t = rng.below(4)
            if t == 0:
                lines.append("# " + rng.choice(["c", "echo 'no'", ""]))
            elif t == 1:
                v = rng.choice(["v", "w"])
                if v not in names:
                    names.append(v)
                lines.append(f"assign {v} = {gen_strlit_nl(rng)}")
            else:
                lines.append("echo " + gen_expr_nl(rng, names))
        sep = rng.choice(["\n", "\n  ", "\n\n\t"])
        e = sep.join(x for x in lines).strip()
        if not e:
            return [["tag", l, r, gen_ws(rng), "liquid", gen_ws(rng), "", ""]]
        return [["tag", l, r, gen_ws(rng), "liquid", rng.choice([" ", "\n", "\n  "]), e, rng.choice(["", " ", "\n"])]]
    if k == "raw":
        body = gen_body(rng, [r"\{%-?\s*endraw\s*-?%\}"])
        return [["raw", [l, r, gen_ws(rng), gen_ws(rng)], body, [gen_flags(rng), gen_flags(rng), gen_ws(rng), gen_ws(rng)]]]
    if k == "doc":
        body = gen_body(rng, [r"\{%-?\s*enddoc\s*-?%\}"])
        return [["doc", [l, r, gen_ws(rng), gen_ws(rng)], body, [gen_flags(rng), gen_flags(rng), gen_ws(rng), gen_ws(rng)]]]
    if k == "short":
        body = rng.choice(["", "c", " c ", " {{ x }} ", "{% raw %}", " - ", "a\nb", "#", "}"])
        if body == "" and l != r:
            # `{#-#}`: the single hyphen would be both markers at once — not a source assembled from pieces
            r = l
        return [["short", l, r, body]]
    # block comment with an arbitrary body (markup inside is lexed but never output)
    body = gen_pieces(rng, d, rng.below(4), list(names), depth + 1, tail="{%") if depth < 3 else [["text", "deep"]]
    extra = rng.choice(["", "", "", "note"])
    op = ["tag", l, r, gen_ws(rng), "comment", gen_ws1(rng) if extra else gen_ws(rng), extra, gen_ws(rng) if extra else ""]
    cl = ["tag", gen_flags(rng), gen_flags(rng), gen_ws(rng), "endcomment", gen_ws(rng), "", ""]
    return [op] + body + [cl]


def gen_strlit_nl(rng):
    q = rng.choice(["'", '"'])
    return q + rng.choice(["", "a", "a b", "x-y", "q}"]) + q


def gen_expr_nl(rng, names):
    r = rng.below(10)
    if r < 6:
        return gen_strlit_nl(rng)
    if r < 8:
        return str(rng.below(1000))
    return rng.choice(names + ["nosuch"])


def gen_text(rng):
    n = rng.range(1, 4)
    return "".join(rng.choice(TEXT_ATOMS) for _ in range(n))


def gen_pieces(rng, d, n_items, names, depth=0, tail=""):
    """a well-formed piece list: markup items separated by optional text"""
    dl = dl_of(d)
    items = []
    for _ in range(n_items):
        items.append(gen_markup(rng, d, names, depth))
    ps: list = []
    # build right to left so that each text can be checked against what follows it
    tail_src = tail
    chunks = []
    want_text = [rng.chance(70) for _ in range(n_items + 1)]
    for i in range(n_items, -1, -1):
        if want_text[i]:
            for _ in range(6):
                t = gen_text(rng)
                if text_ok(dl, t, tail_src):
                    chunks.append([["text", t]])
                    tail_src = t + tail_src
                    break
        if i > 0:
            chunks.append(items[i - 1])
            tail_src = assemble(dl, items[i - 1]) + tail_src
    for c in reversed(chunks):
        ps += c
    return ps


def delims_cases(ctx):
    """random piece lists under custom (plain, non-colliding) delimiter sets"""
    rng = ctx.rng_for("delims")
    out = []
    for i in range(ctx.scale(1200, 15000)):
        d = rng.choice(CUSTOM_DELIMS)
        ps = gen_pieces(rng, d, rng.range(1, 5), [])
        if not ps:
            ps = [["text", "t"]]
        out.append(mk_case(d, ps))
    return out


def random_cases(ctx):
    rng = ctx.rng_for("random")
    out = []
    for i in range(ctx.scale(1500, 25000)):
        d = "comments" if rng.chance(45) else "default"
        ps = gen_pieces(rng, d, rng.range(1, 6), [])
        if not ps:
            ps = [["text", "t"]]
        out.append(mk_case(d, ps))
    return out


# ----------------------------------------------------------------------------------------------
# implementation adapters
# ----------------------------------------------------------------------------------------------
_ENVS: dict = {}


def get_env(d):
    from liquid import Environment

    key = tuple(d) if isinstance(d, (list, tuple)) else d
    if key not in _ENVS:
        if isinstance(d, (list, tuple)):
            kw = dict(tag_start_string=d[0], tag_end_string=d[1], statement_start_string=d[2], statement_end_string=d[3])
            if d[4]:
                kw.update(template_comments=True, comment_start_string=d[4], comment_end_string=d[5])
            _ENVS[key] = Environment(**kw)
        else:
            _ENVS[key] = Environment(template_comments=(d == "comments"))
    return _ENVS[key]


GROUPS = {
    "RAW": (("raw", "s"), ("rsr", "b"), ("rsr_e", "b")),
    "DOC": (("doc", "s"), ("lsd", "b"), ("rsd", "b")),
    "COMMENT": (("comment", "s"), ("rsc", "b")),
    "output": (("stmt", "s"), ("rss", "b")),
    "TAG": (("name", "s"), ("expr", "s"), ("rst", "b")),
    "content": (("rstrip", "b"),),
}


def match_obs(m):
    """one regex match -> the groups `_tokenize_template` reads (same shape as Driver/C10.lean `matchJson`)"""
    kind = m.lastgroup
    o = {"kind": kind, "start": m.start(), "stop": m.end(), "value": m.group()}
    for g, t in GROUPS.get(kind, ()):
        v = m.group(g)
        o[g] = bool(v) if t == "b" else (v if v is not None else "")
    if kind == "output":
        o["stmtStart"] = m.start("stmt")
    if kind == "TAG":
        o["nameStart"] = m.start("name")
        # the tokenizer reads start("expr") only when the group is non-empty
        o["exprStart"] = m.start("expr") if m.group("expr") else None
    return o


_RULES: dict = {}


def get_rules(d):
    from liquid.lex import compile_liquid_rules

    key = tuple(d)
    if key not in _RULES:
        _RULES[key] = compile_liquid_rules(*d)
    return _RULES[key]


def impl_match(case):
    d = delims(case)
    src = assemble(d, case["ps"])
    ms = [match_obs(m) for m in get_rules(d).finditer(src)]
    # scan_eq: the model's string-level scanner must find the model's piece matches (computed by the driver)
    return {"src": src, "wf": True, "scan_eq": True, "matches": ms}


def impl_tokens(case):
    from liquid.exceptions import LiquidSyntaxError

    env = get_env(case["d"])
    src = assemble(delims(case), case["ps"])
    try:
        toks = [[t.kind, t.value, t.start_index] for t in env.tokenizer()(src)]
    except LiquidSyntaxError as e:
        msg = str(e)
        return {"err": "eof-in-output" if "'}}'" in msg.split("\n")[0] else "eof-in-tag" if "'%}'" in msg.split("\n")[0] else "syntax"}
    except Exception as e:
        return {"err": type(e).__name__}
    return {"tokens": toks}


def _run_coro(make):
    """run a coroutine that never really suspends (no loaders involved) without an event loop; fall back to one"""
    coro = make()
    try:
        coro.send(None)
    except StopIteration as stop:
        return stop.value
    coro.close()
    import asyncio

    loop = asyncio.new_event_loop()
    try:
        return loop.run_until_complete(make())
    finally:
        loop.close()


def impl_render(case):
    """render synchronously and asynchronously; one observation when they agree"""
    env = get_env(case["d"])
    src = assemble(delims(case), case["ps"])
    try:
        t = env.from_string(src)
        sync = {"out": t.render()}
    except Exception as e:
        sync = {"err": type(e).__name__}
        t = None
    try:
        t2 = env.from_string(src)
        asyn = {"out": _run_coro(lambda: t2.render_async())}
    except Exception as e:
        asyn = {"err": type(e).__name__}
    if asyn != sync:
        return dict(sync, async_differs=asyn)
    return sync


def impl_nodes(case):
    env = get_env(case["d"])
    src = assemble(delims(case), case["ps"])
    try:
        t = env.from_string(src)
    except Exception as e:
        return {"err": type(e).__name__}
    out = []
    for n in t.nodes:
        cls = type(n).__name__
        if cls == "ContentNode":
            out.append(["text", n.text])
        elif cls == "OutputNode":
            out.append(["output"])
        elif cls in ("CommentNode", "InlineCommentNode"):
            out.append(["comment", n.text])
        elif cls == "DocNode":
            out.append(["doc", n.text])
        else:
            out.append(["tag", n.token.value])
    return {"nodes": out}


def facing_whitespace(ps):
    for i, p in enumerate(ps):
        if p[0] != "text":
            continue
        s = p[1]
        if i > 0 and s[:1].isspace():
            return True
        if i + 1 < len(ps) and s[-1:].isspace():
            return True
    return False


def case_tags(case):
    ps = case["ps"]
    t = {case["d"] if isinstance(case["d"], str) else "delims=" + "".join(case["d"][:2])}
    for i, p in enumerate(ps):
        k = kind_of(p)
        t.add("kind=" + k)
        if p[0] != "text":
            if close_hyphen(p) and i + 1 < len(ps) and ps[i + 1][0] == "text":
                t.add(f"lstrip-after-{k}")
            if open_hyphen(p) and i > 0 and ps[i - 1][0] == "text":
                t.add(f"rstrip-before-{k}")
        else:
            if p[1].isspace():
                t.add("text=whitespace-only")
            if any(c in p[1] for c in "{}%#"):
                t.add("text=markup-like")
    t.add("pieces<=3" if len(ps) <= 3 else "pieces<=7" if len(ps) <= 7 else "pieces>7")
    return sorted(t)


# ----------------------------------------------------------------------------------------------
# streams
# ----------------------------------------------------------------------------------------------
class SpacesStream(Stream):
    """the whitespace table: str.isspace, regex \\s, str.strip on every code point"""

    name = "spaces"
    exhaustive = True

    def cases(self, ctx):
        return [{"lo": 0, "hi": 0x110000}]

    def impl(self, case):
        rx = re.compile(r"\s")
        a, b, c = [], [], []
        for n in range(case["lo"], case["hi"]):
            ch = chr(n)
            if ch.isspace():
                a.append(n)
            if rx.fullmatch(ch):
                b.append(n)
            if ch.strip() == "" and ("x" + ch).rstrip() == "x" and (ch + "x").lstrip() == "x":
                c.append(n)
        return {"isspace": a, "regex_s": b, "strip": c}

    def line(self, case):
        return ["c10_spaces", case["lo"], case["hi"]]

    def canon_model(self, case, mobs):
        return {"isspace": mobs, "regex_s": mobs, "strip": mobs} if isinstance(mobs, list) else mobs

    def oracle(self, case, obs):
        if not (obs["isspace"] == obs["regex_s"] == obs["strip"]):
            return ("spaces|python-notions-differ", "str.isspace, regex \\s and str.strip disagree on some code point")
        return None

    def tags(self, case, obs):
        return [f"whitespace-code-points={len(obs['isspace'])}"]


class StripStream(Stream):
    name = "strip"

    def cases(self, ctx):
        rng = ctx.rng_for("strip")
        ws = [" ", "\t", "\n", "\r", "\x0b", "\x0c", "\x1c", "\x1d", "\x1e", "\x1f", "\x85", " ", " ", " ", " ", " ", " ", " ", " ", "　"]
        non = ["a", "-", "{", "​", "é", "\x00", "\x08", "\x0e", "\x1b", "᠎", "﻿", "⁠"]
        out = [{"s": ""}]
        for _ in range(ctx.scale(400, 4000)):
            n = rng.below(8)
            out.append({"s": "".join(rng.choice(ws if rng.chance(60) else non) for _ in range(n))})
        return out

    def impl(self, case):
        return [case["s"].lstrip(), case["s"].rstrip()]

    def line(self, case):
        return ["c10_strip", case["s"]]

    def canon_model(self, case, mobs):
        return unesc(mobs)

    def oracle(self, case, obs):
        s = case["s"]
        l, r = obs
        if not (s.endswith(l) and s[: len(s) - len(l)].isspace() or l == s) or (l and l[0].isspace()):
            return ("strip|lstrip", "lstrip is not 'remove all leading whitespace'")
        if not (s.startswith(r)) or (r and r[-1].isspace()) or (s[len(r):] and not s[len(r):].isspace()):
            return ("strip|rstrip", "rstrip is not 'remove all trailing whitespace'")
        return None

    def nontrivial(self, case, obs):
        return obs[0] != case["s"] or obs[1] != case["s"]


SCAN_ATOMS = ["{%", "%}", "{{", "}}", "-", " ", "raw", "endraw", "x", "#"]
SCAN_ATOMS_C = ["{#", "#}", "{%", "%}", "-", " ", "c", "{{", "}}", "\n"]
SCAN_RANDOM_ATOMS = [
    "{%", "%}", "{{", "}}", "{#", "#}", "-", "-", " ", " ", "\n", "\t", "\r\n", "\u00a0", "\u2028", "\x0c", "raw", "endraw", "doc", "enddoc",
    "comment", "endcomment", "#", "a", "x1", "_", "if x", "'s'", "{", "}", "%", "liquid", "echo 1", "=", "|", "--", "{%-", "-%}",
    "{{-", "-}}", "{#-", "-#}", "{% raw %}", "{% endraw %}", "{%- endraw -%}", "{%raw%}", "{%-\nraw\t-%}", "{% doc %}", "{% enddoc %}",
    "{% enddoc -%}", "{{ x }}", "{{- x -}}", "{{x}}", "{% if a %}", "{%- # c -%}", "{% #c%}", "{# c #}", "{#- c -#}", "{% comment %}",
    "{% endcomment %}", "{% rawx %}", "{% raw x %}", "{% end raw %}", "{{ 'a' | f: 1 }}", "{%%}", "{{}}", "{##}", "{%-%}", "{{-}}", "{#-#}",
]


class ScanStream(Stream):
    """ARBITRARY strings (mostly not assembled from pieces, mostly malformed): `rules.finditer` of the compiled
    regex against the model's hand-written string scanner `scan` (Model/LexScan.lean) — kind, span, every group the
    tokenizer reads. This is where the regex engine is trusted and measured."""

    name = "scan"

    def cases(self, ctx):
        import itertools

        out = []
        L = ctx.scale(3, 4)
        for d, atoms in (("default", SCAN_ATOMS), ("comments", SCAN_ATOMS_C)):
            for n in range(0, L + 1):
                for tup in itertools.product(atoms, repeat=n):
                    out.append({"d": d, "s": "".join(tup)})
        rng = ctx.rng_for("scan")
        for _ in range(ctx.scale(4000, 60000)):
            d = "comments" if rng.chance(45) else "default"
            n = rng.range(1, 12)
            src = "".join(rng.choice(SCAN_RANDOM_ATOMS) for _ in range(n))
            if rng.chance(25):
                # the same string rewritten for a custom delimiter set (what is left of `{{` / `{%` is plain text there)
                d = rng.choice(CUSTOM_DELIMS)
                marks = ["{%", "%}", "{{", "}}", "{#", "#}"]
                for i, m in enumerate(marks):
                    src = src.replace(m, chr(0xE000 + i))
                for i, m in enumerate(marks):
                    src = src.replace(chr(0xE000 + i), d[i] if d[i] else m)
            out.append({"d": d, "s": src})
        return out

    def impl(self, case):
        from liquid.exceptions import LiquidSyntaxError

        d = delims(case)
        out = {"matches": [match_obs(m) for m in get_rules(d).finditer(case["s"])]}
        # the whole lexer on the same arbitrary string: tokens (kind, value, start) or the end-of-file error
        try:
            out["tokens"] = {"tokens": [[t.kind, t.value, t.start_index] for t in get_env(case["d"]).tokenizer()(case["s"])]}
        except LiquidSyntaxError as e:
            first = str(e).split("\n")[0]
            out["tokens"] = {"err": "eof-in-output" if "'}}'" in first else "eof-in-tag" if "'%}'" in first else "syntax"}
        return out

    def line(self, case):
        return ["c10_scan", delims(case), case["s"]]

    def canon_model(self, case, mobs):
        mobs = unesc(mobs)
        if isinstance(mobs, dict) and "tokens" in mobs:
            return {"matches": canon_level("match", {"matches": mobs["matches"]})["matches"], "tokens": canon_level("tokens", mobs["tokens"])}
        return mobs

    def oracle(self, case, obs):
        # the matches of the alternation tile the string (the content rule matches anything non-empty)
        if "".join(m["value"] for m in obs["matches"]) != case["s"]:
            return ("scan|matches-do-not-tile", "finditer skipped characters")
        return None

    def nontrivial(self, case, obs):
        return any(m["kind"] != "content" for m in obs["matches"]) or len(obs["matches"]) >= 2

    def tags(self, case, obs):
        t = {case["d"] if isinstance(case["d"], str) else "delims=" + "".join(case["d"][:2])}
        for m in obs["matches"]:
            t.add("kind=" + m["kind"])
        t.add("matches<=2" if len(obs["matches"]) <= 2 else "matches<=6" if len(obs["matches"]) <= 6 else "matches>6")
        return sorted(t)


LEVELS = ("match", "tokens", "nodes", "render")
IMPLS = {"match": impl_match, "tokens": impl_tokens, "nodes": impl_nodes, "render": impl_render}


def canon_level(level, mobs):
    if level == "match" and isinstance(mobs, dict) and "matches" in mobs:
        for m in mobs["matches"]:
            if m.get("kind") == "TAG" and m.get("expr") == "":
                m["exprStart"] = None
    if isinstance(mobs, dict) and "err" in mobs and "at" in mobs:
        return {"err": mobs["err"]}
    return mobs


def oracle_level(level, case, obs):
    """the property stated directly on one level of observation"""
    ps = case["ps"]
    if level == "render":
        if "async_differs" in obs:
            return ("render|async-differs", f"render() gave {({k: v for k, v in obs.items() if k != 'async_differs'})!r}, render_async() gave {obs['async_differs']!r}")
        if "err" in obs:
            kinds = ",".join(sorted({kind_of(p) for p in ps if p[0] != "text"}))
            return (f"render|raises-{obs['err']}|kinds={kinds}", f"rendering a template of text/output/raw/comment/doc/liquid pieces raised {obs['err']}")
        exp = spec_render(ps)
        if obs["out"] != exp:
            return (mismatch_signature(ps, obs["out"], "render"), f"expected {exp!r}, got {obs['out']!r}")
    elif level == "nodes":
        if "err" in obs:
            return None  # reported by the render level
        # text nodes = the specification (comment and doc nodes carry text but are of classes that render nothing)
        got = [n[1] for n in obs["nodes"] if n[0] == "text"]
        exp = spec_content_tokens(ps)
        if "".join(got) != "".join(exp):
            cc = [v or "" for v in spec_content_contribs(ps)]
            return (mismatch_signature(ps, "".join(got), "nodes", cc), f"content nodes {got!r}, expected {exp!r}")
    elif level == "tokens":
        if "err" in obs:
            return (f"tokens|raises-{obs['err']}", f"tokenizing raised {obs['err']}")
        got = [t[1] for t in obs["tokens"] if t[0] == "content"]
        exp = spec_content_tokens(ps)
        # (how the text is cut into content tokens is the model correspondence's business, not the property's)
        if "".join(got) != "".join(exp):
            cc = [v or "" for v in spec_content_contribs(ps)]
            return (mismatch_signature(ps, "".join(got), "tokens", cc), f"content tokens {got!r}, expected {exp!r}")
        src = assemble(delims(case), ps)
        for kind, value, start in obs["tokens"]:
            # every tag / expression / output token is a slice of the source at its start index
            if kind in ("tag", "expression", "output") and src[start : start + len(value)] != value:
                return (f"tokens|start-index|{kind}", f"token {kind} {value!r} is not at offset {start}")
    return None


class _PieceStream(Stream):
    """One case family; every case is observed at four levels (regex matches, tokens, parsed nodes, rendered
    output), all four compared with the model, the last three checked by the direct oracle."""

    exhaustive = False
    parallel = False  # the implementation side is a few seconds in one process; forking pools costs more
    family = "triple"

    def __init__(self, family):
        self.family = family
        self.name = family
        self.exhaustive = family in ("triple", "pair")

    def cases(self, ctx):
        return {"triple": triple_cases, "pair": pair_cases, "random": random_cases, "delims": delims_cases}[self.family](ctx)

    def impl(self, case):
        out = {}
        for lvl in LEVELS:
            try:
                out[lvl] = IMPLS[lvl](case)
            except (IndexError, KeyError, AttributeError) as e:
                # the white-box `match` level reads the regex's named groups; a refactor that renames them must not
                # take the behavioural levels (tokens, nodes, render) and their oracle down with it (seeded C10-3)
                out[lvl] = {"err": f"level-unobservable:{type(e).__name__}"}
        return out

    def line(self, case):
        return ["c10_all", delims(case), case["ps"]]

    def canon_model(self, case, mobs):
        mobs = unesc(mobs)
        if isinstance(mobs, dict) and all(l in mobs for l in LEVELS):
            return {lvl: canon_level(lvl, mobs[lvl]) for lvl in LEVELS}
        return mobs

    def oracle(self, case, obs):
        if not isinstance(obs, dict) or "render" not in obs:
            return None
        for lvl in ("render", "nodes", "tokens"):
            v = oracle_level(lvl, case, obs[lvl])
            if v is not None:
                return v
        return None

    def nontrivial(self, case, obs):
        ps = case["ps"]
        return facing_whitespace(ps) or any(kind_of(p) in ("raw", "doc", "comment", "short", "inline") for p in ps)

    def tags(self, case, obs):
        return case_tags(case)

    def shrink_candidates(self, case):
        ps = case["ps"]
        dl = delims(case)

        def ok(qs):
            # keep block comments balanced and texts non-adjacent / well formed
            depth = 0
            for i, p in enumerate(qs):
                if p[0] == "tag" and p[4] == "comment":
                    depth += 1
                elif p[0] == "tag" and p[4] == "endcomment":
                    depth -= 1
                    if depth < 0:
                        return False
                if p[0] == "text":
                    if i + 1 < len(qs) and qs[i + 1][0] == "text":
                        return False
                    if not text_ok(dl, p[1], assemble(dl, qs[i + 1 :])):
                        return False
            return depth == 0 and len(qs) > 0

        for i in range(len(ps)):
            qs = ps[:i] + ps[i + 1 :]
            if ok(qs):
                yield {"d": case["d"], "ps": qs}
        for i in range(len(ps)):
            for j in range(i + 1, len(ps)):
                qs = ps[:i] + ps[j + 1 :]
                if ok(qs):
                    yield {"d": case["d"], "ps": qs}
        for i, p in enumerate(ps):
            if p[0] == "text" and len(p[1]) > 1:
                for s in (p[1][:1], p[1][-1:], p[1][: len(p[1]) // 2], p[1][1:], p[1][:-1]):
                    qs = ps[:i] + [["text", s]] + ps[i + 1 :]
                    if s and ok(qs):
                        yield {"d": case["d"], "ps": qs}
            if p[0] in ("output", "tag", "short"):
                for k in (1, 2):
                    if p[k]:
                        q = list(p)
                        q[k] = False
                        yield {"d": case["d"], "ps": ps[:i] + [q] + ps[i + 1 :]}
            if p[0] in ("raw", "doc"):
                for a in (1, 3):
                    for k in (0, 1):
                        if p[a][k]:
                            q = [p[0], list(p[1]), p[2], list(p[3])]
                            q[a][k] = False
                            yield {"d": case["d"], "ps": ps[:i] + [q] + ps[i + 1 :]}
        if case["d"] == "comments" and not any(p[0] == "short" for p in ps):
            yield {"d": "default", "ps": ps}


def streams(ctx):
    out = [SpacesStream(), StripStream(), ScanStream()]
    for fam in ("triple", "pair", "random", "delims"):
        out.append(_PieceStream(fam))
    return out
