"""C18 — template inheritance resolves blocks to the most-derived definition (liquid/extra/tags/extends_tag.py)."""
from __future__ import annotations

import itertools

from ..core import Stream

ID = "C18"
LEAN_MODULE = "LiquidVerif.Props.C18"
TRANSLATE = False
RULE = (
    "stream pool: every chain of length 1..3 (thorough: 1..4) whose templates are drawn from a pool of 12 bodies over "
    "block names a,b (override, super, nested block, required, loop around a block, loop around super, no override, "
    "duplicate name, text around extends) — exhaustive; stream graph: every extends-graph over 1..3 (thorough 4) templates "
    "where each template extends one of the others, itself, a missing template or nothing, rendered from every template "
    "— exhaustive (all cycles, self-extends, missing parents); stream chains: random chains of length 1..4 over block names "
    "a..e with nested blocks, partial overrides, required flags, block.super at any depth, global and loop variables, loops "
    "around blocks and around super, text before/after extends, plus injected duplicates, double extends, cycles and missing "
    "parents; stream deep: blocks nested across templates up to and beyond context_depth_limit; stream endblock: every "
    "token sequence of length<=5 (thorough 6) over block/endblock tags with and without names — exhaustive. Every case is "
    "rendered by a real Environment(extra=True) with a DictLoader and by the Lean model; observation = output text or "
    "exception class. Non-trivial: the render goes through an extends tag and at least one block has two or more "
    "definitions on the chain, or the outcome is an inheritance/required-block error; for endblock: the sequence contains "
    "a named endblock. Deepening round: stream syn — on well-formed chains (pool + random) the Lean syntactic flattening "
    "`flattenSyn` rendered by the plain renderer vs the implementation, the Liquid source of the annotation-free flattened "
    "template computed by Lean and independently in Python must be the same text, and when it is hygienic and raise-free "
    "that source is rendered by a real Environment WITHOUT the extra tags and must equal the chain's output; stream async — "
    "render_async of every pool chain and random chains; stream assign — every chain of length 1..3 (thorough 4) over 8 "
    "bodies with assign/capture before/after block.super, in nested blocks and at top level, plus random chains, the root "
    "ending in probes that show what reached the base template's scope (non-trivial: some block body assigns)."
)
TRUSTED_BASE = [
    "Lean 4.33 kernel; axioms subset of {propext, Classical.choice, Quot.sound}",
    "hand-written models Model/InheritFlat.lean (syntactic flattening, plain renderer) and Model/InheritAssign.lean (locals of live contexts under assign/capture)",
    "hand-written models LiquidVerif/Model/Inherit.lean (extends_tag.py: _find_inheritance_nodes, _stack_blocks, _store_blocks, _build_block_stacks, BlockNode.render_to_output, BlockDrop super) and Model/InheritParse.lean (BlockTag.parse endblock-name check)",
    "correspondence harness harness/props/c18.py + Driver/C18.lean (differential: every case runs on the real Environment and on the model)",
    "the rest of the render pipeline (lexer, parser, output statements, for loops over ranges, RenderContext scope chain) is exercised, not modelled beyond text/variable/loop nodes",
]
MANIFEST = {
    "technique": "Lean 4 proof (functional induction over the mutually recursive renderer; induction over the extends chain) + differential correspondence on generated and exhaustively enumerated inheritance chains",
    "text": "Theorems inherit_eq_flatten (render of a leaf = declarative flatten of its chain, any length, any nesting), stacks_eq_defs, child_renders_only_blocks, required_raises, cycle_raises, dup_rejected_partial/_counterexample, endblock_mismatch_rejected, endblock_rejected_only_on_mismatch, flatten_unbounded_example, inherit_eq_flattenSyn (render = plain render of the syntactically flattened template), finite_no_depth_error, inherit_eq_plain_template/erase_scope_counterexample, super_rerendered_per_iteration, block_assign_scoped_partial/_counterexample about the model of extends_tag.py; the model is tied to the code by exhaustive small chains / extends graphs / endblock token sequences and random chains of length 1..4.",
    "note": "Trusted: Lean kernel (axioms propext/Classical.choice/Quot.sound only), the hand model of extends_tag.py, the correspondence harness. Known findings: duplicate block names in a template rendered directly (no extends) are accepted; a chain with inverted nesting and block.super has no finite flattening and lets Python's RecursionError escape (theorem flatten_unbounded_example); assign/capture in a parent definition reached through block.super, or in a directly rendered block, leak into the enclosing scope.",
}
ASSUMPTIONS = [
    "blocks contain text, output of global/loop variables, block.super, nested blocks and for-loops over literal ranges; assign/capture inside blocks are modelled separately (Model/InheritAssign.lean, without loops)",
    "extends tags are top-level nodes of a template (any position, any number)",
    "the scope.size() check of RenderContext.extend (direct/super path) is not modelled; generated nesting stays below it",
    "default Undefined (block.super without a parent renders as the empty string), autoescape off, Mode.STRICT",
]

ERRS = ("RequiredBlockError", "TemplateInheritanceError", "TemplateNotFoundError", "ContextDepthError")
LIMIT = 30  # Environment.context_depth_limit
UNBOUNDED = 200  # block activations nested deeper than this: the reference reading declares the flattening infinite
DEPTH_CLASSES = ("ContextDepthError", "RecursionError")  # "the render was aborted by a depth guard"


# ---------------------------------------------------------------------------------------------
# case AST -> Liquid source
def src_items(items) -> str:
    out = []
    for it in items:
        k = it[0]
        if k == "t":
            out.append(it[1])
        elif k == "v":
            out.append("{{ " + it[1] + " }}")
        elif k == "s":
            out.append("{{ block.super }}")
        elif k == "b":
            req = " required" if it[2] else ""
            out.append("{% block " + it[1] + req + " %}" + src_items(it[3]) + "{% endblock %}")
        elif k == "l":
            out.append("{% for " + it[1] + " in (1.." + str(it[2]) + ") %}" + src_items(it[3]) + "{% endfor %}")
        elif k == "x":
            out.append("{% extends '" + it[1] + "' %}")
        else:
            raise ValueError(it)
    return "".join(out)


def render_real(sources: dict, leaf: str, data: dict):
    from liquid import Environment
    from liquid.builtin import DictLoader

    env = Environment(extra=True, loader=DictLoader(sources))
    try:
        return {"ok": env.get_template(leaf).render(**data)}
    except Exception as e:  # class only
        return {"err": type(e).__name__}


# ---------------------------------------------------------------------------------------------
# the property, stated directly: a reference reading of "flatten the chain"
class _Raise(Exception):
    def __init__(self, cls):
        self.cls = cls


def blocks_of(items):
    """all block nodes of a template, document order"""
    out = []
    for it in items:
        if it[0] == "b":
            out.append(it)
            out += blocks_of(it[3])
        elif it[0] == "l":
            out += blocks_of(it[3])
    return out


def has_dup(items) -> bool:
    names = [b[1] for b in blocks_of(items)]
    return len(names) != len(set(names))


_EXP_CACHE: dict = {}


def expected(case):
    """Memoised per case object (oracle, non-triviality rule and tags all need it)."""
    hit = _EXP_CACHE.get(id(case))
    if hit is not None and hit[0] is case:
        return hit[1]
    r = _expected(case)
    if len(_EXP_CACHE) > 50000:
        _EXP_CACHE.clear()
    _EXP_CACHE[id(case)] = (case, r)
    return r


def _expected(case):
    """Declarative expectation: ('ok', text) | ('err', class) and a dict of facts about the case."""
    tpls = {}
    for name, tops in case["templates"]:
        tpls.setdefault(name, tops)
    data = dict((k, v) for k, v in case["data"])
    facts = {"chain": 1, "overridden": 0, "dup_direct": False, "maxdepth": 0, "via_extends": False}
    leaf = tpls.get(case["leaf"])
    if leaf is None:
        return ("err", "TemplateNotFoundError"), facts

    def lookup(scope, x):
        for k, v in scope:
            if k == x:
                return v
        return ""

    def render(items, scope, defs, supers, outer, depth):
        # defs: name -> [definition bodies most-derived first] (None: direct render, no chain)
        out = []
        for it in items:
            k = it[0]
            if k == "t":
                out.append(it[1])
            elif k == "v":
                out.append(lookup(scope, it[1]))
            elif k == "s":
                if supers:
                    # the parent definition is rendered in the context in which the block tag was met; a
                    # chained block.super is already running there (outer is None) and sees that context's loops
                    sc = scope if outer is None else outer
                    out.append(render(supers[0][3], sc, defs, supers[1:], None, depth))
            elif k == "l":
                for i in range(1, it[2] + 1):
                    out.append(render(it[3], [(it[1], str(i))] + scope, defs, supers, outer, depth))
            elif k == "b":
                chain_defs = defs.get(it[1]) if defs is not None else None
                if not chain_defs:
                    if it[2]:
                        raise _Raise("RequiredBlockError")
                    out.append(render(it[3], scope, defs, [], None, depth))
                else:
                    if chain_defs[0][2]:
                        raise _Raise("RequiredBlockError")
                    if depth > UNBOUNDED:
                        raise _Raise("<unbounded>")  # the flattened template does not exist (it is infinite)
                    facts["maxdepth"] = max(facts["maxdepth"], depth + 1)
                    out.append(render(chain_defs[0][3], scope, defs, chain_defs[1:], scope, depth + 1))
        return "".join(out)

    try:
        pre = []
        for i, top in enumerate(leaf):
            if top[0] == "x":
                break
            pre.append(top)
        else:
            # no extends: rendered directly
            facts["dup_direct"] = has_dup(leaf)
            return ("ok", render(leaf, list(data.items()), None, [], None, 0)), facts
        facts["via_extends"] = True
        head = render(pre, list(data.items()), None, [], None, 0)
        # the chain: follow extends
        chain = []
        cur = leaf
        visited = set()
        while True:
            exts = [t[1] for t in cur if t[0] == "x"]
            nodes = [t for t in cur if t[0] != "x"]
            if len(exts) > 1:
                raise _Raise("TemplateInheritanceError")
            if has_dup(nodes):
                raise _Raise("TemplateInheritanceError")
            chain.append(nodes)
            if not exts:
                break
            if exts[0] in visited:
                raise _Raise("TemplateInheritanceError")  # circular
            visited.add(exts[0])
            if exts[0] not in tpls:
                raise _Raise("TemplateNotFoundError")
            cur = tpls[exts[0]]
        facts["chain"] = len(chain)
        defs: dict = {}
        for nodes in chain:  # leaf first: most-derived first
            for b in blocks_of(nodes):
                defs.setdefault(b[1], []).append(b)
        facts["overridden"] = sum(1 for v in defs.values() if len(v) > 1)
        return ("ok", head + render(chain[-1], list(data.items()), defs, [], None, 0)), facts
    except _Raise as r:
        return ("err", r.cls), facts


def oracle_case(case, obs, what):
    exp, facts = expected(case)
    got = ("ok", obs["ok"]) if "ok" in obs else ("err", obs["err"])
    if facts["dup_direct"] and got[0] == "ok":
        return ("dup-direct|accepted", "duplicate block names in a template rendered directly (no extends) are not rejected")
    if exp == ("err", "<unbounded>"):
        # super + inverted nesting: the most-derived resolution never bottoms out. Only a Liquid depth error is acceptable.
        if got == ("err", "ContextDepthError"):
            return None
        g = got[1] if got[0] == "err" else "ok"
        return (f"unbounded-recursion|{g}", f"the chain has no finite flattening; expected ContextDepthError, got {got}")
    if exp == got:
        return None
    if got == ("err", "ContextDepthError") and facts["maxdepth"] > LIMIT:
        return None  # a resource limit (C07/C09), not an inheritance result
    if exp[0] == "ok" and got[0] == "ok":
        return (f"output|chain={facts['chain']}", f"expected {exp[1]!r}, got {got[1]!r}")
    e = exp[1] if exp[0] == "err" else "ok"
    g = got[1] if got[0] == "err" else "ok"
    return (f"expected={e}|got={g}", f"expected {exp}, got {got}")


_IDENT = __import__("re").compile(r"^[a-z][a-z0-9]*$")


def _valid_items(items) -> bool:
    for it in items:
        if not isinstance(it, list) or not it:
            return False
        k = it[0]
        if k == "t":
            ok = len(it) == 2 and isinstance(it[1], str) and "{" not in it[1]
        elif k == "v":
            ok = len(it) == 2 and bool(_IDENT.match(it[1]))
        elif k == "s":
            ok = len(it) == 1
        elif k == "b":
            ok = len(it) == 4 and bool(_IDENT.match(it[1])) and isinstance(it[2], bool) and _valid_items(it[3])
        elif k == "l":
            ok = len(it) == 4 and bool(_IDENT.match(it[1])) and isinstance(it[2], int) and 0 <= it[2] <= 5 and _valid_items(it[3])
        elif k == "x":
            ok = len(it) == 2 and bool(_IDENT.match(it[1]))
        else:
            ok = False
        if not ok:
            return False
    return True


def valid_case(case) -> bool:
    try:
        return (
            bool(_IDENT.match(case["leaf"]))
            and all(len(t) == 2 and _IDENT.match(t[0]) and _valid_items(t[1]) for t in case["templates"])
            and all(len(d) == 2 and _IDENT.match(d[0]) and isinstance(d[1], str) for d in case["data"])
        )
    except Exception:
        return False


class _InheritStream(Stream):
    parallel = True

    def shrink_candidates(self, case):
        from ..core import generic_shrinks

        for cand in generic_shrinks(case):  # structural shrinking, but only to cases that are still templates
            if valid_case(cand):
                yield cand

    def impl(self, case):
        sources = {}
        for name, tops in case["templates"]:
            sources.setdefault(name, src_items(tops))
        return render_real(sources, case["leaf"], dict((k, v) for k, v in case["data"]))

    def line(self, case):
        return ["inherit", LIMIT, case["templates"], case["leaf"], case["data"]]

    # ContextDepthError and Python's RecursionError are the same observation for this property: the render was
    # aborted by a depth guard (which guard fires first depends on interpreter frame sizes, not on inheritance).
    def compare_view(self, case, obs):
        return {"err": "depth-guard"} if obs.get("err") in DEPTH_CLASSES else obs

    def canon_model(self, case, mobs):
        return {"err": "depth-guard"} if isinstance(mobs, dict) and mobs.get("err") in DEPTH_CLASSES else mobs

    def oracle(self, case, obs):
        return oracle_case(case, obs, self.name)

    def nontrivial(self, case, obs):
        exp, facts = expected(case)
        if "err" in obs:
            return obs["err"] in ("TemplateInheritanceError", "RequiredBlockError")
        return facts["via_extends"] and facts["overridden"] >= 1

    def tags(self, case, obs):
        exp, facts = expected(case)
        t = [f"chain{facts['chain']}", "ok" if "ok" in obs else obs["err"]]
        if exp == ("err", "<unbounded>"):
            t.append("unbounded")
        if facts["via_extends"]:
            t.append(f"overridden{min(facts['overridden'], 3)}")
        if facts["maxdepth"] >= 3:
            t.append("depth>=3")
        return t


# ---------------------------------------------------------------------------------------------
def T(s):
    return ["t", s]


def B(name, body, req=False):
    return ["b", name, req, body]


POOL = [
    [T("["), B("a", [T("A0")]), T("]")],
    [B("a", [T("A1"), ["s"]])],
    [B("a", [], True)],
    [B("a", [T("<"), B("b", [T("B3"), ["s"]]), T(">")])],
    [B("b", [T("B4"), ["s"]])],
    [["l", "i", 2, [B("a", [["v", "i"], ["s"], T(",")])]]],
    [],
    [B("b", [T("x")], True), B("a", [T("A7"), ["s"], ["v", "g"]])],
    [B("a", [["l", "i", 2, [["v", "i"], ["s"]]]])],
    [B("a", [T("x")]), B("a", [T("y")])],
    [T("junk"), B("b", [T("B10")]), T("tail"), B("a", [["s"], ["s"]])],
    [B("b", [B("a", [T("A11"), ["s"]])])],
]


class PoolStream(_InheritStream):
    name = "pool"
    exhaustive = True

    def cases(self, ctx):
        out = []
        maxlen = ctx.scale(3, 4)
        for n in range(1, maxlen + 1):
            for combo in itertools.product(range(len(POOL)), repeat=n):
                tpls = []
                for k, pi in enumerate(combo):
                    tops = list(POOL[pi])
                    if k < n - 1:
                        # text before the extends tag is rendered, text after it is not
                        tops = ([T("^")] if pi == 10 else []) + [["x", f"t{k + 1}"]] + tops
                    tpls.append([f"t{k}", tops])
                out.append({"templates": tpls, "leaf": "t0", "data": [["g", "G"]]})
        return out


class GraphStream(_InheritStream):
    name = "graph"
    exhaustive = True

    def cases(self, ctx):
        out = []
        for n in range(1, ctx.scale(3, 4) + 1):
            targets = [None, "missing"] + [f"t{k}" for k in range(n)]
            for parents in itertools.product(targets, repeat=n):
                tpls = []
                for k, p in enumerate(parents):
                    body = [B("a", [T(f"A{k}"), ["s"]]), B(f"own{k}", [T(f"O{k}")])]
                    if p is None:
                        body = [T("("), B("a", [T(f"R{k}")]), T(")")]
                    tpls.append([f"t{k}", ([["x", p]] if p else []) + body])
                for leaf in range(n):
                    out.append({"templates": tpls, "leaf": f"t{leaf}", "data": []})
        return out

    def nontrivial(self, case, obs):
        return True  # every case is a distinct extends graph


NAMES = ["a", "b", "c", "d", "e"]


class ChainStream(_InheritStream):
    name = "chains"

    def cases(self, ctx):
        rng = ctx.rng_for("chains")
        return [gen_chain(rng) for _ in range(ctx.scale(1500, 20000))]


def gen_chain(rng):
    counter = [0]

    def text():
        counter[0] += 1
        return T(f"{rng.choice('xyzuvw')}{counter[0]}")

    def gen_items(avail, depth, in_block, loopvars, budget):
        """avail: block names still unused in this template (mutated)."""
        items = []
        for _ in range(rng.range(0, 3) if depth else rng.range(1, 4)):
            r = rng.range(0, 99)
            if r < 30:
                items.append(text())
            elif r < 42:
                pool = ["g0", "g1", "nope"] + loopvars
                items.append(["v", rng.choice(pool)])
            elif r < 58 and in_block:
                items.append(["s"])
            elif r < 70 and depth < 3:
                v = rng.choice(["i", "j"])
                items.append(["l", v, rng.range(0, 3), gen_items(avail, depth + 1, in_block, loopvars + [v], budget)])
            elif depth < 4 and avail and budget[0] > 0:
                budget[0] -= 1
                name = avail.pop(rng.range(0, len(avail) - 1))
                req = rng.range(0, 99) < 10
                items.append(B(name, gen_items(avail, depth + 1, True, loopvars, budget), req))
            else:
                items.append(text())
        return items

    n = rng.choice([1, 2, 2, 3, 3, 3, 4, 4])
    names = [f"t{k}" for k in range(n)]
    tpls = []
    for k in range(n):
        avail = list(NAMES)
        # shuffle the pool so that which names are (re)defined varies
        for i in range(len(avail) - 1, 0, -1):
            j = rng.range(0, i)
            avail[i], avail[j] = avail[j], avail[i]
        if k < n - 1 and rng.range(0, 2) == 0:
            avail = avail[: rng.range(1, 4)]  # partial overrides
        body = gen_items(avail, 0, False, [], [rng.range(1, 5)])
        tops = body
        if k < n - 1:
            pos = 0 if rng.range(0, 9) < 8 else rng.range(0, len(body))
            tops = body[:pos] + [["x", names[k + 1]]] + body[pos:]
        tpls.append([names[k], tops])
    # injected irregularities
    r = rng.range(0, 99)
    kind = "plain"
    if r < 7:
        kind = "dup"
        k = rng.range(0, n - 1)
        bl = blocks_of(tpls[k][1])
        if bl:
            b = rng.choice(bl)
            tpls[k][1] = tpls[k][1] + [B(b[1], [T("dup")])]
    elif r < 13 and n >= 1:
        kind = "cycle"
        tpls[n - 1][1] = [["x", names[rng.range(0, n - 1)]]] + tpls[n - 1][1]
    elif r < 16 and n >= 2:
        kind = "missing"
        k = rng.range(0, n - 2)
        tpls[k][1] = [["x", "nowhere"] if t[0] == "x" else t for t in tpls[k][1]]
    elif r < 19 and n >= 2:
        kind = "two-extends"
        k = rng.range(0, n - 2)
        tpls[k][1] = tpls[k][1] + [["x", names[k + 1]]]
    data = []
    if rng.range(0, 9) < 8:
        data.append(["g0", rng.choice(["G", "gee", ""])])
    if rng.range(0, 9) < 5:
        data.append(["g1", rng.choice(["H", "1"])])
    return {"templates": tpls, "leaf": "t0", "data": data, "kind": kind}


def chain_of(case):
    """(prefix nodes, [templates leaf first]) when the case is a well-formed chain reached through extends, else None"""
    tpls = {}
    for name, tops in case["templates"]:
        tpls.setdefault(name, tops)
    cur = tpls.get(case["leaf"])
    if cur is None:
        return None
    pre = []
    for t in cur:
        if t[0] == "x":
            break
        pre.append(t)
    else:
        return None
    chain, visited = [], set()
    while True:
        exts = [t[1] for t in cur if t[0] == "x"]
        if len(exts) > 1 or has_dup([t for t in cur if t[0] != "x"]):
            return None
        chain.append(cur)
        if not exts:
            return pre, chain
        if exts[0] in visited or exts[0] not in tpls:
            return None
        visited.add(exts[0])
        cur = tpls[exts[0]]


class SpecStream(_InheritStream):
    """The Lean *specification* (`flatten`, not the block-stack model) against the implementation, on the
    well-formed chains of the pool and of the random generator."""

    name = "spec"

    def cases(self, ctx):
        out = [c for c in PoolStream().cases(ctx) if chain_of(c) is not None]
        rng = ctx.rng_for("spec")
        n = ctx.scale(600, 8000)
        tries = 0
        while n > 0 and tries < 200000:
            tries += 1
            c = gen_chain(rng)
            if c["kind"] == "plain" and chain_of(c) is not None:
                out.append(c)
                n -= 1
        return out

    def line(self, case):
        pre, chain = chain_of(case)
        return ["flatten", LIMIT, chain, case["data"]]

    def canon_model(self, case, mobs):
        mobs = super().canon_model(case, mobs)
        pre, _ = chain_of(case)
        if isinstance(mobs, dict) and "ok" in mobs and pre:
            # nodes before the extends tag are rendered first, with no block stacks
            head, _ = expected({"templates": [["p", pre]], "leaf": "p", "data": case["data"]})
            if head[0] == "ok":
                return {"ok": head[1] + mobs["ok"]}
            return {"err": head[1]}
        return mobs

    def impl(self, case):
        obs = super().impl(case)
        return obs


# ---------------------------------------------------------------------------------------------
# syntactic flattening, written independently of the Lean `flattenSyn`
class _TooBig(Exception):
    pass


def flatten_syn(chain, budget=4000):
    """chain: templates (lists of tops) leaf first -> (plain tree, finite). Plain nodes:
    ["t",s] ["v",x] ["l",v,n,body] ["scope",body] ["outer",body] ["raise",cls].
    A chain without a finite flattening that refers to a block twice per level has a flattened template of size
    2^limit; such cases are left out of the stream (budget on the number of nodes)."""
    count = [0]
    defs: dict = {}
    for tops in chain:
        for b in blocks_of([t for t in tops if t[0] != "x"]):
            defs.setdefault(b[1], []).append(b)
    finite = [True]

    def go(items, supers, depth):
        out = []
        for it in items:
            k = it[0]
            count[0] += 1
            if count[0] > budget:
                raise _TooBig()
            if k in ("t", "v"):
                out.append(it)
            elif k == "s":
                out.append(["outer", go(supers[0][3], supers[1:], depth)] if supers else ["t", ""])
            elif k == "l":
                out.append(["l", it[1], it[2], go(it[3], supers, depth)])
            elif k == "b":
                ds = defs.get(it[1]) or []
                if not ds:
                    out.append(["raise", "RequiredBlockError"] if it[2] else ["scope", go(it[3], [], depth)])
                elif ds[0][2]:
                    out.append(["raise", "RequiredBlockError"])
                elif depth > LIMIT:
                    finite[0] = False
                    out.append(["raise", "ContextDepthError"])
                else:
                    out.append(["scope", go(ds[0][3], ds[1:], depth + 1)])
        return out

    root = [t for t in chain[-1] if t[0] != "x"]
    return go(root, [], 0), finite[0]


def plain_hygienic(nodes, under_loop=False) -> bool:
    """no first-level super body (outer) directly under a for of the definition that calls it"""
    for n in nodes:
        k = n[0]
        if k == "l":
            if not plain_hygienic(n[3], True):
                return False
        elif k == "scope":
            if not plain_hygienic(n[1], False):
                return False
        elif k == "outer":
            if under_loop or not plain_hygienic(n[1], False):
                return False
    return True


def plain_has_raise(nodes) -> bool:
    return any(n[0] == "raise" or (n[0] == "l" and plain_has_raise(n[3])) or (n[0] in ("scope", "outer") and plain_has_raise(n[1])) for n in nodes)


def src_plain(nodes) -> str:
    out = []
    for n in nodes:
        k = n[0]
        if k == "t":
            out.append(n[1])
        elif k == "v":
            out.append("{{ " + n[1] + " }}")
        elif k == "l":
            out.append("{% for " + n[1] + " in (1.." + str(n[2]) + ") %}" + src_plain(n[3]) + "{% endfor %}")
        elif k in ("scope", "outer"):
            out.append(src_plain(n[1]))
        else:
            out.append("<!" + n[1] + ">")
    return "".join(out)


class SynStream(_InheritStream):
    """The syntactic flattening: (a) Lean `flattenSyn` rendered by the plain renderer against the implementation's
    render of the chain; (b) the Liquid source of the annotation-free flattened template, computed independently in
    Python and by Lean, must be the same text; (c) when the flattened template is hygienic and has no raise node,
    that source is rendered by a real Environment *without* the extra tags and must give the chain's output."""

    name = "syn"

    @staticmethod
    def usable(c) -> bool:
        ch = chain_of(c)
        if ch is None or ch[0]:
            return False
        try:
            flatten_syn(ch[1])
        except _TooBig:
            return False
        return True

    def cases(self, ctx):
        out = [c for c in PoolStream().cases(ctx) if self.usable(c)]
        rng = ctx.rng_for("syn")
        n = ctx.scale(500, 8000)
        tries = 0
        while n > 0 and tries < 200000:
            tries += 1
            c = gen_chain(rng)
            if c["kind"] == "plain" and self.usable(c):
                out.append(c)
                n -= 1
        return out

    def impl(self, case):
        obs = super().impl(case)
        _, chain = chain_of(case)
        plain, finite = flatten_syn(chain)
        hyg = plain_hygienic(plain)
        res = {"chain": obs, "finite": finite, "hygienic": hyg, "src": src_plain(plain), "flat": None}
        if hyg and not plain_has_raise(plain):
            from liquid import Environment

            try:
                res["flat"] = {"ok": Environment().from_string(res["src"]).render(**dict((k, v) for k, v in case["data"]))}
            except Exception as e:
                res["flat"] = {"err": type(e).__name__}
        return res

    def line(self, case):
        _, chain = chain_of(case)
        return ["flatsyn", LIMIT, chain, case["data"]]

    def compare_view(self, case, obs):
        return {"out": _InheritStream.compare_view(self, case, obs["chain"]), "finite": obs["finite"], "hygienic": obs["hygienic"], "src": obs["src"]}

    def canon_model(self, case, mobs):
        if isinstance(mobs, dict) and "out" in mobs:
            return {"out": _InheritStream.canon_model(self, case, mobs["out"]), "finite": mobs["finite"], "hygienic": mobs["hygienic"], "src": mobs["src"]}
        return mobs

    def oracle(self, case, obs):
        v = oracle_case(case, obs["chain"], self.name)
        if v:
            return v
        if obs["flat"] is not None and obs["flat"] != obs["chain"]:
            return ("syn|flattened-template-differs", f"chain renders {obs['chain']}, its flattened template {obs['src']!r} renders {obs['flat']}")
        return None

    def nontrivial(self, case, obs):
        return super().nontrivial(case, obs["chain"])

    def tags(self, case, obs):
        t = super().tags(case, obs["chain"])
        t.append("hygienic" if obs["hygienic"] else "needs-scope-annotation")
        t.append("flat-rendered" if obs["flat"] is not None else "flat-not-rendered")
        if not obs["finite"]:
            t.append("not-finite")
        return t


class AsyncStream(_InheritStream):
    """The asynchronous twin (`render_async`: `_build_block_stacks_async`, `render_to_output_async` of both nodes) on
    the pool chains and random chains; same model, same oracle."""

    name = "async"

    def cases(self, ctx):
        rng = ctx.rng_for("async")
        pool = PoolStream().cases(ctx)
        if ctx.tier != "thorough":
            pool = pool[::3]
        return pool + [gen_chain(rng) for _ in range(ctx.scale(700, 10000))]

    def impl(self, case):
        import asyncio

        from liquid import Environment
        from liquid.builtin import DictLoader

        sources = {}
        for name, tops in case["templates"]:
            sources.setdefault(name, src_items(tops))
        env = Environment(extra=True, loader=DictLoader(sources))

        async def go():
            t = await env.get_template_async(case["leaf"])
            return await t.render_async(**dict((k, v) for k, v in case["data"]))

        try:
            return {"ok": asyncio.run(go())}
        except Exception as e:
            return {"err": type(e).__name__}


# ---------------------------------------------------------------------------------------------
# assign / capture inside blocks
def src_aitems(items, capture) -> str:
    out = []
    for it in items:
        k = it[0]
        if k == "t":
            out.append(it[1])
        elif k == "v":
            out.append("{{ " + it[1] + " }}")
        elif k == "a":
            if capture:
                out.append("{% capture " + it[1] + " %}" + it[2] + "{% endcapture %}")
            else:
                out.append("{% assign " + it[1] + " = '" + it[2] + "' %}")
        elif k == "s":
            out.append("{{ block.super }}")
        elif k == "b":
            out.append("{% block " + it[1] + " %}" + src_aitems(it[2], capture) + "{% endblock %}")
    return "".join(out)


def ablocks(items):
    out = []
    for it in items:
        if it[0] == "b":
            out.append(it)
            out += ablocks(it[2])
    return out


def assign_reference(chain, data, leaky: bool):
    """Reference renders of an assign-chain. leaky=False: every block activation (most-derived definition, super
    body, directly rendered block) has its own locals — "a block is its own scope". leaky=True: the implementation's
    rule as read from the code — only the copied context of a most-derived definition is scoped; a super body and a
    directly rendered block write the locals of the context of the block tag."""
    direct = len(chain) <= 1
    defs: dict = {}
    if not direct:
        for body in chain:
            for b in ablocks(body):
                defs.setdefault(b[1], []).append(b)

    def lookup(frames, x):
        for f in frames:
            if x in f:
                return f[x]
        return data.get(x, "")

    def go(items, frames, supers, in_copy, depth):
        out = []
        for it in items:
            k = it[0]
            if k == "t":
                out.append(it[1])
            elif k == "v":
                out.append(lookup(frames, it[1]))
            elif k == "a":
                frames[0][it[1]] = it[2]
            elif k == "s":
                if supers:
                    target = frames[1:] if in_copy else frames
                    if leaky:
                        out.append(go(supers[0][2], target, supers[1:], False, depth))
                    else:
                        out.append(go(supers[0][2], [{}] + target, supers[1:], False, depth))
            elif k == "b":
                ds = defs.get(it[1]) or []
                if ds:
                    if depth > LIMIT:
                        raise _Raise("ContextDepthError")
                    out.append(go(ds[0][2], [{}] + frames, ds[1:], True, depth + 1))
                elif leaky:
                    out.append(go(it[2], frames, [], False, depth))
                else:
                    out.append(go(it[2], [{}] + frames, [], False, depth))
        return "".join(out)

    try:
        return {"ok": go(chain[-1], [{}], [], False, 0)}
    except _Raise as r:
        return {"err": r.cls}
    except RecursionError:
        return {"err": "<unbounded>"}


class AssignStream(Stream):
    """Which scope do assign/capture inside a block write: every chain of length 1..3 over a pool of bodies, plus
    random chains; the root ends with probes `{{ x }}{{ y }}` that show what leaked into the base template's scope."""

    name = "assign"
    parallel = True

    VARS = ["x", "y"]

    def cases(self, ctx):
        A = lambda x, s: ["a", x, s]
        Bk = lambda n, body: ["b", n, body]
        V = lambda x: ["v", x]
        pool = [
            [Bk("a", [A("x", "1"), V("x")])],
            [Bk("a", [["s"], V("x")])],
            [Bk("a", [A("x", "2"), ["s"], V("x")])],
            [Bk("a", [["s"], A("x", "3"), V("x")])],
            [A("x", "0"), Bk("a", [V("x"), A("x", "4"), V("x")])],
            [Bk("a", [Bk("b", [A("y", "5"), ["s"]]), V("y")])],
            [Bk("b", [A("y", "6"), V("y")])],
            [],
        ]
        probes = [["t", "|"], V("x"), ["t", ","], V("y"), ["t", "|"]]
        out = []
        for n in range(1, ctx.scale(3, 4) + 1):
            for combo in itertools.product(range(len(pool)), repeat=n):
                chain = [list(pool[i]) for i in combo]
                chain[-1] = chain[-1] + probes
                for cap in (False, True):
                    out.append({"chain": chain, "data": [["y", "gy"]], "capture": cap})
        rng = ctx.rng_for("assign")
        for _ in range(ctx.scale(300, 5000)):
            out.append(gen_assign_chain(rng, probes))
        return out

    def impl(self, case):
        chain = case["chain"]
        sources = {}
        for k, body in enumerate(chain):
            head = "{% extends 't" + str(k + 1) + "' %}" if k < len(chain) - 1 else ""
            sources[f"t{k}"] = head + src_aitems(body, case["capture"])
        return render_real(sources, "t0", dict((k, v) for k, v in case["data"]))

    def line(self, case):
        return ["assign", LIMIT, case["chain"], case["data"]]

    def compare_view(self, case, obs):
        return {"err": "depth-guard"} if obs.get("err") in DEPTH_CLASSES else obs

    def canon_model(self, case, mobs):
        return {"err": "depth-guard"} if isinstance(mobs, dict) and mobs.get("err") in DEPTH_CLASSES else mobs

    def oracle(self, case, obs):
        data = dict((k, v) for k, v in case["data"])
        ideal = assign_reference(case["chain"], data, leaky=False)
        if obs == ideal or ideal.get("err") == "<unbounded>" or (obs.get("err") in DEPTH_CLASSES and ideal.get("err") in DEPTH_CLASSES):
            return None
        leaky = assign_reference(case["chain"], data, leaky=True)
        if obs == leaky:
            kind = "direct" if len(case["chain"]) <= 1 else "super"
            return (f"assign-leak|{kind}", f"a block is not its own scope: expected {ideal}, got {obs}")
        return ("assign|output", f"expected {ideal} (or, with the known leak, {leaky}), got {obs}")

    def nontrivial(self, case, obs):
        return any(it[0] == "a" for body in case["chain"] for b in ablocks(body) for it in b[2])

    def tags(self, case, obs):
        data = dict((k, v) for k, v in case["data"])
        ideal = assign_reference(case["chain"], data, leaky=False)
        return [f"chain{len(case['chain'])}", "capture" if case["capture"] else "assign", "scoped-ok" if obs == ideal else "differs-from-scoped"]

    def shrink_candidates(self, case):
        from ..core import generic_shrinks

        for cand in generic_shrinks(case["chain"]):
            if cand and all(_valid_aitems(b) for b in cand):
                yield {"chain": cand, "data": case["data"], "capture": case["capture"]}


def _valid_aitems(items) -> bool:
    for it in items:
        if not isinstance(it, list) or not it:
            return False
        k = it[0]
        if k == "t":
            ok = len(it) == 2 and isinstance(it[1], str) and "{" not in it[1]
        elif k == "v":
            ok = len(it) == 2 and bool(_IDENT.match(it[1]))
        elif k == "a":
            ok = len(it) == 3 and bool(_IDENT.match(it[1])) and isinstance(it[2], str) and it[2].isalnum()
        elif k == "s":
            ok = len(it) == 1
        elif k == "b":
            ok = len(it) == 3 and bool(_IDENT.match(it[1])) and isinstance(it[2], list) and _valid_aitems(it[2])
        else:
            ok = False
        if not ok:
            return False
    return True


def gen_assign_chain(rng, probes):
    counter = [0]

    def items(avail, depth, in_block):
        out = []
        for _ in range(rng.range(1, 4)):
            r = rng.range(0, 99)
            counter[0] += 1
            if r < 20:
                out.append(["t", f"w{counter[0]}"])
            elif r < 40:
                out.append(["v", rng.choice(["x", "y"])])
            elif r < 62:
                out.append(["a", rng.choice(["x", "y"]), str(counter[0])])
            elif r < 80 and in_block:
                out.append(["s"])
            elif avail and depth < 3:
                name = avail.pop(rng.below(len(avail)))
                out.append(["b", name, items(avail, depth + 1, True)])
            else:
                out.append(["v", rng.choice(["x", "y"])])
        return out

    n = rng.choice([1, 2, 2, 3, 3, 4])
    chain = []
    for k in range(n):
        avail = rng.shuffle(["a", "b", "c"])
        chain.append(items(avail, 0, False))
    chain[-1] = chain[-1] + probes
    return {"chain": chain, "data": [["y", "gy"]] if rng.chance(50) else [], "capture": rng.chance(40)}


def nest(names, inner, req=False):
    items = inner
    for n in reversed(names):
        items = [B(n, items, req)]
    return items


class DeepStream(_InheritStream):
    """Blocks nested across templates: the root nests r1..rk, the child overrides the innermost one with a nest
    of c1..cm; the dynamic nesting k+m goes up to and beyond context_depth_limit (static nesting of one template is
    capped at 30 by the parser)."""

    name = "deep"
    exhaustive = True
    parallel = False

    def cases(self, ctx):
        out = []
        for k in (1, 5, 14, 15, 16, 17, 25):
            for m in range(0, 28) if ctx.tier == "thorough" else (0, 3, 13, 14, 15, 16, 17, 18, 27):
                if k + m > 45:
                    continue
                root = nest([f"r{i}" for i in range(1, k + 1)], [T("R")])
                child_inner = [T("C"), ["s"]] if (k + m) % 2 == 0 else [T("C")]
                # the child overrides the innermost root block r_k with m further levels
                child = [["x", "t1"]] + nest([f"r{k}"] + [f"c{i}" for i in range(1, m + 1)], child_inner)
                out.append({"templates": [["t0", child], ["t1", root]], "leaf": "t0", "data": []})
        return out

    def nontrivial(self, case, obs):
        return True

    def tags(self, case, obs):
        exp, facts = expected(case)
        return [f"depth{min(facts['maxdepth'] // 10 * 10, 40)}+", "ok" if "ok" in obs else obs["err"]]


# ---------------------------------------------------------------------------------------------
def src_tokens(toks) -> str:
    out = []
    for t in toks:
        if t[0] == "t":
            out.append(t[1])
        elif t[0] == "o":
            out.append("{% block " + t[1] + (" required" if t[2] else "") + " %}")
        else:
            out.append("{% endblock" + (" " + t[1] if t[1] else "") + " %}")
    return "".join(out)


def expected_tokens(toks):
    """The property on a token sequence: a named endblock must name the block it closes."""
    stack = []
    for t in toks:
        if t[0] == "o":
            stack.append(t[1])
        elif t[0] == "c":
            if not stack:
                return "syntax"
            name = stack.pop()
            if t[1] and t[1] != name:
                return "mismatch"
    return "syntax" if stack else "ok"


class EndblockStream(Stream):
    name = "endblock"
    exhaustive = True
    parallel = True

    ALPHABET = [["t", "x"], ["o", "a", False], ["o", "b", False], ["o", "a", True], ["c", None], ["c", "a"], ["c", "b"]]

    def cases(self, ctx):
        out = []
        for n in range(1, ctx.scale(5, 6) + 1):
            for seq in itertools.product(self.ALPHABET, repeat=n):
                if not any(t[0] == "c" for t in seq):
                    continue
                out.append({"toks": [list(t) for t in seq]})
        return out

    def impl(self, case):
        from liquid import Environment

        env = Environment(extra=True)
        try:
            return {"ok": env.from_string(src_tokens(case["toks"])).render()}
        except Exception as e:
            return {"err": type(e).__name__}

    def line(self, case):
        return ["endblock", LIMIT, case["toks"]]

    def oracle(self, case, obs):
        exp = expected_tokens(case["toks"])
        got = obs.get("err", "ok")
        if exp == "mismatch" and got != "TemplateInheritanceError":
            return (f"endblock|mismatch|got={got}", f"a mismatched endblock name was not rejected: {src_tokens(case['toks'])!r} -> {obs}")
        if exp != "mismatch" and got == "TemplateInheritanceError":
            return ("endblock|false-rejection", f"matching endblock names rejected: {src_tokens(case['toks'])!r}")
        if exp == "syntax" and got != "LiquidSyntaxError":
            return (f"endblock|unbalanced|got={got}", f"unbalanced block tags accepted: {src_tokens(case['toks'])!r} -> {obs}")
        return None

    def nontrivial(self, case, obs):
        return any(t[0] == "c" and t[1] for t in case["toks"])

    def shrink_candidates(self, case):
        toks = case["toks"]
        for i in range(len(toks)):  # drop tokens only; names stay what they are
            yield {"toks": toks[:i] + toks[i + 1 :]}

    def tags(self, case, obs):
        return [expected_tokens(case["toks"]), "ok" if "ok" in obs else obs["err"]]


class PageStream(Stream):
    """Several chains rendered one after the other by ONE page (`{% include A %}|{% include B %}`): every chain is
    still its own root with its own most-derived blocks, i.e. the page renders the concatenation of what each template
    renders alone (metamorphic; engine only). The templates come from the `pool` stream's chains, so the same block
    names occur in different chains and in bare (non-extending) templates. Added after seeded change C18-3 (the
    per-render block-stack table was cleared at the wrong moment, so a bare base rendered after a chain showed the
    chain's overrides) was missed: every other stream renders exactly one template per render."""

    name = "page"
    has_model = False
    parallel = True

    def cases(self, ctx):
        rng = ctx.rng_for("page")
        pool = PoolStream().cases(ctx)
        out = []
        for _ in range(ctx.scale(500, 5000)):
            a = rng.choice(pool)
            tpls = dict((n, t) for n, t in a["templates"])
            names = sorted(tpls)
            # the page includes 2-3 templates of one chain family in any order, bare roots included
            order = [rng.choice(names) for _ in range(rng.range(2, 3))]
            out.append({"templates": a["templates"], "order": order, "data": a["data"]})
        return out

    def impl(self, case):
        from liquid import Environment
        from liquid.builtin import DictLoader

        sources = {}
        for name, tops in case["templates"]:
            sources.setdefault(name, src_items(tops))
        data = dict((k, v) for k, v in case["data"])

        def r(src):
            env = Environment(extra=True, loader=DictLoader(sources))
            try:
                return {"ok": env.from_string(src).render(**data)}
            except Exception as e:  # noqa: BLE001
                return {"err": type(e).__name__}

        singles = [r("{% include '" + n + "' %}") for n in case["order"]]
        page = r("|".join("{% include '" + n + "' %}" for n in case["order"]))
        return {"singles": singles, "page": page}

    def oracle(self, case, obs):
        if all("ok" in s for s in obs["singles"]):
            exp = "|".join(s["ok"] for s in obs["singles"])
            if obs["page"].get("ok") != exp:
                return ("page|chains-interfere", f"page of {case['order']} rendered {obs['page']!r}; alone they render {exp!r}")
        return None

    def nontrivial(self, case, obs):
        return all("ok" in s for s in obs["singles"]) and len(set(case["order"])) > 1

    def tags(self, case, obs):
        return ["all-ok" if all("ok" in s for s in obs["singles"]) else "some-error"]

    def shrink_candidates(self, case):
        return []


def streams(ctx):
    return [PageStream(), PoolStream(), GraphStream(), ChainStream(), SpecStream(), SynStream(), AsyncStream(), AssignStream(), DeepStream(), EndblockStream()]
