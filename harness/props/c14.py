"""C14 — variables resolve to their innermost binding (liquid/context.py, template.py, environment.py, path.py, tags)."""
from __future__ import annotations

import itertools

from ..core import Stream
from ..gen import scopegen, scopeprog, scoperef

ID = "C14"
LEAN_MODULE = "LiquidVerif.Props.C14"
TRANSLATE = False
RULE = (
    "stream order (exhaustive): one name (x / now / today) bound in every subset of the 7 layers block scope, "
    "assigned-or-captured, render argument, front matter, template global, environment global, counter (the built-in "
    "layer is there for now/today), x 4 block constructs (for / with / include argument / include bound variable) x "
    "assign|capture x assignment before or inside the block; read inside and after the block. "
    "stream nest (random): programs over text/output/assign/capture/if/for/with/increment/decrement/include/render/"
    "macro/call in random nesting order (depth<=4) over names a,b,c (+now,today,partial,forloop,size,args), three "
    "partial templates, the four global layers populated independently, reads of paths of length 1..4, both string "
    "flags, default and strict undefined, small context_depth_limit in 10%; 30% of the cases (half of the path cases) "
    "go through render_async (get_async / get_item_async are separate code). "
    "stream order_tablerow (exhaustive, engine only): the tablerow variable and tablerowloop over every subset of "
    "the five outer layers. stream path (exhaustive): 17 objects x 21 keys (names, size/first/last, indexes -4..5, bool, nested variable "
    "paths, quoted and bracketed forms) x 4 flag settings x default/strict undefined, plus random paths of length "
    "2..4 over random nested data. Non-trivial: order - at least two layers bound (for now/today the built-in layer "
    "counts); nest - the render completed and the program uses at least three kinds of binding construct (assign, "
    "capture, for, with, include, render, call, increment, decrement); path - the object is a mapping, a list or a "
    "string; paths - some read has >= 2 segments and not every read printed nothing."
)
TRUSTED_BASE = [
    "Lean 4.33 kernel; axioms subset of {propext, Classical.choice, Quot.sound}",
    "hand-written model LiquidVerif/Model/Scope.lean of RenderContext (scope chain, extend/copy/assign/get/get_item), "
    "make_globals x2, Path.evaluate and the binding tags, STRICT mode",
    "correspondence harness harness/props/c14.py + harness/gen/scope*.py + Driver/C14.lean (every case runs on the real "
    "engine, on the Lean model and on an independent reference interpreter of the documented rules)",
    "the Liquid parser maps the printed source back to the AST the generator printed (sampled by every case)",
    "CPython dict/list/str `__getitem__`, `len`, `str()`/`repr()` of the data classes used (modelled, sampled)",
    "the wall clock is pinned by the harness (datetime.now / date.today in liquid/context.py)",
]
ASSUMPTIONS = [
    "data values are None/bool/int/str/list/dict with string keys; strings contain no quotes or backslashes (repr is modelled literally)",
    "a bare `forloop` object is never printed, copied or iterated (the model keeps the drop as the mapping of its 9 keys)",
    "filters, limit/offset/reversed, break/continue, tablerow cols, block.super, required blocks, autoescape, LAX/WARN modes and resource limits other than context_depth_limit are outside this model",
    "the name `partial` is a block-scope variable pushed by every template (False at top level, True in partials): it shadows assignments; mirrored, not judged",
]
MANIFEST = {
    "technique": "Lean 4 proof (chain-lookup theorems, functional induction over six mutually recursive render functions for push/pop balance, get_item against a declarative table) + differential correspondence with an independent reference interpreter",
    "text": "Theorems lookup_order, lookup_order_chain, assign_hits_locals, capture_hits_locals, scope_balanced (+_block, _partial), block_names_vanish, include_shares_scope, get_item_spec, path_resolution, missing_root_is_undefined, missing_step_is_undefined, strict_only_undefined_error, eval_total_default hold for every state, nesting depth, template set and path; the model is tied to the code by exhaustive layer-subset and object x key streams and random nested programs.",
    "note": "Trusted: Lean kernel, the hand model of RenderContext / path resolution / the binding tags (STRICT mode), the harness and its printer/generators, CPython container semantics. Filters, loop options, tablerow and non-strict modes are owned by other properties.",
}

LAYERS = ["B", "L", "A", "M", "T", "E", "C"]


def order_prog(name, subset, bkind, lkind, inside):
    rd = [["text", "<"], ["out", ["path", ["n", name], []]], ["text", ">"]]
    local = [["assign", name, ["lit", "L"]]] if lkind == "assign" else [["capture", name, [["text", "L"]]]]
    pre, partials = [], {}
    if "C" in subset:
        pre += [["incr", name], ["text", ";"]]
    if "L" in subset and not inside:
        pre += local
    inner = (local if ("L" in subset and inside) else []) + rd
    if "B" in subset:
        if bkind == "for":
            blk = [["for", name, name + "-zz", ["path", ["n", "zz"], []], inner, []]]
        elif bkind == "with":
            blk = [["with", [[name, ["lit", "B"]]], inner]]
        elif bkind == "incarg":
            partials["rd"] = inner
            blk = [["include", "rd", None, [[name, ["lit", "B"]]]]]
        else:
            partials["rd"] = inner
            blk = [["include", "rd", [["path", ["n", "zz"], []], name], []]]
    else:
        blk = inner
    main = pre + blk + rd
    prog = {"main": main, "partials": partials, "args": {"zz": ["B"]}, "matter": {}, "tglobals": {}, "eglobals": {}}
    if "A" in subset:
        prog["args"][name] = "A"
    if "M" in subset:
        prog["matter"][name] = "M"
    if "T" in subset:
        prog["tglobals"][name] = "T"
    if "E" in subset:
        prog["eglobals"][name] = "E"
    return prog


def order_expected(name, subset, inside):
    """The property, directly: the innermost populated layer."""
    def outer(with_local):
        if with_local:
            return "L"
        for k, v in (("A", "A"), ("M", "M"), ("T", "T"), ("E", "E")):
            if k in subset:
                return v
        if name == "now":
            return "2001-02-03 04:05:06.000007"
        if name == "today":
            return "2001-02-03"
        if "C" in subset:
            return "1"
        return ""

    has_l = "L" in subset
    first = "B" if "B" in subset else outer(has_l)
    second = outer(has_l)
    return ("0;" if "C" in subset else "") + "<" + first + "><" + second + ">"


class OrderStream(Stream):
    name = "order"
    exhaustive = True
    parallel = True

    def cases(self, ctx):
        out = []
        for name in ("x", "now", "today"):
            for r in range(len(LAYERS) + 1):
                for subset in itertools.combinations(LAYERS, r):
                    for bkind in (("for", "with", "incarg", "incbound") if "B" in subset else ("-",)):
                        for lkind in (("assign", "capture") if "L" in subset else ("-",)):
                            for inside in ((False, True) if ("L" in subset and "B" in subset) else (False,)):
                                out.append({"name": name, "subset": list(subset), "bkind": bkind, "lkind": lkind, "inside": inside})
        return out

    def prog(self, case):
        return order_prog(case["name"], case["subset"], case["bkind"], case["lkind"], case["inside"])

    def impl(self, case):
        return scopeprog.run_impl(self.prog(case))

    def line(self, case):
        return scopeprog.model_line(self.prog(case))

    def oracle(self, case, obs):
        exp = order_expected(case["name"], case["subset"], case["inside"])
        if obs.get("ok") != exp:
            top = case["subset"][0] if case["subset"] else "none"
            return (f"order|{case['name'] if case['name'] != 'x' else 'name'}|top={top}|{case['bkind']}|{case['lkind']}",
                    f"expected {exp!r}, got {obs}")
        return None

    def nontrivial(self, case, obs):
        return len(case["subset"]) + (1 if case["name"] != "x" else 0) >= 2

    def tags(self, case, obs):
        return [f"layers{len(case['subset'])}", case["bkind"], case["name"]]


class NestStream(Stream):
    name = "nest"
    parallel = True

    def cases(self, ctx):
        n = ctx.scale(2000, 20000)
        rng = ctx.rng_for("nest")
        return [scopegen.gen_program(rng.fork(f"p{i}")) for i in range(n)]

    def impl(self, case):
        return scopeprog.run_impl(case)

    def line(self, case):
        return scopeprog.model_line(case)

    def oracle(self, case, obs):
        exp = scoperef.Ref(case).run()
        if exp != obs:
            return (nest_signature(case, exp, obs), f"documented scoping gives {exp}, engine gave {obs}")
        return None

    def nontrivial(self, case, obs):
        ks = scopegen.kinds_of(case)
        binders = ks & {"for", "with", "include", "render", "capture", "assign", "call", "incr", "decr"}
        return "ok" in obs and len(binders) >= 3

    def tags(self, case, obs):
        t = ["ok" if "ok" in obs else obs["err"]]
        t += sorted(scopegen.kinds_of(case) & {"for", "with", "include", "render", "macro", "call", "capture"})
        if case.get("strict"):
            t.append("strict")
        if case.get("async"):
            t.append("async")
        return t

    def shrink_candidates(self, case):
        yield from shrink_prog(case)


def nest_signature(case, exp, obs):
    if "err" in obs or "err" in exp:
        return f"nest|outcome|{exp.get('err', 'ok')}->{obs.get('err', 'ok')}"
    ks = scopegen.kinds_of(case)
    part = "+".join(k for k in ("render", "call", "include", "for", "with", "capture") if k in ks) or "flat"
    return f"nest|value|{part}"


def shrink_prog(case):
    """Drop statements (any depth), partials and global bindings."""
    def drop_in(nodes):
        for i in range(len(nodes)):
            yield nodes[:i] + nodes[i + 1:]
        for i, n in enumerate(nodes):
            for sub in {"capture": [2], "if": [2, 3], "for": [4, 5], "with": [2], "macro": [3]}.get(n[0], []):
                for v in drop_in(n[sub]):
                    m = list(n)
                    m[sub] = v
                    yield nodes[:i] + [m] + nodes[i + 1:]
                if n[0] in ("if", "with", "capture") and sub == 2:
                    yield nodes[:i] + n[2] + nodes[i + 1:]

    for v in drop_in(case["main"]):
        yield dict(case, main=v)
    for k, body in case.get("partials", {}).items():
        for v in drop_in(body):
            yield dict(case, partials=dict(case["partials"], **{k: v}))
    for layer in ("args", "matter", "tglobals", "eglobals"):
        for k in list(case.get(layer) or {}):
            d = dict(case[layer])
            del d[k]
            yield dict(case, **{layer: d})
    for flag in ("strict", "sseq", "sfl"):
        if case.get(flag):
            yield dict(case, **{flag: False})


# ---- paths ------------------------------------------------------------------------------------------
OBJECTS = [
    {"k": 1, "m": "v"}, {"size": 7, "first": "F", "last": "L"}, {}, {"k": {"k": [1, 2, 3]}, "x y": 5, "0": "z"},
    [10, 20, 30], [], [[1, 2], {"k": "q"}, "hey"], ["a"], "hey", "", "a b", 5, 0, True, None, {"k": None, "m": []},
    [None, False, 0, ""],
]
KEYSPECS = (
    [("n", k) for k in ("k", "m", "zz", "size", "first", "last", "x y", "0")]
    + [("i", i) for i in (0, 1, 2, -1, -3, -4, 5)]
    + [("v", v) for v in ("kk", "ii", "nn", "bt", "uu", "ll")]   # nested variable paths: -> "k", 1, None, True, undefined, a list
)
VARS = {"kk": "k", "ii": 1, "nn": None, "bt": True, "ll": [1]}


def key_seg(spec):
    if spec[0] == "n":
        return ["n", spec[1]]
    if spec[0] == "i":
        return ["i", spec[1]]
    return ["p", ["n", spec[1]], []]


class PathStream(Stream):
    name = "path"
    exhaustive = True
    parallel = True

    def cases(self, ctx):
        out = []
        for oi in range(len(OBJECTS)):
            for ki in range(len(KEYSPECS)):
                for flags in range(4):
                    for strict in (False, True):
                        out.append({"obj": oi, "key": ki, "sseq": bool(flags & 1), "sfl": bool(flags & 2), "strict": strict, "quote": (oi + ki) % 3})
        # deeper: every object under a 2- and 3-segment prefix, with a second step
        for oi in range(len(OBJECTS)):
            for ki in range(len(KEYSPECS)):
                for k2 in (0, 3, 8, 11, 15):
                    out.append({"obj": oi, "key": ki, "key2": k2, "wrap": (oi + ki + k2) % 3, "sseq": bool(ki & 1), "sfl": bool(k2 & 1), "strict": False, "quote": (ki + k2) % 3})
        return out

    def prog(self, case):
        obj = OBJECTS[case["obj"]]
        tail = [key_seg(KEYSPECS[case["key"]])]
        if "key2" in case:
            tail.append(key_seg(KEYSPECS[case["key2"]]))
        data = dict(VARS)
        wrap = case.get("wrap", 0)
        if wrap == 1:
            data["o"] = {"w": obj}
            tail = [["n", "w"]] + tail
        elif wrap == 2:
            data["o"] = [0, [obj]]
            tail = [["i", 1], ["i", -1]] + tail
        else:
            data["o"] = obj
        main = [["text", "<"], ["out", ["path", ["n", "o"], tail], case.get("quote", 0)], ["text", ">"]]
        return {"main": main, "partials": {}, "args": data, "strict": case["strict"], "sseq": case["sseq"], "sfl": case["sfl"],
                "async": (case["obj"] + case["key"]) % 2 == 1}

    def impl(self, case):
        return scopeprog.run_impl(self.prog(case))

    def line(self, case):
        return scopeprog.model_line(self.prog(case))

    def oracle(self, case, obs):
        exp = scoperef.Ref(self.prog(case)).run()
        if exp != obs:
            o = OBJECTS[case["obj"]]
            k = KEYSPECS[case["key"]]
            return (f"path|{type(o).__name__}|{k[0]}:{k[1]}|sseq={int(case['sseq'])}|sfl={int(case['sfl'])}|strict={int(case['strict'])}",
                    f"documented resolution gives {exp}, engine gave {obs}")
        return None

    def nontrivial(self, case, obs):
        return isinstance(OBJECTS[case["obj"]], (dict, list, str))

    def tags(self, case, obs):
        return [type(OBJECTS[case["obj"]]).__name__, KEYSPECS[case["key"]][0], "len" + str(2 + ("key2" in case) + {0: 0, 1: 1, 2: 2}[case.get("wrap", 0)])]


class PathRandomStream(Stream):
    name = "paths"
    parallel = True

    def cases(self, ctx):
        rng = ctx.rng_for("paths")
        out = []
        for i in range(ctx.scale(1000, 10000)):
            g = scopegen.G(rng.fork(f"d{i}"))
            data = {"a": g.data(3), "b": g.data(2), "c": g.data(1)}
            reads = []
            for _ in range(6):
                reads += g.read()
            out.append({"main": reads, "partials": {}, "args": data, "strict": False, "sseq": rng.chance(40), "sfl": rng.chance(40), "async": rng.chance(30)})
        return out

    def impl(self, case):
        return scopeprog.run_impl(case)

    def line(self, case):
        return scopeprog.model_line(case)

    def oracle(self, case, obs):
        exp = scoperef.Ref(case).run()
        if exp != obs:
            return ("paths|value", f"documented resolution gives {exp}, engine gave {obs}")
        return None

    def nontrivial(self, case, obs):
        return any(n[0] == "out" and len(n[1][2]) >= 1 for n in case["main"]) and obs.get("ok", ";;;;;;") != ";;;;;;"

    def tags(self, case, obs):
        return ["len" + str(1 + max(len(n[1][2]) for n in case["main"] if n[0] == "out"))]

    def shrink_candidates(self, case):
        yield from shrink_prog(case)


class TablerowStream(Stream):
    """tablerow's loop variable and `tablerowloop` are block-scoped too (engine only: tablerow's HTML is not in the model)."""

    name = "order_tablerow"
    exhaustive = True
    has_model = False

    def cases(self, ctx):
        out = []
        layers = ["L", "A", "M", "T", "E"]
        for r in range(len(layers) + 1):
            for subset in itertools.combinations(layers, r):
                for inside in ((False, True) if "L" in subset else (False,)):
                    out.append({"subset": list(subset), "inside": inside})
        return out

    def impl(self, case):
        import warnings

        from liquid import Environment

        sub = case["subset"]
        local = "{% assign x = 'L' %}"
        src = (local if "L" in sub and not case["inside"] else "")
        src += "{% tablerow x in zz %}" + (local if "L" in sub and case["inside"] else "") + "<{{ x }}|{{ tablerowloop.col }}>{% endtablerow %}"
        src += "<{{ x }}|{{ tablerowloop.col }}>"
        try:
            env = Environment(globals={"x": "E"} if "E" in sub else None)
            with warnings.catch_warnings():
                warnings.simplefilter("ignore")
                t = env.from_string(src, globals={"x": "T"} if "T" in sub else None, matter={"x": "M"} if "M" in sub else None)
                args = {"zz": ["B"]}
                if "A" in sub:
                    args["x"] = "A"
                return {"ok": t.render(**args)}
        except Exception as e:
            return {"err": type(e).__name__}

    def oracle(self, case, obs):
        sub = case["subset"]
        outer = next((v for v in ("L", "A", "M", "T", "E") if v in sub), "")
        text = obs.get("ok")
        if text is None or "<B|1>" not in text or not text.endswith("<" + outer + "|>"):
            return (f"order|tablerow|top={sub[0] if sub else 'none'}", f"expected <B|1> inside and <{outer}|> after the block, got {obs}")
        return None

    def tags(self, case, obs):
        return [f"layers{len(case['subset'])}"]

    def shrink_candidates(self, case):
        return []


class InheritStream(NestStream):
    """extends / block around the binding constructs: overriding blocks read the base template's scope, assign into a
    scope of their own, render / call / include from there; StopRender skips the rest of the leaf."""

    name = "inherit"

    def cases(self, ctx):
        rng = ctx.rng_for("inherit")
        return [scopegen.gen_inherit(rng.fork(f"h{i}")) for i in range(ctx.scale(1200, 12000))]

    def nontrivial(self, case, obs):
        return "ok" in obs and any(n[0] == "block" for body in case["partials"].values() for n in scopegen.walk(body))

    def tags(self, case, obs):
        t = ["ok" if "ok" in obs else obs["err"]]
        t.append("leaf=" + ("main" if "leaf" not in case["partials"] else case["main"][-5][0] if len(case["main"]) >= 5 else "partial"))
        if "mid" in case["partials"]:
            t.append("3-level")
        return t


def streams(ctx):
    return [OrderStream(), TablerowStream(), PathStream(), PathRandomStream(), NestStream(), InheritStream()]
