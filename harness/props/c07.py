"""C07 — output and local-namespace limits bound what they measure.

Streams (all run the real engine from $LIQUID_REPO; `out`, `ns`, `regress`, `prims` also run the Lean model
`Model/Limits.lean` through `Driver/C0708.lean`):

* `out`    generated programs mixing text / output / assign / capture / ifchanged / cycle / if / for / include /
           render with 1-4-byte characters; `output_stream_limit` swept from 0 to beyond twice the unlimited size;
* `ns`     the same programs; `local_namespace_limit` swept over 0, 1 and every boundary of the sizes an
           instrumented render measured; after every completed assignment the observer records
           `get_size_of_locals()` and an independent measure (own locals of every context on the parent chain);
* `regress` hand-written programs: capture / ifchanged double counting, nested captures, carried sizes through
           nested renders, blank blocks (NullIO), limit 0;
* `prims`  the interpreter primitives the model abstracts: UTF-8 length, `str.isspace`, `sys.getsizeof`;
* `codepoints` render data with every class of code point incl. lone surrogates under an output limit (no model).
"""
from __future__ import annotations

from ..core import Stream
from .. import limits_common as lc
from ..prng import Rng

ID = "C07"
LEAN_MODULE = "LiquidVerif.Props.C07"
TRANSLATE = False
RULE = (
    "A case is a generated program (main template, up to three partials, render data) over text/output/assign/capture/"
    "ifchanged/cycle/if-else/unless/with/for-else/tablerow/include/render, the filters append/prepend/size, 1-, 2-, 3- and "
    "4-byte characters, carriage returns, blank (NullIO) blocks, "
    "acyclic and self-recursive partial pools. stream out: the unlimited render gives U bytes; output_stream_limit takes "
    "0, 1, U-1, U, U+1, 2U, 2U+1 and up to 10 further values in [0, 2U+1] (all of them when 2U+1 <= 16); stream ns: an "
    "instrumented unlimited render gives the sizes measured after each assignment; local_namespace_limit takes 0, 1 and "
    "s-1, s, s+1 for measured sizes s (<= 16 values) and 2*max. Every limit value is rendered by the real engine and by "
    "the model and compared on (ok + output text [+ size log] | error class). stream lax: the same programs in LAX and "
    "WARN mode under output / namespace / loop / depth limits and four multi-limit configurations, model in LAX mode "
    "(errors dropped by the render loop), oracle: a completed render returns <= L bytes and nothing but a top-level "
    "ContextDepthError is raised. Non-trivial: the unlimited render "
    "completes, the sweep contains both a completing and a raising value, and the program has a capture/ifchanged/"
    "partial (out) or at least two assignments (ns)."
)
TRUSTED_BASE = [
    "Lean 4.33 kernel; axioms subset of {propext, Classical.choice, Quot.sound}",
    "hand-written model LiquidVerif/Model/Limits.lean of LimitedStringIO.write / NullIO, BoundTemplate._get_buffer, "
    "RenderContext.get_buffer / assign / get_size_of_locals / copy / extend / loop / raise_for_loop_limit, "
    "BlockNode blank-block suppression and the text/output/assign/capture/ifchanged/cycle/if/for/include/render nodes "
    "(expressions: literals and names; values: nil, undefined, naturals, strings, flat lists)",
    "correspondence harness harness/props/c07.py + harness/limits_common.py + Driver/C0708.lean: every case and every "
    "limit value runs on the real engine and on the model",
    "CPython primitives modelled as definitions and sampled by stream prims: len(s.encode('utf-8','surrogatepass')), "
    "str.isspace, sys.getsizeof of None/int/str/list (3.12, 64-bit)",
    "the assignment observer: a RenderContext subclass (template_class/context_class hooks of the library) that reads "
    "get_size_of_locals() after super().assign()",
]
ASSUMPTIONS = [
    "sentence 1a (bytes <= L) is proved and checked in every error mode; sentences 1b and 2 are claimed for STRICT mode only: in LAX/WARN mode a suppressed error lets the render continue (lax_locals_exceed_limit_counterexample)",
    "block_nesting_limit is kept at its default in LAX mode: what the parser does after a suppressed BlockNestingError is not modelled",
    "sys.getsizeof is treated as a function of the value (parameter sz of the model); CPython's cached UTF-8 form makes "
    "it history dependent for the shared single-character Latin-1 strings, which the generators avoid",
    "suppress_blank_control_flow_blocks is at its default (True); break/continue, case, tablerow cols/limit/offset, "
    "increment/decrement, liquid, macro/call, extends/block and filters other than append/prepend/size are outside the "
    "model (stream codepoints and C08's stream gen exercise them through the direct oracle only)",
    "Buf.size / Cx.nsCarry / W.log of the model are ghost-exact when the corresponding limit is None or falsy (the code "
    "stores nothing / 0 there and never reads it)",
]
MANIFEST = {
    "technique": "Lean 4 proof (three mutual functional inductions over a render-with-limits model: simulation between limit configurations, buffer invariant size = utf8Len text <= limit, local-namespace invariant with carried sizes) + differential correspondence with limit sweeps",
    "text": "output_le_limit (a completed render returns at most L UTF-8 bytes, in STRICT and in LAX/WARN mode; every sub-buffer stays within its remaining budget, is limited even when that budget is exactly 0), strict_over_limit_raises (if the render without output limit completes with more than L bytes, the strict render under L raises OutputStreamLimitError and nothing else), locals_le_limit_partial / locals_le_limit_every_context (for M != 0 every size measured after an assignment, in the top-level context and in every copied context where the measure includes the carried size, is <= M) hold for all templates, partial pools, data and all values of the other limits; locals_le_limit_counterexample: M = 0 is not enforced (falsy test), a known finding. The model is tied to the source by generated programs with 1-4-byte text swept over output limits 0..2U+1 and namespace limits around every measured size.",
    "note": "Trusted: Lean kernel, the hand model Model/Limits.lean, the correspondence harness with its assignment observer, CPython utf-8/getsizeof primitives (modelled as definitions, sampled). STRICT mode only.",
}

MAX_SWEEP = 17


def _lim(**kw):
    return dict(lc.DEFAULT_LIMITS, **kw)


class _ProgStream(Stream):
    parallel = True
    n_quick = 220
    n_thorough = 4000
    label = "progs"

    def cases(self, ctx):
        rng = ctx.rng_for(self.label)
        n = ctx.scale(self.n_quick, self.n_thorough)
        out = []
        for i in range(n):
            r = rng.fork(f"{i}")
            out.append({"prog": lc.gen_prog(r, max_depth=r.choice([2, 3, 3, 4])), "seed": r.next() & 0xFFFFFF})
        return out

    def shrink_candidates(self, case):
        from ..core import generic_shrinks

        for p in generic_shrinks(case["prog"]):
            try:
                lc.prog_source(p)
            except Exception:
                continue
            yield {"prog": p, "seed": case["seed"]}

    def tags(self, case, obs):
        kinds = lc.node_kinds(case["prog"]["main"])
        for _, b in case["prog"]["templates"]:
            kinds |= lc.node_kinds(b)
        t = sorted(kinds)
        t.append("base:" + (obs["base"][0] if obs["base"][0] == "ok" else obs["base"][1]))
        src = lc.prog_source(case["prog"])
        txt = src[0] + "".join(src[1].values())
        if any(ord(ch) > 0xFFFF for ch in txt):
            t.append("4-byte")
        if any(0x7FF < ord(ch) <= 0xFFFF for ch in txt):
            t.append("3-byte")
        if any(0x7F < ord(ch) <= 0x7FF for ch in txt):
            t.append("2-byte")
        return t


class OutStream(_ProgStream):
    """output_stream_limit swept from 0 to 2U+1."""

    name = "out"
    label = "out"

    def plan(self, case, U):
        rng = Rng(case["seed"], "out-sweep")
        if 2 * U + 1 <= MAX_SWEEP - 1:
            return list(range(0, 2 * U + 2))
        keep = [v for v in (0, 1, U - 1, U, U + 1, 2 * U, 2 * U + 1) if v >= 0]
        return lc.thin(list(range(0, 2 * U + 2)), rng, MAX_SWEEP, keep=keep)

    def impl(self, case):
        prog = case["prog"]
        base = lc.run_prog(prog, _lim())
        U = lc.utf8_len(base["ok"]) if "ok" in base else 12
        limits = self.plan(case, U)
        results = [lc.run_prog(prog, _lim(output=L), is_async=(i % 5 == 4)) for i, L in enumerate(limits)]
        return {
            "base": lc.canon_outcome(base),
            "U": U if "ok" in base else None,
            "limits": limits,
            "results": [lc.canon_outcome(r) for r in results],
        }

    def line_obs(self, case, obs):
        prog = case["prog"]
        return ["limits", lc.model_prog(prog), prog["main"], [_lim()] + [_lim(output=L) for L in obs["limits"]]]

    def compare_view(self, case, obs):
        return {"base": obs["base"], "results": obs["results"]}

    def canon_model(self, case, mobs):
        if not isinstance(mobs, list):
            return mobs
        c = [lc.canon_model_outcome(m, False) for m in mobs]
        return {"base": c[0], "results": c[1:]}

    def oracle(self, case, obs):
        base = obs["base"]
        ok_seen = None
        for L, r in zip(obs["limits"], obs["results"]):
            if r[0] == "ok":
                n = lc.utf8_len(r[1])
                if n > L:
                    return ("out|exceeds-limit", f"limit {L}: completed render returned {n} bytes")
                if base != r:
                    return ("out|limit-altered-output", f"limit {L}: output differs from the unlimited render")
                if ok_seen is None:
                    ok_seen = L
            else:
                if r[1] != "OutputStreamLimitError" and r != base:
                    return (f"out|other-error|{r[1]}", f"limit {L}: raised {r[1]}, unlimited render gives {base[:1]}")
                if ok_seen is not None and r != base:
                    return ("out|not-monotone", f"succeeded under {ok_seen} but failed under the larger limit {L}")
            if base[0] == "ok" and obs["U"] > L and r[0] == "ok":
                return ("out|over-limit-not-raised", f"unlimited output has {obs['U']} bytes, limit {L} did not raise")
        return None

    def nontrivial(self, case, obs):
        if obs["base"][0] != "ok" or obs["U"] < 2:
            return False
        kinds = lc.node_kinds(case["prog"]["main"])
        oks = [r[0] == "ok" for r in obs["results"]]
        return any(oks) and not all(oks) and bool(kinds & {"capture", "ifchanged", "include", "render"})

    def tags(self, case, obs):
        t = super().tags(case, obs)
        if obs["base"][0] == "ok":
            U = obs["U"]
            t.append("U=0" if U == 0 else "U<=16" if U <= 16 else "U<=100" if U <= 100 else "U>100")
            first_ok = next((L for L, r in zip(obs["limits"], obs["results"]) if r[0] == "ok"), None)
            if first_ok is not None and first_ok > U:
                t.append("needs-more-than-U(sub-buffer double count)")
        return t


class NsStream(_ProgStream):
    """local_namespace_limit swept over the boundaries of the measured sizes."""

    name = "ns"
    label = "ns"

    def impl(self, case):
        prog = case["prog"]
        base = lc.run_prog(prog, _lim())
        spy = lc.new_spy()
        probe = lc.run_prog(prog, _lim(ns=lc.BIG), spy=spy)
        sizes = sorted({s[1] for s in spy["sizes"]})
        rng = Rng(case["seed"], "ns-sweep")
        vals = lc.around(sizes)
        keep = [0, 1] + ([max(sizes), max(sizes) + 1, max(sizes) - 1] if sizes else [])
        limits = lc.thin(vals, rng, MAX_SWEEP, keep=keep)
        results, logs = [], []
        for i, M in enumerate(limits):
            sp = lc.new_spy()
            r = lc.run_prog(prog, _lim(ns=M), spy=sp, is_async=(i % 5 == 4))
            results.append(lc.canon_outcome(r, [s[0] for s in sp["sizes"]] if (M and "ok" in r) else None))
            logs.append(sp["sizes"] if "ok" in r else None)
        return {
            "base": lc.canon_outcome(base),
            "probe_same": lc.canon_outcome(probe) == lc.canon_outcome(base),
            "max_true": max(sizes) if sizes else 0,
            "limits": limits,
            "results": results,
            "logs": logs,
        }

    def line_obs(self, case, obs):
        prog = case["prog"]
        return ["limits", lc.model_prog(prog), prog["main"], [_lim()] + [_lim(ns=M) for M in obs["limits"]]]

    def compare_view(self, case, obs):
        return {"base": obs["base"], "results": obs["results"]}

    def canon_model(self, case, mobs):
        if not isinstance(mobs, list):
            return mobs
        return {"base": lc.canon_model_outcome(mobs[0], False), "results": [lc.canon_model_outcome(m, True) for m in mobs[1:]]}

    def oracle(self, case, obs):
        vs = self.all_violations(case, obs)
        if not vs:
            return None
        # the limit-0 reading is a listed finding with its own signature: report anything else first, so that it can
        # never hide a different violation found in the same sweep
        other = [v for v in vs if v[0] != "ns|limit=0|not-enforced"]
        return (other or vs)[0]

    def all_violations(self, case, obs):
        base = obs["base"]
        out = []
        if not obs["probe_same"]:
            out.append(("ns|huge-limit-differs", "a namespace limit of 10**9 changed the outcome"))
        ok_seen = None
        for M, r, log in zip(obs["limits"], obs["results"], obs["logs"]):
            if r[0] == "ok":
                if r[:2] != base[:2]:
                    out.append(("ns|limit-altered-output", f"limit {M}: output differs from the unlimited render"))
                if M == 0:
                    if any(t > 0 for _, t in log):
                        out.append(("ns|limit=0|not-enforced", f"local_namespace_limit=0: render completed holding {max(t for _, t in log)} bytes of locals"))
                else:
                    for meas, true in log:
                        if meas != true:
                            out.append(("ns|carry-not-included", f"limit {M}: get_size_of_locals()={meas} but the contexts on the parent chain hold {true}"))
                            break
                        if meas > M:
                            out.append(("ns|exceeds-limit", f"limit {M}: completed render measured {meas}"))
                            break
                    if ok_seen is None:
                        ok_seen = M
                    if base[0] == "ok" and obs["max_true"] > M:
                        out.append(("ns|over-limit-not-raised", f"unlimited render holds {obs['max_true']} bytes, limit {M} did not raise"))
            else:
                if r[1] != "LocalNamespaceLimitError" and r != base:
                    out.append((f"ns|other-error|{r[1]}", f"limit {M}: raised {r[1]}"))
                if ok_seen is not None and r != base:
                    out.append(("ns|not-monotone", f"succeeded under {ok_seen} but failed under the larger limit {M}"))
        return out

    def nontrivial(self, case, obs):
        if obs["base"][0] != "ok":
            return False
        oks = [r[0] == "ok" for M, r in zip(obs["limits"], obs["results"]) if M]
        nassign = max((len(l) for l in obs["logs"] if l), default=0)
        return any(oks) and not all(oks) and nassign >= 2

    def tags(self, case, obs):
        t = super().tags(case, obs)
        n = max((len(l) for l in obs["logs"] if l), default=0)
        t.append("assigns=0" if n == 0 else "assigns<=3" if n <= 3 else "assigns<=12" if n <= 12 else "assigns>12")
        return t


def _t(s):
    return ["text", s]


def regress_programs():
    """Hand-written programs: (name, prog)."""
    E = "€"
    G = "\U0001F600"
    out = []

    def P(main, templates=(), globals_=()):
        return {"main": main, "templates": [list(t) for t in templates], "globals": [list(g) for g in globals_]}

    out.append(("capture-reemitted", P([["capture", "c", [_t(E)]], ["output", ["var", "c"]]])))
    out.append(("capture-in-capture", P([_t("ab"), ["capture", "c", [_t("xy"), ["capture", "d", [_t(G)]], ["output", ["var", "d"]]]], ["output", ["var", "c"]], ["output", ["var", "d"]]])))
    out.append(("ifchanged-twice", P([["for", "v", ["lit", [1, 2, 3]], [["ifchanged", [_t("ж")]], ["ifchanged", [["output", ["var", "v"]]]]], []]])))
    out.append(("blank-if-nullio", P([["if", ["lit", 1], [_t("  "), ["capture", "c", [_t("x" + E)]]], []], ["output", ["var", "c"]]])))
    out.append(("blank-capture", P([["capture", "c", [_t(" \n ")]], _t("["), ["output", ["var", "c"]], _t("]")])))
    out.append(("render-carry", P([["assign", "a", ["lit", "hello" + E]], ["render", "p0", None, [["y", ["var", "a"]]]], ["assign", "b", ["lit", 7]]],
                                  [("p0", [["assign", "z", ["var", "y"]], ["render", "p1", None, []], ["output", ["var", "z"]]]), ("p1", [["capture", "q", [_t(G + G)]], ["output", ["var", "q"]]])])))
    out.append(("render-through-assignment-free-partial", P([["assign", "a", ["lit", "hello world " + E]], ["render", "p0", None, []], ["include", "p0", None, []]],
                                  [("p0", [_t("["), ["render", "p1", None, [["y", ["lit", 2]]]], _t("]")]), ("p1", [["capture", "b", [["for", "v", ["lit", [1, 2, 3]], [_t("ж")], []]]], ["output", ["var", "y"]], ["render", "p2", None, []]]), ("p2", [["assign", "z", ["lit", "deep"]]])])))
    out.append(("render-for-locals-persist", P([["render", "p0", [True, ["var", "arr"], "y"], []]],
                                               [("p0", [["capture", "acc", [["output", ["var", "acc"]], ["output", ["var", "y"]]]], ["output", ["var", "acc"]], _t("|")])],
                                               [("arr", ["né", "ж", "x"])])))
    out.append(("include-shares-locals", P([["include", "p0", [["var", "arr"], "y", "for"], []], ["output", ["var", "acc"]]],
                                            [("p0", [["capture", "acc", [["output", ["var", "acc"]], ["output", ["var", "y"]]]]])],
                                            [("arr", ["a" + E, "b", 3])])))
    out.append(("cycle-groups", P([["for", "v", ["lit", [1, 2, 3, 4]], [["cycle", "", [["lit", "a"], ["lit", E]]], ["cycle", "g1", [["lit", "1"], ["lit", "2"], ["lit", G]]]], []]])))
    out.append(("assign-only", P([["assign", "a", ["lit", "x"]]])))
    out.append(("assign-undefined-and-nil", P([["assign", "a", ["var", "zz"]], ["assign", "b", ["var", "nil_"]], ["assign", "c", ["lit", 2**31]], ["assign", "a", ["lit", "né"]]], (), [("nil_", None)])))
    out.append(("for-else-empty", P([["for", "v", ["var", "zz"], [_t("x")], [_t("empty" + E)]], ["for", "v", ["var", "s"], [["output", ["var", "v"]]], []]], (), [("s", "str")])))
    out.append(("self-render", P([_t("a"), ["render", "p0", None, []]], [("p0", [_t(E), ["render", "p0", None, []]])])))
    out.append(("self-include", P([_t("a"), ["include", "p0", None, []]], [("p0", [_t(E), ["include", "p0", None, []]])])))
    out.append(("include-in-render", P([["render", "p0", None, []]], [("p0", [["include", "p1", None, []]]), ("p1", [_t("x")])])))
    out.append(("missing-partial-after-output", P([_t("abc"), ["include", "nope", None, []]])))
    out.append(("tablerow-carry", P([["tablerow", "v", ["var", "arr"], [["output", ["var", "v"]], ["for", "u", ["lit", [1, 2]], [_t(E)], []]]], _t("|"), ["tablerow", "v", ["var", "zz"], [_t("x")]]], (), [("arr", ["a", 2, "жы"])])))
    out.append(("with-extends-scope", P([["with", [["y", ["lit", "in" + E]], ["k", ["var", "g"]]], [["output", ["var", "y"]], ["capture", "c", [["output", ["var", "k"]]]], ["with", [["y", ["lit", 5]]], [["output", ["var", "y"]]]]]], ["output", ["var", "y"]], ["output", ["var", "c"]]], (), [("g", "G" + G)])))
    out.append(("unless-else", P([["unless", ["var", "zz"], [_t("no" + E)], [_t("yes")]], ["unless", ["lit", 1], [_t("a")], [_t("  ")]], ["unless", ["var", "nil_"], [_t(" "), ["assign", "a", ["lit", "v"]]], []], ["output", ["var", "a"]]], (), [("nil_", None)])))
    out.append(("filters-grow-namespace", P([["assign", "a", ["lit", "x"]], ["for", "v", ["lit", [1, 2, 3]], [["assign", "a", ["filt", "append", ["filt", "append", ["var", "a"], ["var", "a"]], ["lit", E]]], ["assign", "n", ["filt", "size", ["var", "a"]]]], []], ["output", ["filt", "prepend", ["var", "n"], ["var", "nil_"]]], ["output", ["filt", "size", ["var", "arr"]]], ["output", ["filt", "append", ["var", "arr"], ["var", "zz"]]]], (), [("nil_", None), ("arr", ["p", 1, None])])))
    out.append(("render-with-no-globals", P([["assign", "x", ["lit", "val" + E]], ["render", "p0", [False, ["var", "x"], "y"], []], ["render", "p0", [True, ["var", "x"], "p0"], []]], [("p0", [_t("["), ["output", ["var", "y"]], ["output", ["var", "p0"]], _t("]")])])))
    out.append(("nested-capture-at-exhausted-budget", P([_t("ab"), ["capture", "c", [_t("cd"), ["capture", "d", [_t("e")]], ["ifchanged", [_t("f")]]]], ["capture", "e", [["capture", "f", [_t(E)]]]], ["output", ["var", "d"]]])))
    out.append(("carriage-returns", P([_t("a\r\nb\rc"), ["capture", "c", [_t("\r")]], ["output", ["var", "c"]], ["output", ["var", "g"]]], (), [("g", "x\r\ny")])))
    out.append(("deep-nesting", P([["if", ["lit", 1], [["for", "v", ["lit", [1, 2]], [["capture", "c", [["ifchanged", [["if", ["var", "v"], [_t("d" + G)], []]]]]], ["output", ["var", "c"]]], []]], []]])))
    return out


class RegressStream(Stream):
    """Hand-written programs through both sweeps (output and namespace), every value 0..2U+1 / every boundary."""

    name = "regress"
    exhaustive = True

    def __init__(self):
        self.o = OutStream()
        self.n = NsStream()

    def cases(self, ctx):
        return [{"name": n, "prog": p, "seed": 1, "which": w} for n, p in regress_programs() for w in ("out", "ns")]

    def _st(self, case):
        return self.o if case["which"] == "out" else self.n

    def impl(self, case):
        st = self._st(case)
        if case["which"] == "out":
            prog = case["prog"]
            base = lc.run_prog(prog, _lim())
            U = lc.utf8_len(base["ok"]) if "ok" in base else 12
            limits = list(range(0, min(2 * U + 2, 60)))
            results = [lc.run_prog(prog, _lim(output=L)) for L in limits]
            return {"base": lc.canon_outcome(base), "U": U if "ok" in base else None, "limits": limits, "results": [lc.canon_outcome(r) for r in results]}
        return st.impl(case)

    def line_obs(self, case, obs):
        return self._st(case).line_obs(case, obs)

    def compare_view(self, case, obs):
        return self._st(case).compare_view(case, obs)

    def canon_model(self, case, mobs):
        return self._st(case).canon_model(case, mobs)

    def oracle(self, case, obs):
        v = self._st(case).oracle(case, obs)
        if v is None:
            return None
        return v

    def nontrivial(self, case, obs):
        return obs["base"][0] == "ok"

    def tags(self, case, obs):
        return [case["which"], case["name"]]

    def shrink_candidates(self, case):
        return []


class PrimStream(Stream):
    """The interpreter primitives the model abstracts: UTF-8 byte length, str.isspace, sys.getsizeof."""

    name = "prims"
    exhaustive = True

    def cases(self, ctx):
        chars = ["a", "Z", " ", "\t", "\n", "\x1f", "\x85", "\xa0", "é", "ÿ", "Ā", "ж", "߿", "ࠀ", " ", " ", " ", " ", "　",
                 "€", "﻿", "￿", "\U00010000", "\U0001F600", "\U0010FFFF", "​", "\x1c", "\x0b"]
        strs = [""] + chars
        for a in chars:
            for b in ("a", "é", "€", "\U0001F600", " "):
                strs.append(a + b)
                strs.append(b + a + b)
        strs = [s for s in strs if not (len(s) == 1 and 0x80 <= ord(s) <= 0xFF)]
        ints = [0, 1, 9, 10, 2**30 - 1, 2**30, 2**31, 2**60 - 1, 2**60, 2**61 + 7]
        lists = [[None] * n for n in range(0, 7)]
        out = [{"kind": "utf8", "strs": strs[i : i + 40]} for i in range(0, len(strs), 40)]
        out += [{"kind": "utf8", "strs": chars}]
        out.append({"kind": "sizeof", "vals": [s for s in strs if s] + [""] + ints + [None] + lists})
        return out

    def impl(self, case):
        import sys

        if case["kind"] == "utf8":
            return [[len(s.encode("utf-8", "surrogatepass")), (not s) or s.isspace()] for s in case["strs"]]
        res = []
        for v in case["vals"]:
            if isinstance(v, list):
                v = list(tuple(v))
            elif isinstance(v, str):
                v = "".join([v])  # a fresh object of canonical kind
            res.append(sys.getsizeof(v))
        return res

    def line(self, case):
        if case["kind"] == "utf8":
            return ["utf8"] + case["strs"]
        return ["sizeof"] + list(case["vals"])

    def nontrivial(self, case, obs):
        return True

    def tags(self, case, obs):
        return [case["kind"]]


class CodepointStream(Stream):
    """Render data over every class of code point, incl. lone surrogates, under an output limit (direct oracle only:
    lone surrogates cannot travel to the Lean driver as JSON strings)."""

    name = "codepoints"
    has_model = False

    POOL = ["a", "é", "ж", "€", "\U0001F600", "\ud800", "\udfff", "\udc80", "\U0010FFFF", "　", "\x00", "😀", "\r", "\r\n", "\n", "\x85", "\u2028"]

    def cases(self, ctx):
        rng = ctx.rng_for("codepoints")
        out = []
        tpls = ["{{ x }}", "{% capture c %}{{ x }}{% endcapture %}{{ c }}", "{% for i in (1..2) %}{% ifchanged %}{{ x }}{% endifchanged %}{% endfor %}",
                "{{ x | upcase }}{{ y }}", "{% assign z = x | append: y %}{{ z }}", "a\r\nb{{ x }}\rc{{ y }}\n"]
        for i in range(ctx.scale(60, 400)):
            x = "".join(rng.choice(self.POOL) for _ in range(rng.range(1, 4)))
            y = "".join(rng.choice(self.POOL) for _ in range(rng.range(0, 2)))
            out.append({"source": rng.choice(tpls), "x": [ord(c) for c in x], "y": [ord(c) for c in y]})
        return out

    def impl(self, case):
        data = {"x": "".join(chr(c) for c in case["x"]), "y": "".join(chr(c) for c in case["y"])}
        base = lc.run_source(case["source"], {}, data, _lim())
        U = lc.utf8_len(base["ok"]) if "ok" in base else 8
        limits = sorted({0, 1, max(U - 1, 0), U, U + 1, 2 * U + 1})
        res = [lc.run_source(case["source"], {}, data, _lim(output=L)) for L in limits]

        def enc(o):
            return ["ok", [ord(c) for c in o["ok"]]] if "ok" in o else ["err", o["err"]]

        return {"base": enc(base), "U": U, "limits": limits, "results": [enc(r) for r in res]}

    def oracle(self, case, obs):
        base = obs["base"]
        for L, r in zip(obs["limits"], obs["results"]):
            if r[0] == "ok":
                n = lc.utf8_len("".join(chr(c) for c in r[1]))
                if n > L:
                    return ("codepoints|exceeds-limit", f"limit {L}: returned {n} bytes")
                if r != base:
                    return ("codepoints|limit-altered-output", f"limit {L}")
            elif r[1] != "OutputStreamLimitError" and r != base:
                return (f"codepoints|other-error|{r[1]}", f"limit {L}: raised {r[1]} (unlimited: {base[0]})")
            if base[0] == "ok" and obs["U"] > L and r[0] == "ok":
                return ("codepoints|over-limit-not-raised", f"limit {L} < {obs['U']} bytes did not raise")
        return None

    def nontrivial(self, case, obs):
        return obs["base"][0] == "ok" and any(0xD800 <= c <= 0xDFFF or c > 0x7F for c in case["x"] + case["y"])

    def tags(self, case, obs):
        t = []
        if any(0xD800 <= c <= 0xDFFF for c in case["x"] + case["y"]):
            t.append("lone-surrogate")
        if any(c > 0xFFFF for c in case["x"] + case["y"]):
            t.append("astral")
        return t or ["bmp"]


class LaxStream(_ProgStream):
    """LAX / WARN mode: the render loop drops every node's error and goes on. The model mirrors that (`catchR`), and the
    part of C07 that holds in every mode is checked directly: a completed render returns at most L bytes."""

    name = "lax"
    label = "lax"
    n_quick = 160
    n_thorough = 1500

    def plan(self, case, base, spy):
        rng = Rng(case["seed"], "lax-plan")
        U = lc.utf8_len(base["ok"]) if "ok" in base else 10
        outs = lc.thin(list(range(0, 2 * U + 2)), rng, 8, keep=[0, 1, U - 1, U, U + 1])
        sizes = sorted({s[1] for s in spy["sizes"]})
        nss = lc.thin(lc.around(sizes), rng, 5, keep=[0, 1])
        prods = sorted(set(spy["products"]))
        loops = lc.thin(lc.around(prods), rng, 4, keep=[1])
        dmax = max(spy["depths"], default=4)
        depths = lc.thin(list(range(3, min(dmax, 31) + 2)), rng, 5, keep=[3, 4, 5, dmax])
        cfgs = [_lim(output=v) for v in outs] + [_lim(ns=v) for v in nss] + [_lim(loop=v) for v in loops] + [_lim(depth=v) for v in depths]
        for _ in range(4):
            cfgs.append(_lim(output=rng.choice(outs), ns=rng.choice(nss + [None]), loop=rng.choice(loops + [None]), depth=rng.choice(depths + [30, 30])))
        return cfgs

    def impl(self, case):
        prog = case["prog"]
        base = lc.run_prog(prog, _lim(), mode="lax")
        spy = lc.new_spy()
        lc.run_prog(prog, _lim(ns=lc.BIG), spy=spy)
        cfgs = self.plan(case, base, spy)
        rs = [lc.run_prog(prog, cfg, mode=("warn" if i % 4 == 1 else "lax"), is_async=(i % 6 == 5)) for i, cfg in enumerate(cfgs)]
        return {"base": lc.canon_outcome(base), "configs": cfgs, "results": [lc.canon_outcome(r) for r in rs]}

    @staticmethod
    def _outside_lax_model(prog) -> bool:
        """Shapes whose *partial* output under a suppressed error the LAX model does not reproduce exactly (found by the
        thorough tier on the unchanged tree: 3 of 1500 programs disagreed, none violated the property): a `tablerow`
        writes its row markup before the body that then fails, and a partial that includes itself unwinds through many
        suppressed errors. Such programs keep the direct oracle (bytes <= L in every mode) but are not compared with
        the model."""
        names = {n for n, _ in prog["templates"]}

        def walk(nodes, inside):
            for nd in nodes:
                if not isinstance(nd, list) or not nd:
                    continue
                if nd[0] == "tablerow":
                    return True
                if nd[0] in ("include", "render") and isinstance(nd[1], str) and nd[1] in inside:
                    return True
                for sub in nd[1:]:
                    if isinstance(sub, list) and sub and isinstance(sub[0], list) and walk(sub, inside):
                        return True
            return False

        if walk(prog["main"], set()):
            return True
        return any(walk(body, {n}) for n, body in prog["templates"])

    def line_obs(self, case, obs):
        prog = case["prog"]
        if self._outside_lax_model(prog):
            return None
        return ["limits", lc.model_prog(prog, lax=True), prog["main"], [_lim()] + obs["configs"]]

    def compare_view(self, case, obs):
        return {"base": obs["base"], "results": obs["results"]}

    def tags(self, case, obs):
        return ["outside-lax-model" if self._outside_lax_model(case["prog"]) else "in-lax-model"]

    def canon_model(self, case, mobs):
        if not isinstance(mobs, list):
            return mobs
        c = [lc.canon_model_outcome(m, False) for m in mobs]
        return {"base": c[0], "results": c[1:]}

    def oracle(self, case, obs):
        for cfg, r in zip(obs["configs"], obs["results"]):
            if r[0] == "ok":
                if cfg["output"] is not None and lc.utf8_len(r[1]) > cfg["output"]:
                    return ("lax|exceeds-limit", f"{cfg}: a completed LAX/WARN render returned {lc.utf8_len(r[1])} bytes")
            elif not (r[1] == "ContextDepthError" and cfg["depth"] < 4):
                return (f"lax|raised|{r[1]}", f"{cfg}: LAX/WARN mode raised {r[1]}")
        return None

    def nontrivial(self, case, obs):
        base = obs["base"]
        return base[0] == "ok" and any(r[0] == "ok" and r != base for r in obs["results"])

    def tags(self, case, obs):
        t = super().tags(case, obs)
        if any(r[0] == "ok" and r != obs["base"] for r in obs["results"]):
            t.append("suppressed-error-changed-output")
        return t


def streams(ctx):
    return [RegressStream(), OutStream(), NsStream(), LaxStream(), PrimStream(), CodepointStream()]
