"""C02 — only Liquid errors escape parsing and rendering.

Proof side: tools/emitters/c02_tables.py regenerates Gen/C02Tables.lean (exception hierarchy, every except-clause
table of the anchored helpers/decorators/filters/tags, the filter registry with decorators and arities);
Model/PyPrim.lean is the value-class lattice + exception table of the Python primitives; Model/ExcFlow.lean the
exception flow of every helper, decorator, registered filter and tag-level site over those tables; Props/C02.lean the
containment theorems.  Implementation side: every cell of the class grid is rendered through the real filter.
"""
from __future__ import annotations

import itertools
import json

from ..core import Stream
from ..gen.c02_values import CLASS_NAMES, FIXED_SPAN, UNDEF, fixed_members, member
from ..gen.templates import gen_program, malform
from ..impl.render import make_env, run_async

ID = "C02"
LEAN_MODULE = "LiquidVerif.Props.C02"
TRANSLATE = True
RULE = (
    "stream prim: every primitive/helper of Model/PyPrim+ExcFlow on the representative, on every hand-picked nasty member "
    "(class boundaries, shortest/longest/oddest spellings: harness/gen/c02_values.py NASTY) and on random members of every value "
    "class (50 classes; pairs for binary primitives), real Python / real liquid helper vs the table; stream filter: "
    "registered filter x left class x argument classes (0..3 positional arguments, one more than the arity included) rendered "
    "as {% assign r = l | f: a0, a1 %} through the real environment (extra=True), observation ok | liquid | leak:<Type>, must "
    "be one of the outcomes the model allows; every no-argument cell runs on all hand-picked members, sampled cells on the "
    "representative and on a hand-picked member, the %-formatting filters on every hand-picked percent string in the message "
    "and in the plural position; stream percent: every message over the fragments %, %%, (you)s, (x)d, space, d, ! up to 4 (5) "
    "fragments through t, gettext, pgettext, ngettext/npgettext plural and the translate tag (exhaustive; all run lengths of "
    "percent signs in front of text, placeholders, non-conversion characters and the end of the string); stream chain: random "
    "chains of 2-3 registered filters with 0-2 arguments per link, rendered as one assign, against runChain (result class of a "
    "link = any class of resultCls); a leak in a cell outside the known-leak tables of Model/C02Known.lean gets a cell-specific "
    "signature (filter|left|args), so a new cell leaking at a known location is a concrete violation; stream sites: tag-level holes (output, range bounds, for/tablerow options, "
    "contains, comparisons, subscripts, case/when, cycle, include/render, with, macro, translate, ternary) x class x "
    "STRICT/WARN/LAX; stream handlers: every exception class of the generated hierarchy raised from inside _parse and from "
    "inside a filter, through from_string / the render loop; stream render: shared generator programs under "
    "STRICT/WARN/LAX, sync and async; stream parse: malformed sources, deep nesting, random text. Non-trivial: the cell "
    "does not simply succeed (a Liquid error or a leak was produced), or for render/parse the template ran a filter or "
    "raised."
)
TRUSTED_BASE = [
    "Lean 4.33 kernel; axioms subset of {propext, Classical.choice, Quot.sound}",
    "emitter tools/emitters/c02_tables.py (Python ast -> exception hierarchy, handler tables, filter registry); fails closed on anything it does not recognise",
    "class abstraction: behaviour of each Python primitive is uniform inside a value class up to the outcome set listed in Model/PyPrim.lean (definitions, not axioms; sampled by stream prim on every run)",
    "hand transcription of the straight-line code between the try-blocks (Model/ExcFlow.lean), tied by the exhaustive filter/sites grids",
    "correspondence harness harness/props/c02.py + Driver/C02.lean",
]
ASSUMPTIONS = [
    "data values are JSON-like members of the 49 classes (plus undefined); custom drops, Markup subclasses and user-defined filters are outside the quantifier",
    "keyword arguments of filters are not modelled (default: allow_false, t/gettext message variables, babel options); they are exercised by the render stream only",
    "babel/dateutil/pytz internals are primitives of the table (format_currency, format_datetime, parser.parse), not modelled code",
    "RecursionError / MemoryError from deep nesting are runtime effects outside the model; parse-time ones are converted by from_string (from_string_contains), render-time ones are known findings",
]
MANIFEST = {
    "technique": "Lean 4 proof by kernel evaluation over a finite value-class lattice x generated handler tables, lifted to all argument lists by a sequencing lemma; translator-generated exception hierarchy/catch tuples/filter registry; exhaustive class-grid correspondence against the real filters",
    "text": "chain_contained_partial (chains of filters of any length, by induction), sites_contained_partial over 57 tag-level sites incl. keyword arguments; escapes_are_liquid_partial: for every registered filter, every left class and every list of argument classes (any length), every outcome the exception-flow model allows is success or a LiquidError, except the listed known-leak steps; each known leak has a kernel-decided counterexample theorem and a replayed witness. sites_contained_partial does the same for tag-level sites, from_string_contains and render_loop_adds_nothing for the two handlers everything passes through. The handler tables, hierarchy and decorators are regenerated from the source on every run, so widening or narrowing a catch tuple changes the theorem the kernel checks.",
    "note": "Trusted: Lean kernel, the emitter, the class abstraction of CPython/babel primitives (measured by stream prim), the hand transcription of straight-line code (measured by the exhaustive filter grid). Partial: keyword arguments, custom drops, runtime stack/memory exhaustion.",
}

MODES = ["strict", "warn", "lax"]


# ---- observation ------------------------------------------------------------------------------
def _origin(e) -> str:
    """The two innermost frames inside liquid/ as `module:qualname<module:qualname` (location, never message text)."""
    frames = []
    tb = e.__traceback__
    while tb is not None:
        code = tb.tb_frame.f_code
        fn = code.co_filename.replace("\\", "/")
        if "/liquid/" in fn:
            mod = fn.split("/liquid/")[-1][:-3].replace("/", ".")
            frames.append(f"{mod}:{getattr(code, 'co_qualname', code.co_name)}")
        tb = tb.tb_next
    return "<".join(reversed(frames[-2:])) or "?"


def observe(fn):
    """-> {"out": "ok" | "liquid" | "leak:<Type>", "origin": str (leaks only)}"""
    import warnings

    from liquid.exceptions import LiquidError

    try:
        with warnings.catch_warnings():
            warnings.simplefilter("ignore")
            fn()
        return {"out": "ok"}
    except LiquidError:
        return {"out": "liquid"}
    except BaseException as e:  # noqa: BLE001 - the property is about *any* other exception
        if isinstance(e, (KeyboardInterrupt, SystemExit)):
            raise
        return {"out": "leak:" + type(e).__name__, "origin": _origin(e)}


def signature(obs) -> str:
    if obs.get("digits"):
        return "digits|ValueError"  # str() of an int with more digits than sys.get_int_max_str_digits()
    return f"{obs['out'][5:]}@{obs.get('origin', '?').replace('_async', '')}"


def _degiant(cls):
    return "int_huge" if cls == "int_giant" else cls


def mark_digits(obs, had_giant, rerun):
    """A ValueError in a cell with an int_giant operand is the int->str digit limit iff the same cell with the giant
    operands replaced by int_huge (str() works) does not raise ValueError."""
    if had_giant and obs["out"] == "leak:ValueError":
        again = rerun()
        if again["out"] != "leak:ValueError" or again.get("origin") != obs.get("origin"):
            obs["digits"] = True
    return obs


_ENVS: dict = {}


def _env(mode="strict"):
    if mode not in _ENVS:
        from liquid import DictLoader, Environment, Mode

        cls = type("C02Env", (Environment,), {"ternary_expressions": True, "logical_not_operator": True})
        _ENVS[mode] = cls(extra=True, loader=DictLoader({"p": "{{ p }}{{ x }}"}), tolerance={"strict": Mode.STRICT, "warn": Mode.WARN, "lax": Mode.LAX}[mode])
    return _ENVS[mode]


# ---- names read from the generated tables (through the driver) ------------------------------------
_NAMES = None


def names():
    global _NAMES
    if _NAMES is None:
        from ..lean import Driver

        _NAMES = Driver().batch([["c02.names"]])[0]
        if not isinstance(_NAMES, dict) or "filters" not in _NAMES:
            raise RuntimeError(f"driver did not answer c02.names: {_NAMES}")
    return _NAMES


class ModelStream(Stream):
    """Membership correspondence: the driver echoes the observation when the model allows it, and says whether the cell
    is one of the known-leak cells of Model/C02Known.lean.  A leak in a known cell carries the root-cause signature
    (location); a leak in any other cell carries the cell too, so a *new* cell leaking at an old location is a distinct,
    concrete violation that no listed finding can hide."""

    def __init__(self):
        self._known: dict = {}

    def canon_model(self, case, mobs):
        if isinstance(mobs, dict) and "verdict" in mobs:
            if "known" in mobs:
                self.__dict__.setdefault("_known", {})[json.dumps(case, sort_keys=True)] = bool(mobs["known"])
            return mobs["verdict"] if mobs["verdict"] != "NOT-ALLOWED" else {"model_allows": mobs["allowed"]}
        return mobs

    def compare_view(self, case, obs):
        return obs["out"]

    def cell(self, case):
        return None

    def cell_known(self, case, obs) -> bool:
        cache = self.__dict__.setdefault("_known", {})
        key = json.dumps(case, sort_keys=True)
        if key not in cache:
            line = self.line_obs(case, obs)
            if line is None:
                cache[key] = True  # no model for this case: location-based signature only
            else:
                from ..lean import Driver

                ans = Driver().batch([line])[0]
                cache[key] = bool(ans.get("known", True)) if isinstance(ans, dict) else True
        return cache[key]

    def oracle(self, case, obs):
        if obs["out"].startswith("leak:"):
            sig = signature(obs)
            c = self.cell(case)
            if c is not None and not self.cell_known(case, obs):
                sig = f"{obs['out'][5:]}@{obs.get('origin', '?').replace('_async', '')}|cell:{c}"
            return (sig, f"{obs['out'][5:]} reached the caller")
        return None

    def nontrivial(self, case, obs):
        return obs["out"] != "ok"


# ---- stream prim ------------------------------------------------------------------------------------
NUMERIC = ["true", "false", "int_zero", "int_pos", "int_neg", "int_ts", "int_large", "int_big", "int_huge", "int_giant", "float_zero", "float_pos", "float_neg", "float_inf", "float_ninf", "float_nan"]
STRS = [c for c in CLASS_NAMES if c.startswith("str_")]
ELEMS = {"int": 7, "float": 1.5, "str": "hello", "strEmpty": "", "none": None, "dictK": {"k": 1, "title": "x"}, "dictJ": {"j": 2}, "inf": float("inf"), "ninf": float("-inf")}


def _cls_of_result(v, arg_cls):
    from ..gen.c02_values import classify

    if isinstance(v, str):
        if arg_cls.startswith("str_"):
            return arg_cls
        return "str_empty" if v == "" else "str_repr"
    return classify(v)


_PRIMS = None


def _prim_table():
    global _PRIMS
    if _PRIMS is None:
        _PRIMS = _build_prim_table()
    return _PRIMS


def _build_prim_table():
    """name -> (argument class lists, callable(values...) -> result, wants result class?)"""
    import base64
    import datetime
    import decimal
    import json as _json
    import math

    from dateutil import parser
    from liquid.builtin.filters.array import _getitem
    from liquid.filter import decimal_arg, int_arg, num_arg
    from liquid.limits import to_int
    from liquid.stringify import to_liquid_string
    from liquid.undefined import Undefined

    D = decimal.Decimal

    def dec(op):
        def f(a, b):
            x, y = D(str(a)), D(str(b))
            r = x - y if op == "minus" else x + y if op == "plus" else x * y if op == "times" else x % y
            return float(r)

        return f

    def _fmt_escaped(s):
        from liquid.extra.filters.translate import BaseTranslateFilter as B

        return B.re_literal_percent.sub("%%", s) % {k: "v" for k in B.re_vars.findall(s)}

    def b64(s):
        return base64.b64decode(s).decode(), base64.urlsafe_b64decode(s).decode()

    nonbool_num = [c for c in NUMERIC if c not in ("true", "false", "int_giant")]
    allc = [c for c in CLASS_NAMES]
    return {
        "int": ([allc], lambda v: int(v), True),
        "to_int": ([allc], to_int, True),
        "float": ([STRS], float, True),
        "str": ([allc], str, True),
        "num_arg0": ([allc], lambda v: num_arg(v, 0), True),
        "num_arg": ([allc], num_arg, True),
        "int_arg": ([allc], int_arg, True),
        "int_arg1": ([allc], lambda v: int_arg(v, 1), True),
        "decimal_arg0": ([allc], lambda v: decimal_arg(v, 0), False),
        "decimal_arg": ([allc], decimal_arg, False),
        "to_liquid_string": ([allc], lambda v: to_liquid_string(v, autoescape=False), False),
        "decimal_of_str": ([STRS], D, False),
        "decimal_of_num": ([NUMERIC], lambda v: D(str(v)), False),
        "ceil": ([NUMERIC], lambda v: (math.ceil(v), math.floor(v), round(v)), False),
        "encode": ([STRS], lambda s: (s.encode(), __import__("urllib.parse").parse.quote_plus(s)), False),
        "b64decode_utf8": ([STRS], b64, False),
        "fromtimestamp": ([[c for c in NUMERIC if c.startswith("int") or c in ("true", "false")]], datetime.datetime.fromtimestamp, False),
        "dateparse": ([[c for c in STRS if c not in ("str_int", "str_ts", "str_bigdigits", "str_hugeint")]], parser.parse, False),
        "json_indent": ([[c for c in NUMERIC if c.startswith("int_") and c != "int_ts"]], lambda n: _json.dumps([1], indent=n), False),
        "sorted": ([[c for c in allc if c.startswith("list_") or c in ("range",)]], sorted, False),
        "percent_format": ([[c for c in STRS if c not in ("str_hugeint",)]], _fmt_escaped, False),
        "intdiv": ([[c for c in NUMERIC if not c.startswith("float")], [c for c in NUMERIC if not c.startswith("float")]], lambda a, b: (a // b, a % b), False),
        "truediv": ([NUMERIC, [c for c in NUMERIC if c.startswith("float")]], lambda a, b: a / b, False),
        "truediv_r": ([[c for c in NUMERIC if c.startswith("float")], NUMERIC], lambda a, b: a / b, False),
        "dec:minus": ([nonbool_num, nonbool_num], dec("minus"), False),
        "dec:plus": ([nonbool_num, nonbool_num], dec("plus"), False),
        "dec:times": ([nonbool_num, nonbool_num], dec("times"), False),
        "dec:modulo": ([nonbool_num, nonbool_num], dec("modulo"), False),
        "getitem": ([list(ELEMS), allc], lambda e, k: e[k], False),
        "getitem_h": ([list(ELEMS), allc], lambda e, k: _getitem(e, k), False),
    }


class PrimStream(ModelStream):
    name = "prim"
    parallel = True

    def cases(self, ctx):
        rnd = ctx.scale(2, 12)
        out = []
        for p, (arglists, _, _) in _prim_table().items():
            for combo in itertools.product(*arglists):
                # every hand-picked member of every operand class (binary primitives: the members are cycled
                # together, quick tier capped), then random members
                nfixed = max(len(fixed_members(c)) if c in CLASS_NAMES else 1 for c in combo)
                if len(combo) > 1:
                    nfixed = min(nfixed, ctx.scale(3, 16))
                for k in range(nfixed):
                    out.append({"prim": p, "cls": list(combo), "k": k})
                for j in range(rnd if len(combo) == 1 else max(1, rnd // 4)):
                    out.append({"prim": p, "cls": list(combo), "k": FIXED_SPAN + 1 + j})
        return out

    def impl(self, case):
        from liquid.undefined import Undefined

        p = case["prim"]
        _, fn, want_cls = _prim_table()[p]
        vals = []
        for i, c in enumerate(case["cls"]):
            if c in ELEMS and p.startswith("getitem") and i == 0:
                vals.append(ELEMS[c])
                continue
            v = member(c, case["k"])
            vals.append(Undefined("x") if v is UNDEF else v)
        try:
            r = fn(*vals)
            return {"out": "ok:" + _cls_of_result(r, case["cls"][0]) if want_cls else "ok"}
        except RecursionError:
            return {"out": "raise:RecursionError"}
        except BaseException as e:  # noqa: BLE001
            if isinstance(e, (KeyboardInterrupt, SystemExit)):
                raise
            return {"out": "raise:" + type(e).__name__}

    def line_obs(self, case, obs):
        p = "truediv" if case["prim"] == "truediv_r" else case["prim"]
        return ["c02.prim", p, case["cls"], obs["out"]]

    def oracle(self, case, obs):
        return None  # a primitive raising is Python's business; the property is stated on the filter/site/render streams

    def nontrivial(self, case, obs):
        return obs["out"].startswith("raise")

    def tags(self, case, obs):
        return [case["prim"], obs["out"].split(":")[0]]


# ---- stream filter ------------------------------------------------------------------------------------
RESOURCE_UNSAFE = {("json", 0, "int_ts"), ("json", 0, "str_ts")}  # `" " * 10**12`: may really allocate; int_large/big/huge show the same leak safely


def _filter_src(f, nargs):
    return "{% assign r = l | " + f + (": " + ", ".join(f"a{i}" for i in range(nargs)) if nargs else "") + " %}"


def member_indices(k, nargs, ks=None):
    """Member index of the left value and of each argument: explicit `ks`, else derived from the cell's `k`
    (k = 0: all representatives; small k: the hand-picked members, cycled differently per operand; large k: random)."""
    if ks is not None:
        return list(ks)
    if k < FIXED_SPAN:
        return [k] + [k * 3 + i for i in range(nargs)]
    return [k] + [k + 1 + i for i in range(nargs)]


def run_filter_cell(f, left, args, k, mode="strict", ks=None):
    data = {}
    idx = member_indices(k, len(args), ks)
    v = member(left, idx[0])
    if v is not UNDEF:
        data["l"] = v
    for i, a in enumerate(args):
        v = member(a, idx[1 + i] % FIXED_SPAN if ks is None and k < FIXED_SPAN else idx[1 + i])
        if v is not UNDEF:
            data[f"a{i}"] = v
    env = _env(mode)
    return observe(lambda: env.from_string(_filter_src(f, len(args))).render(**data))


class FilterStream(ModelStream):
    name = "filter"
    parallel = True

    def __init__(self):
        super().__init__()
        self.exhaustive = False

    def cell(self, case):
        return f"{case['f']}|{case['l']}|{','.join(case['a'])}"

    def cases(self, ctx):
        nm = names()
        classes = [c for c in nm["classes"] if c != "str_repr"]
        rng = ctx.rng_for("filter")
        thorough = ctx.tier == "thorough"
        out = []

        def ok(f, args):
            return not any((f, i, a) in RESOURCE_UNSAFE for i, a in enumerate(args))

        for f, mn, mx in nm["filters"]:
            mx = min(mx, 3)
            # no argument: every hand-picked member of every class
            for l in classes:
                for k in range(len(fixed_members(l))):
                    out.append({"f": f, "l": l, "a": [], "k": k})
            # one argument: the whole grid (thorough) / every (left, arg) pair with probability 18 % (quick)
            full1 = mx >= 1
            for l in classes:
                for a in classes:
                    if not ok(f, [a]):
                        continue
                    if thorough and full1 or (full1 and rng.chance(18)) or (not full1 and rng.chance(2)):
                        out.append({"f": f, "l": l, "a": [a], "k": 0})
                        if full1 and (thorough or rng.chance(25)):  # the same cell on hand-picked members
                            out.append({"f": f, "l": l, "a": [a], "k": rng.range(1, 20)})
            if mx >= 2:
                n2 = ctx.scale(300, 4000)
                for _ in range(n2):
                    a = [rng.choice(classes), rng.choice(classes)]
                    if ok(f, a):
                        out.append({"f": f, "l": rng.choice(classes), "a": a, "k": 0})
            if mx >= 3 or mn >= 2:
                for _ in range(ctx.scale(150, 1500)):
                    a = [rng.choice(classes) for _ in range(3)]
                    if ok(f, a):
                        out.append({"f": f, "l": rng.choice(classes), "a": a, "k": 0})
            # too many arguments
            for _ in range(ctx.scale(3, 30)):
                a = [rng.choice(classes) for _ in range(mx + 1)]
                if ok(f, a):
                    out.append({"f": f, "l": rng.choice(classes), "a": a, "k": 0})
            # random members of the classes
            for _ in range(ctx.scale(60, 400)):
                a = [rng.choice(classes) for _ in range(rng.range(0, max(mx, 1)))]
                if ok(f, a):
                    out.append({"f": f, "l": rng.choice(classes), "a": a, "k": rng.range(FIXED_SPAN, 1 << 30)})
        # aimed: the %-formatting filters on every hand-picked percent string, in the message and in the plural position
        pct = [(c, j) for c in ("str_pct", "str_fmt_d", "str_fmt_s") for j in range(len(fixed_members(c)))]
        for c, j in pct:
            out.append({"f": "t", "l": c, "a": [], "k": j})
            out.append({"f": "gettext", "l": c, "a": [], "k": j})
            out.append({"f": "t", "l": c, "a": ["str_other"], "k": 0, "ks": [j, 0]})
            out.append({"f": "pgettext", "l": c, "a": ["str_other"], "k": 0, "ks": [j, 0]})
            for n in ("int_zero", "int_pos"):
                out.append({"f": "ngettext", "l": c, "a": ["str_other", n], "k": 0, "ks": [j, 0, 1]})
                out.append({"f": "ngettext", "l": "str_other", "a": [c, n], "k": 0, "ks": [0, j, 1]})
                out.append({"f": "npgettext", "l": c, "a": ["str_other", "str_other", n], "k": 0, "ks": [j, 0, 0, 1]})
                out.append({"f": "npgettext", "l": "str_other", "a": ["str_other", c, n], "k": 0, "ks": [0, 0, j, 1]})
        self.exhaustive = False
        return out

    def impl(self, case):
        obs = run_filter_cell(case["f"], case["l"], case["a"], case["k"], ks=case.get("ks"))
        giant = case["l"] == "int_giant" or "int_giant" in case["a"]
        return mark_digits(obs, giant, lambda: run_filter_cell(case["f"], _degiant(case["l"]), [_degiant(a) for a in case["a"]], case["k"], ks=case.get("ks")))

    def line_obs(self, case, obs):
        return ["c02.filter", case["f"], case["l"], case["a"], obs["out"]]

    def tags(self, case, obs):
        kind = "aimed" if "ks" in case else "rep" if case["k"] == 0 else "nasty" if case["k"] < FIXED_SPAN else "random"
        return [f"args{len(case['a'])}", obs["out"].split(":")[0], kind]

    def shrink_candidates(self, case):
        for i in range(len(case["a"])):
            yield {**case, "a": case["a"][:i] + case["a"][i + 1 :]}
        if case["k"] and "ks" not in case:
            yield {**case, "k": 0}
        for benign in ("str_other", "int_pos"):
            if case["l"] != benign:
                yield {**case, "l": benign}
            for i, a in enumerate(case["a"]):
                if a != benign:
                    yield {**case, "a": case["a"][:i] + [benign] + case["a"][i + 1 :]}


# ---- stream percent --------------------------------------------------------------------------------------
PCT_FRAGMENTS = ["%", "%%", "(you)s", "(x)d", " ", "d", "!"]
PCT_TEMPLATES = {
    "t": ("{% assign r = s | t %}", "t", 0),
    "t_var": ("{% assign r = s | t: you: 'World' %}", "t", 0),
    "gettext": ("{% assign r = s | gettext: you: 'W' %}", "gettext", 0),
    "pgettext": ("{% assign r = s | pgettext: 'ctx' %}", "pgettext", 0),
    "ngettext_plural": ("{% assign r = 'one' | ngettext: s, 2 %}", "ngettext", 1),
    "npgettext_plural": ("{% assign r = 'one' | npgettext: 'ctx', s, 0 %}", "npgettext", 2),
    "tag": ("{% translate %}" + "\x00" + "{% endtranslate %}", None, 0),
}


def pct_class(s: str) -> str:
    import re

    if re.search(r"%\(\w+\)s", s):
        return "str_fmt_s"
    if "%" in s:
        return "str_pct" if not re.search(r"%\(\w+\)[a-z]", s) else "str_fmt_d"
    return "str_other"


class PercentStream(ModelStream):
    """Every message over a small alphabet of percent-ish fragments (runs of 1, 2, 3, ... percent signs in front of text,
    of a placeholder, of a non-conversion character and of the end of the string) through every translate filter."""

    name = "percent"
    parallel = True
    exhaustive = True

    def cell(self, case):
        return f"{case['tpl']}|{pct_class(case['msg'])}"

    def cases(self, ctx):
        msgs = sorted({"".join(p) for n in range(1, ctx.scale(4, 5) + 1) for p in itertools.product(PCT_FRAGMENTS, repeat=n)}
                      | {"100% sure", "100%% sure", "100%%% sure", "100%%%", "%%%%%%%", "%(you)s%%%%%"})
        out = []
        for i, m in enumerate(msgs):
            for j, t in enumerate(PCT_TEMPLATES):
                if ctx.tier == "thorough" or j == 0 or (i + j) % 4 == 0:
                    out.append({"msg": m, "tpl": t, "mode": MODES[(i + j) % 3]})
        return out

    def impl(self, case):
        src, _, _ = PCT_TEMPLATES[case["tpl"]]
        env = _env(case["mode"])
        if case["tpl"] == "tag":
            src = src.replace("\x00", case["msg"].replace("{", "").replace("}", ""))
            return observe(lambda: env.from_string(src).render(you="W"))
        return observe(lambda: env.from_string(src).render(s=case["msg"]))

    def line_obs(self, case, obs):
        _, f, pos = PCT_TEMPLATES[case["tpl"]]
        if f is None or case["mode"] != "strict":
            return None
        c = pct_class(case["msg"])
        left, args = (c, []) if pos == 0 else ("str_other", ["str_other"] * (pos - 1) + [c])
        if f == "pgettext":
            args = ["str_other"]
        elif f == "ngettext":
            args = [c, "int_pos"]
        elif f == "npgettext":
            args = ["str_other", c, "int_zero"]
        return ["c02.filter", f, left, args, obs["out"]]

    def nontrivial(self, case, obs):
        return "%" in case["msg"]

    def tags(self, case, obs):
        import re

        runs = [len(m) for m in re.findall(r"%+", case["msg"])]
        return [case["tpl"], obs["out"].split(":")[0], "maxrun" + str(min(max(runs, default=0), 5))]


# ---- stream chain -------------------------------------------------------------------------------------------
class ChainStream(ModelStream):
    """`l | f1: … | f2: … (| f3: …)`: the real chain against `runChain` (the result of a link is any class of
    `resultCls f`)."""

    name = "chain"
    parallel = True

    def cell(self, case):
        return case["l"] + "".join(f"|{f}:{','.join(a)}" for f, a in case["links"])

    def cases(self, ctx):
        nm = names()
        # str_exp is left out: concatenating digits to "1e999" gives an exponent beyond Decimal's Emax, a string outside
        # every class of the lattice (decimal.Overflow from babel / sum: recorded as known findings, not modelled)
        classes = [c for c in nm["classes"] if c not in ("str_repr", "str_exp")]
        rng = ctx.rng_for("chain")
        filters = nm["filters"]
        out = []
        for i in range(ctx.scale(6000, 60000)):
            links = []
            for _ in range(rng.choice([2, 2, 2, 3])):
                f, mn, mx = rng.choice(filters)
                n = rng.range(mn, min(max(mx, mn), 2)) if rng.chance(85) else rng.range(0, 3)
                args = [rng.choice(classes) for _ in range(n)]
                if any((f, j, a) in RESOURCE_UNSAFE for j, a in enumerate(args)):
                    args = []
                links.append([f, args])
            out.append({"l": rng.choice(classes), "links": links, "k": rng.choice([0, 0, rng.range(1, 40), rng.range(FIXED_SPAN, 1 << 30)])})
        return out

    @staticmethod
    def _run(case, degiant=False):
        dg = _degiant if degiant else (lambda c: c)
        data, parts = {}, []
        v = member(dg(case["l"]), case["k"])
        if v is not UNDEF:
            data["l"] = v
        for i, (f, args) in enumerate(case["links"]):
            names_ = []
            for j, a in enumerate(args):
                nm_ = f"a{i}_{j}"
                names_.append(nm_)
                v = member(dg(a), case["k"] + 1 + i + j if case["k"] else 0)
                if v is not UNDEF:
                    data[nm_] = v
            parts.append(f + (": " + ", ".join(names_) if names_ else ""))
        src = "{% assign r = l | " + " | ".join(parts) + " %}"
        env = _env("strict")
        return observe(lambda: env.from_string(src).render(**data))

    def impl(self, case):
        giant = case["l"] == "int_giant" or any("int_giant" in a for _, a in case["links"])
        return mark_digits(self._run(case), giant, lambda: self._run(case, degiant=True))

    def line_obs(self, case, obs):
        return ["c02.chain", case["l"], case["links"], obs["out"]]

    def tags(self, case, obs):
        return [f"len{len(case['links'])}", obs["out"].split(":")[0]]

    def shrink_candidates(self, case):
        for i in range(len(case["links"])):
            if len(case["links"]) > 1:
                yield {**case, "links": case["links"][:i] + case["links"][i + 1 :]}
        if case["k"]:
            yield {**case, "k": 0}


# ---- stream sites ---------------------------------------------------------------------------------------
SITES = {
    # modelled (Site of Model/ExcFlow.lean) -------------------------------------------------------------
    "output": ("{{ x }}", "output"),
    "echo": ("{% echo x %}", "output"),
    "capture": ("{% capture z %}{{ x }}{% endcapture %}{{ z }}", "output"),
    "range_stop": ("{% for i in (1..x) %}{% break %}{% endfor %}", "range_bound"),
    "range_start": ("{% for i in (x..3) %}{% break %}{% endfor %}", "range_bound"),
    "for_limit": ("{% for i in a limit: x %}{{ i }}{% endfor %}", "for_limit"),
    "for_offset": ("{% for i in a offset: x %}{{ i }}{% endfor %}", "for_offset"),
    "tablerow_cols": ("{% tablerow i in a cols: x %}{{ i }}{% endtablerow %}", "tablerow_cols"),
    "tablerow_limit": ("{% tablerow i in a limit: x %}{{ i }}{% endtablerow %}", "tablerow_limit"),
    "tablerow_offset": ("{% tablerow i in a offset: x %}{{ i }}{% endtablerow %}", "for_offset"),
    "translate_count": ("{% translate count: x %}one{% plural %}many{% endtranslate %}", "translate_count"),
    "contains_left": ("{% if x contains 1 %}a{% endif %}", "contains_left"),
    "contains_in_str": ("{% if s contains x %}a{% endif %}", "contains_in_str"),
    "contains_in_dict": ("{% if d contains x %}a{% endif %}", "contains_in_dict"),
    "include_name": ("{% include x %}", "include_name"),
    "cycle_item": ("{% cycle x, 2 %}{% cycle x, 2 %}", "cycle_item"),
    "assign1": ('{% assign y = x %}', "assign"),
    "lt_left": ('{% if x < 1 %}a{% endif %}', "lt_left"),
    "lt_right": ('{% if 1 < x %}a{% endif %}', "lt_right"),
    "lt_str": ("{% if 'a' < x %}a{% endif %}", "lt_str"),
    "ge_self": ('{% if x >= x %}a{% endif %}', "ge_self"),
    "eq_int": ('{% if x == 1 %}a{% endif %}', "eq_int"),
    "eq_empty": ('{% if x == empty %}a{% endif %}', "eq_empty"),
    "eq_blank": ('{% if x != blank %}a{% endif %}', "eq_blank"),
    "contains_list1": ('{% if a contains x %}a{% endif %}', "contains_list"),
    "contains_empty1": ('{% if x contains empty %}a{% endif %}', "contains_empty"),
    "truthy1": ('{% if x %}a{% endif %}', "truthy"),
    "not_": ('{% if not x %}a{% endif %}', "not_"),
    "idx_list": ('{{ a[x] }}', "idx_list"),
    "idx_dict": ('{{ d[x] }}', "idx_dict"),
    "idx_str": ('{{ s[x] }}', "idx_str"),
    "sub0": ('{{ x[0] }}', "sub0"),
    "subk": ("{{ x['k'] }}", "subk"),
    "dot_size": ('{{ x.size }}', "dot_size"),
    "dot_first": ('{{ x.first }}', "dot_first"),
    "dot_last": ('{{ x.last }}', "dot_last"),
    "dot_k": ('{{ x.k }}', "dot_k"),
    "case_": ("{% case x %}{% when 1 %}a{% when 'a' %}b{% endcase %}", "case_"),
    "when_": ('{% case 1 %}{% when x %}a{% endcase %}', "when_"),
    "cycle_group1": ('{% cycle x: 1, 2 %}', "cycle_group"),
    "render_with1": ("{% render 'p' with x %}", "render_with"),
    "render_for": ("{% render 'p' for x %}", "render_for"),
    "render_arg": ("{% render 'p', p: x %}", "render_arg"),
    "include_with1": ("{% include 'p' with x %}", "include_with"),
    "include_for": ("{% include 'p' for x %}", "include_for"),
    "include_arg": ("{% include 'p', p: x %}", "include_arg"),
    "ifchanged1": ('{% ifchanged %}{{ x }}{% endifchanged %}', "ifchanged"),
    "with_": ('{% with q: x %}{{ q }}{% endwith %}', "with_"),
    "macro_arg": ('{% macro m q %}{{ q }}{% endmacro %}{% call m x %}', "macro_arg"),
    "translate_var1": ('{% translate you: x %}Hi {{ you }}{% endtranslate %}', "translate_var"),
    "ternary_cond": ('{{ 1 if x else 2 }}', "ternary_cond"),
    "ternary_val": ('{{ x if x else 2 }}', "ternary_val"),
    "for_iter1": ('{% for i in x limit: 2 %}{{ i }}{% endfor %}', "for_iter"),
    "tablerow_iter1": ('{% tablerow i in x limit: 2 %}{{ i }}{% endtablerow %}', "tablerow_iter"),
    "liquid_echo": ('{% liquid\n echo x %}', "liquid_echo"),
    "kw_allow_false": ("{{ 'a' | default: 'b', allow_false: x }}", "kw_allow_false"),
    "kw_t_var": ("{{ 'a%(v)s' | t: v: x }}", "kw_t_var"),
    "kw_t_count": ("{{ 'a' | t: plural: 'b', count: x }}", "kw_t_count"),
    "kw_t_plural": ("{{ 'a' | t: plural: x, count: 2 }}", "kw_t_plural"),
    "kw_unknown": ("{{ 'a' | upcase: q: x }}", "kw_unknown"),
    "kw_unknown_t": ("{{ 'a' | ngettext: 'b', 2, q: x }}", "kw_unknown_t"),
    # oracle only: several holes in one template ----------------------------------------------------------
    "assign": ("{% assign y = x %}{% assign z = y | default: x %}", None),
    "range_out": ("{{ (1..x) }}{{ (x..x) }}", None),
    "for_iter": ("{% for i in x limit: 2 %}{{ forloop.index }}{% endfor %}", None),
    "tablerow_iter": ("{% tablerow i in x limit: 2 %}{% endtablerow %}", None),
    "lt_l": ("{% if x < 1 %}a{% endif %}", None),
    "lt_r": ("{% if 1 < x %}a{% endif %}", None),
    "lt_s": ("{% if 'a' < x %}a{% endif %}", None),
    "ge_x": ("{% if x >= y %}a{% endif %}{% if x <= x %}b{% endif %}", None),
    "eq": ("{% if x == 1 %}a{% endif %}{% if x == y %}a{% endif %}{% if x != empty %}a{% endif %}{% if x == blank %}a{% endif %}", None),
    "contains_list": ("{% if a contains x %}a{% endif %}", None),
    "contains_empty": ("{% if x contains empty %}a{% endif %}{% if x contains blank %}a{% endif %}", None),
    "truthy": ("{% if x %}a{% endif %}{% unless x %}a{% endunless %}{% if x and y or x %}a{% endif %}{% if not x %}b{% endif %}", None),
    "idx": ("{{ a[x] }}{{ d[x] }}{{ s[x] }}", None),
    "idx_of": ("{{ x[0] }}{{ x['k'] }}{{ x.size }}{{ x.first }}{{ x.last }}{{ x.k }}{{ x[y] }}", None),
    "case": ("{% case x %}{% when 1 %}a{% when 'a', y %}b{% else %}c{% endcase %}{% case 1 %}{% when x %}a{% endcase %}", None),
    "cycle_group": ("{% cycle x: 1, 2 %}", None),
    "render_with": ("{% render 'p' with x %}{% render 'p' for x %}{% render 'p', p: x %}", None),
    "include_with": ("{% include 'p' with x %}{% include 'p' for x %}{% include 'p', p: x %}", None),
    "ifchanged": ("{% ifchanged %}{{ x }}{% endifchanged %}", None),
    "increment": ("{% increment x %}{% decrement x %}", None),
    "with": ("{% with q: x %}{{ q }}{% endwith %}", None),
    "macro": ("{% macro m q %}{{ q }}{% endmacro %}{% call m x %}{% call m q: x %}", None),
    "translate_var": ("{% translate you: x %}Hi {{ you }}{% endtranslate %}", None),
    "ternary": ("{{ 1 if x else 2 }}{{ x if x else x }}", None),
    "liquid": ("{% liquid\n echo x\n assign q = x %}", None),
    "filter_kw": ("{{ 'a' | default: 'b', allow_false: x }}{{ 'a%(v)s' | t: v: x }}", None),
}


def run_site(site, cls, k, mode, use_async=False):
    data = {"a": [1, 2, 3], "d": {"k": 1}, "s": "hello", "y": 1}
    v = member(cls, k)
    if v is not UNDEF:
        data["x"] = v
    env = _env(mode)
    if use_async:
        return observe(lambda: run_async(lambda: env.from_string(SITES[site][0]).render_async(**data)))
    return observe(lambda: env.from_string(SITES[site][0]).render(**data))


class SitesStream(ModelStream):
    name = "sites"
    parallel = True
    exhaustive = True

    def cell(self, case):
        return f"{case['site']}|{case['cls']}" if SITES[case["site"]][1] else None

    def cases(self, ctx):
        classes = [c for c in CLASS_NAMES]
        out = []
        for si, s in enumerate(SITES):
            for ci, c in enumerate(classes):
                out.append({"site": s, "cls": c, "k": 0, "mode": "strict", "async": False})
                out.append({"site": s, "cls": c, "k": 0, "mode": "lax", "async": False})
                if ctx.tier == "thorough" or (si + ci) % 3 == 0:
                    out.append({"site": s, "cls": c, "k": 0, "mode": "warn", "async": False})
                if ctx.tier == "thorough" or (si + ci) % 2 == 0:
                    out.append({"site": s, "cls": c, "k": 0, "mode": "strict", "async": True})
                # the hand-picked members of the class, then random ones
                ks = list(range(1, min(len(fixed_members(c)), ctx.scale(3, 64)))) + [FIXED_SPAN + j for j in range(ctx.scale(1, 4))]
                for k in ks:
                    out.append({"site": s, "cls": c, "k": k, "mode": MODES[k % 3], "async": k % 2 == 0})
        return out

    def impl(self, case):
        obs = run_site(case["site"], case["cls"], case["k"], case["mode"], case["async"])
        return mark_digits(obs, case["cls"] == "int_giant", lambda: run_site(case["site"], "int_huge", case["k"], case["mode"], case["async"]))

    def line_obs(self, case, obs):
        ms = SITES[case["site"]][1]
        if ms is None:
            return None
        return ["c02.site", ms, case["cls"], case["mode"] == "strict", obs["out"]]

    def tags(self, case, obs):
        return [case["mode"], obs["out"].split(":")[0], "modelled" if SITES[case["site"]][1] else "oracle-only"]


# ---- stream handlers ----------------------------------------------------------------------------------------
def _exc_instance(lean_name, py_name):
    """An instance of the Python class a generated `Exc` constructor stands for (None when it cannot be built)."""
    import builtins
    import importlib

    import liquid.exceptions as LE

    cls = getattr(LE, py_name, None) if "_" not in lean_name or lean_name == py_name else None
    if cls is None and lean_name == py_name:
        cls = getattr(builtins, py_name, None)
    if cls is None and "_" in lean_name:
        mod = lean_name[: -len(py_name) - 1]
        for m in (mod, mod + ".parser", mod + ".core", mod + ".numbers", mod + ".units", mod + ".exceptions"):
            try:
                cls = getattr(importlib.import_module(m), py_name)
                break
            except Exception:  # noqa: BLE001
                continue
    if cls is None or not (isinstance(cls, type) and issubclass(cls, BaseException)) or not issubclass(cls, Exception):
        return None
    for args in (("boom",), ("utf-8", b"\xff", 0, 1, "boom"), ("utf-8", "\ud800", 0, 1, "boom"), ()):
        try:
            return cls(*args)
        except Exception:  # noqa: BLE001
            continue
    return None


class HandlerStream(ModelStream):
    name = "handlers"
    exhaustive = True

    def cases(self, ctx):
        return [{"where": w, "exc": e[0], "py": e[1]} for e in names()["excs"] for w in ("from_string", "render_strict", "render_lax") if e[0] not in ("BaseException",)]

    def impl(self, case):
        from liquid import Environment, Mode

        inst = _exc_instance(case["exc"], case["py"])
        if inst is None:
            return {"out": "skip"}

        def boom(*a, **k):
            raise inst

        if case["where"] == "from_string":
            env = Environment()
            env._parse = boom
            return observe(lambda: env.from_string("x"))
        env = Environment(tolerance=Mode.STRICT if case["where"] == "render_strict" else Mode.LAX)
        env.add_filter("boom", boom)
        return observe(lambda: env.from_string("a{{ 1 | boom }}b").render())

    def line_obs(self, case, obs):
        if obs["out"] == "skip":
            return None
        return ["c02.handler", case["where"], case["exc"], obs["out"]]

    def oracle(self, case, obs):
        # direct statement of "from_string converts everything": no Exception subclass may come out un-Liquid
        if case["where"] == "from_string" and obs["out"].startswith("leak:"):
            return (f"from_string|{obs['out'][5:]}", "an exception raised while parsing left from_string as a non-Liquid error")
        return None

    def nontrivial(self, case, obs):
        return obs["out"] != "skip"

    def tags(self, case, obs):
        return [case["where"], obs["out"].split(":")[0]]


# ---- stream render --------------------------------------------------------------------------------------------
class RenderStream(Stream):
    name = "render"
    parallel = True
    has_model = False

    def cases(self, ctx):
        rng = ctx.rng_for("render")
        out = []
        for i in range(ctx.scale(1500, 15000)):
            prog = gen_program(rng.fork(str(i)))
            # sprinkle values of the awkward classes over the data
            r2 = rng.fork("v" + str(i))
            if r2.chance(60):
                for name in r2.sample(["a", "b", "c", "x", "y", "n", "s", "t"], r2.range(1, 3)):
                    prog["data"][name] = ["@cls", r2.choice([c for c in CLASS_NAMES if c not in ("undefined",)]), r2.range(0, 48) if r2.chance(60) else r2.range(FIXED_SPAN, 1 << 20)]
            prog["mode"] = MODES[i % 3]
            prog["async"] = i % 4 == 3
            out.append(prog)
        return out

    @staticmethod
    def _data(prog, degiant=False):
        d = {}
        for k, v in prog["data"].items():
            if isinstance(v, list) and len(v) == 3 and v[0] == "@cls":
                d[k] = member(_degiant(v[1]) if degiant else v[1], v[2])
            else:
                d[k] = v
        return d

    def impl(self, case):
        giant = any(isinstance(v, list) and len(v) == 3 and v[0] == "@cls" and v[1] == "int_giant" for v in case["data"].values())
        obs = self._run(case, self._data(case))
        return mark_digits(obs, giant, lambda: self._run(case, self._data(case, degiant=True)))

    def _run(self, case, data):
        def go():
            env = make_env(case, mode=case.get("mode"))
            t = env.from_string(case["source"])
            if case.get("async"):
                return run_async(lambda: t.render_async(**data))
            return t.render(**data)

        return observe(go)

    def oracle(self, case, obs):
        if obs["out"].startswith("leak:"):
            return (signature(obs), f"{obs['out'][5:]} reached the caller of render")
        return None

    def nontrivial(self, case, obs):
        return obs["out"] != "ok" or "|" in case["source"]

    def tags(self, case, obs):
        return [case.get("mode", "strict"), obs["out"].split(":")[0]] + (["async"] if case.get("async") else [])

    def shrink_candidates(self, case):
        import re

        pieces = re.split(r"(\{%.*?%\}|\{\{.*?\}\})", case["source"], flags=re.S)
        for i in range(len(pieces)):
            if pieces[i]:
                d = dict(case)
                d["source"] = "".join(pieces[:i] + pieces[i + 1 :])
                yield d
        for k in list(case["data"]):
            d = dict(case)
            d["data"] = {a: b for a, b in case["data"].items() if a != k}
            yield d
        for k in list(case["partials"]):
            d = dict(case)
            d["partials"] = {a: b for a, b in case["partials"].items() if a != k}
            yield d


# ---- stream parse ------------------------------------------------------------------------------------------------
class ParseStream(Stream):
    name = "parse"
    parallel = True
    has_model = False

    def cases(self, ctx):
        rng = ctx.rng_for("parse")
        out = []
        n = ctx.scale(1500, 10000)
        alphabet = ["{{", "}}", "{%", "%}", "-", "|", ":", ",", ".", "[", "]", "(", ")", "..", "'", '"', " ", "\n", "if", "endif", "for", "in", "x", "1", "1.5", "==", "and", "or", "not", "contains", "liquid", "raw", "endraw", "comment", "#", "\\", "\x00", "\ud800", "é", "%(x)d", "9" * 30, "assign", "=", "echo", "case", "when", "else", "tablerow", "cycle", "include", "render", "with", "macro", "call", "extends", "block", "translate", "plural"]
        for i in range(n):
            r = rng.fork(str(i))
            kind = r.below(10)
            prog = gen_program(r, n_partials=0)
            if kind < 6:
                src = malform(r, prog["source"])
                if r.chance(30):
                    src = malform(r, src)
            elif kind == 6:
                src = "".join(r.choice(alphabet) + r.choice(["", " ", " "]) for _ in range(r.range(1, 40)))
            elif kind == 7:
                depth = r.choice([5, 50, 200, 600, 1500, 5000])
                shape = r.below(5)
                if shape == 0:
                    src = "{% if x %}" * depth + "y" + "{% endif %}" * depth
                elif shape == 1:
                    src = "{{ " + "(" * depth + "x" + ")" * depth + " }}"
                elif shape == 2:
                    src = "{% if " + "(" * depth + "x" + ")" * depth + " %}y{% endif %}"
                elif shape == 3:
                    src = "{{ x" + "[x" * depth + "]" * depth + " }}"
                else:
                    src = "{{ x" + " | upcase" * depth + " }}" + "{% for i in a %}" * min(depth, 200)
            elif kind == 8:
                src = "".join(chr(r.choice([r.below(128), r.below(0x3000), 0xD800 + r.below(0x800), r.below(0x10FFFF)])) for _ in range(r.range(1, 60)))
                if r.chance(50):
                    src = "{{ " + src + " }}{% " + src + " %}"
            else:
                src = prog["source"][: r.below(max(1, len(prog["source"])))]
            out.append({"source": src, "flags": prog["flags"], "extra": prog["extra"], "mode": MODES[i % 3], "partials": {}})
        return out

    def impl(self, case):
        def go():
            env = make_env(case, mode=case["mode"])
            env.from_string(case["source"])

        return observe(go)

    def oracle(self, case, obs):
        if obs["out"].startswith("leak:"):
            return ("parse|" + signature(obs), f"{obs['out'][5:]} escaped from_string")
        return None

    def nontrivial(self, case, obs):
        return obs["out"] == "liquid"

    def tags(self, case, obs):
        return [case["mode"], obs["out"].split(":")[0]]

    def shrink_candidates(self, case):
        s = case["source"]
        for cut in (s[: len(s) // 2], s[len(s) // 2 :], s[1:], s[:-1]):
            if cut != s:
                yield {**case, "source": cut}


# ---- stream deep -------------------------------------------------------------------------------------------------
class DeepStream(Stream):
    """Self-referencing partials nested inside d blocks: the context-depth limit should stop them with a Liquid error."""

    name = "deep"
    has_model = False
    exhaustive = True

    def cases(self, ctx):
        return [{"depth": d, "kind": k, "mode": m} for d in range(1, ctx.scale(16, 40)) for k in ("render", "include") for m in MODES]

    def impl(self, case):
        from liquid import DictLoader, Environment, Mode

        d, kind = case["depth"], case["kind"]
        body = "{% if true %}" * d + "{% " + kind + " 'rec' %}" + "{% endif %}" * d
        tol = {"strict": Mode.STRICT, "warn": Mode.WARN, "lax": Mode.LAX}[case["mode"]]

        def go():
            env = Environment(loader=DictLoader({"rec": body}), tolerance=tol)
            env.from_string("{% " + kind + " 'rec' %}").render()

        return observe(go)

    def oracle(self, case, obs):
        if obs["out"] == "leak:RecursionError":
            return ("RecursionError|partial-depth", "the Python stack ran out before the context depth limit was reached")
        if obs["out"].startswith("leak:"):
            return (signature(obs), f"{obs['out'][5:]} reached the caller of render")
        return None

    def nontrivial(self, case, obs):
        return obs["out"] != "ok"

    def tags(self, case, obs):
        return [case["kind"], obs["out"].split(":")[0]]


def extra(ctx):
    """Coverage facts about the generated tables."""
    try:
        nm = names()
        ctx.extra_coverage["c02_tables"] = {
            "filters": len(nm["filters"]),
            "classes": len(nm["classes"]),
            "sites_modelled": len(nm["sites"]),
            "exception_classes": len(nm["excs"]),
            "liquid_exception_classes": sum(1 for e in nm["excs"] if e[2]),
        }
    except Exception as e:  # noqa: BLE001
        ctx.notes.append(f"c02.names unavailable: {e}")


def streams(ctx):
    return [PrimStream(), FilterStream(), PercentStream(), ChainStream(), SitesStream(), HandlerStream(), DeepStream(), RenderStream(), ParseStream()]
