"""C08 — resource limits only abort a render, never alter its output.

Streams (real engine from $LIQUID_REPO; `sweep` and `regress` also run the Lean model `Model/Limits.lean` through
`Driver/C0708.lean`):

* `sweep`   generated programs of the modelled fragment (text/output/assign/capture/ifchanged/cycle/if/for/include/
            render, 1-4-byte text, partial pools); each of the five limits is swept on its own from 0 to beyond the
            resource an instrumented unlimited render used, plus a few configurations with several limits at once;
* `regress` hand-written programs with every limit swept densely;
* `gen`     programs of the shared generator (every built-in and extra tag, ~90 filters, inheritance, macros,
            feature flags, autoescape), each limit on a fixed grid; direct oracle only;
* `codepoints` render data with lone surrogates and astral characters under an output limit; direct oracle only.

Direct oracle (the property itself): every limited outcome is identical to the unlimited one (same output or same
error class) or is a ResourceLimitError (checked with isinstance on the live exception) — of the class of the one
limit that was changed when only one was; and per limit, success under a value implies success with the same
output under every larger value.
"""
from __future__ import annotations

from ..core import Stream
from .. import limits_common as lc
from ..prng import Rng
from .c07 import CodepointStream as _C07Codepoints
from .c07 import regress_programs

ID = "C08"
LEAN_MODULE = "LiquidVerif.Props.C08"
TRANSLATE = True
RULE = (
    "stream sweep: a generated program of the modelled fragment (text/output/assign/capture/ifchanged/cycle/if/unless/with/for/tablerow/include/render, filters append/prepend/size); an instrumented unlimited render gives the output size U, "
    "the sizes measured after assignments, the products tested by raise_for_loop_limit and the depths tested by "
    "extend/copy; output_stream_limit takes 0,1,U-1,U,U+1,2U+1 and random values, local_namespace_limit and "
    "loop_iteration_limit take 0,1 and b-1,b,b+1 for observed boundaries b, context_depth_limit takes 0..max+2 (thinned "
    "to 10), block_nesting_limit takes 0..nest+1; three more configurations set several limits at once. Every "
    "configuration is rendered by a fresh Environment on the real engine and by the model, compared on (ok + output | "
    "error class). stream gen: shared-generator programs over all tags/filters under fixed grids per limit, oracle only. "
    "Non-trivial: the unlimited render completes and at least two different limits each have a completing and a raising value "
    "(gen: at least one limit has both)."
)
TRUSTED_BASE = [
    "Lean 4.33 kernel; axioms subset of {propext, Classical.choice, Quot.sound}",
    "hand-written model LiquidVerif/Model/Limits.lean (see C07) carrying all five limits: LimitedStringIO.write, "
    "RenderContext.assign / raise_for_loop_limit / extend / copy, Parser.parse_block",
    "translator tools/emitters/c08_exceptions.py (Python ast): class table of liquid/exceptions.py and, for the six limit "
    "tests, the class raised, the comparison operator and the `limit and ...` idiom, regenerated every run into "
    "Gen/C08Exceptions.lean and decided against the model's table (checks_as_modelled)",
    "correspondence harness harness/props/c08.py + harness/limits_common.py + Driver/C0708.lean",
    "CPython utf-8/getsizeof primitives (modelled as definitions, sampled by C07's stream prims)",
]
ASSUMPTIONS = [
    "STRICT error mode only: in LAX/WARN mode a suppressed limit error truncates output by design (C03 governs); recorded, not claimed",
    "limits are configured as class attributes of a fresh Environment (templates are parsed under the configured block_nesting_limit)",
    "for local_namespace_limit and loop_iteration_limit the order used by the theorems identifies 0 with None (falsy test); the plain-order statement fails exactly there (known findings)",
    "context_depth_limit / block_nesting_limit have no 'unlimited' value; 'unlimited' means any larger value (theorem limits_monotone), the harness uses the defaults 30/30 as baseline",
    "constructs outside the model (case, increment, liquid, macro/call, extends/block, translate, break/continue, tablerow cols, filters other than append/prepend/size) are covered by stream gen through the direct oracle only",
    "LAX/WARN: lax_limit_alters_output_counterexample shows the property fails there (a suppressed OutputStreamLimitError shortens the output); what does hold in every mode is C07's byte bound",
]
MANIFEST = {
    "technique": "Lean 4 proof (one mutual functional induction: under a tighter limit configuration a render agrees with the looser one or raises an error of a limit that differs) + generated exception hierarchy and limit-check table decided against the model + differential correspondence with sweeps of all five limits",
    "text": "limited_identical_or_limit_error, limits_only_abort, limits_monotone (all five limits at once, order with None = no limit), added_error_is_of_a_changed_limit, other_errors_unchanged hold for every template, partial pool and data of the model; per-limit corollaries limits_monotone_output/depth/nesting at full strength, limits_monotone_ns_partial / limits_monotone_loop_partial for limits != 0 with kernel-checked counterexamples at 0 (`if limit and ...`), limit_errors_derive_from_ResourceLimitError and checks_as_modelled decided over tables regenerated from the source.",
    "note": "Trusted: Lean kernel, the hand model Model/Limits.lean, the ast emitter for the class table, the correspondence harness. STRICT mode only (LAX/WARN suppression is C03's contract).",
}

KINDS = ["output", "ns", "loop", "depth", "nesting"]


def _lim(**kw):
    return dict(lc.DEFAULT_LIMITS, **kw)


def judge(stream, base, configs, kinds, results, rle):
    """The property on one program. results/base are canonical outcomes; rle[i]: outcome i is a ResourceLimitError.
    The two listed zero-is-unlimited readings are reported only when nothing else is wrong, so that they can never hide
    a different violation found in the same sweep."""
    vs = all_violations(stream, base, configs, kinds, results, rle)
    if not vs:
        return None
    other = [v for v in vs if not v[0].endswith("|zero-is-unlimited")]
    return (other or vs)[0]


def all_violations(stream, base, configs, kinds, results, rle):
    out = []
    for cfg, kind, r, is_rle in zip(configs, kinds, results, rle):
        if r == base:
            continue
        if r[0] == "ok":
            out.append((f"{stream}|{kind}|limit-altered-output", f"{cfg}: completed with an output that differs from the unlimited render ({base[:1]})"))
        elif not is_rle:
            out.append((f"{stream}|{kind}|other-error|{r[1]}", f"{cfg}: raised {r[1]}, not a ResourceLimitError; unlimited render: {base[0]} {base[1] if base[0] == 'err' else ''}"))
        elif kind in lc.LIMIT_ERRORS and r[1] != lc.LIMIT_ERRORS[kind]:
            out.append((f"{stream}|{kind}|wrong-limit-error|{r[1]}", f"{cfg}: only {kind} was limited but {r[1]} was raised"))
    for kind in KINDS:
        pts = sorted(((cfg[kind], r) for cfg, k, r in zip(configs, kinds, results) if k == kind and cfg[kind] is not None), key=lambda p: p[0])
        oks = [v for v, r in pts if r[0] == "ok"]
        for v, r in pts:
            if r[0] == "ok" or r == base:
                continue
            below = [o for o in oks if o < v]
            if not below:
                continue
            if kind in ("ns", "loop") and below == [0]:
                out.append((f"{kind}|zero-is-unlimited", f"{lc.LIMIT_ATTR[kind]}=0 succeeds but the larger value {v} raises {r[1]}"))
            else:
                ok_at = max(o for o in below if not (kind in ("ns", "loop") and o == 0)) if any(not (kind in ("ns", "loop") and o == 0) for o in below) else 0
                out.append((f"{stream}|{kind}|not-monotone", f"succeeds under {kind}={ok_at} but not under the larger value {v} ({r[1]})"))
    return out


def both_sides(configs, kinds, results, base):
    """kinds for which the sweep has a completing and a raising value"""
    out = set()
    for kind in KINDS:
        rs = [r for k, r in zip(kinds, results) if k == kind]
        if any(r[0] == "ok" for r in rs) and any(r != base for r in rs):
            out.add(kind)
    return out


class SweepStream(Stream):
    name = "sweep"
    parallel = True

    def cases(self, ctx):
        rng = ctx.rng_for("sweep")
        out = []
        for i in range(ctx.scale(200, 3000)):
            r = rng.fork(f"{i}")
            out.append({"prog": lc.gen_prog(r, max_depth=r.choice([2, 3, 3, 4])), "seed": r.next() & 0xFFFFFF})
        return out

    dense = False

    def plan(self, case, base, spy):
        rng = Rng(case["seed"], "sweep-plan")
        prog = case["prog"]
        U = lc.utf8_len(base["ok"]) if "ok" in base else 10
        cap = 40 if self.dense else 9
        vals = {}
        if self.dense:
            vals["output"] = list(range(0, min(2 * U + 2, 48)))
        else:
            vals["output"] = lc.thin(list(range(0, 2 * U + 2)), rng, cap, keep=[0, 1, U - 1, U, U + 1, 2 * U + 1])
        sizes = sorted({s[1] for s in spy["sizes"]})
        vals["ns"] = lc.thin(lc.around(sizes), rng, cap, keep=[0, 1] + ([max(sizes), max(sizes) + 1] if sizes else []))
        prods = sorted(set(spy["products"]))
        vals["loop"] = lc.thin(lc.around(prods), rng, cap, keep=[0, 1] + ([max(prods), max(prods) + 1] if prods else []))
        dmax = max(spy["depths"], default=4)
        vals["depth"] = lc.thin(list(range(0, min(dmax, 31) + 3)), rng, 40 if self.dense else 10, keep=[0, 3, 4, 5, dmax - 1, dmax, dmax + 1])
        nest = max([lc.nest_depth(prog["main"])] + [lc.nest_depth(b) for _, b in prog["templates"]])
        vals["nesting"] = list(range(0, nest + 2))
        configs, kinds = [], []
        for k in KINDS:
            for v in vals[k]:
                configs.append(_lim(**{k: v}))
                kinds.append(k)
        for _ in range(3):
            cfg = _lim()
            for k in KINDS:
                if rng.chance(55):
                    cfg[k] = rng.choice(vals[k])
            configs.append(cfg)
            kinds.append("combo")
        return configs, kinds

    def impl(self, case):
        prog = case["prog"]
        base = lc.run_prog(prog, _lim())
        spy = lc.new_spy()
        lc.run_prog(prog, _lim(ns=lc.BIG), spy=spy)
        configs, kinds = self.plan(case, base, spy)
        rs = [lc.run_prog(prog, cfg, is_async=(i % 7 == 3)) for i, cfg in enumerate(configs)]
        return {
            "base": lc.canon_outcome(base),
            "configs": configs,
            "kinds": kinds,
            "results": [lc.canon_outcome(r) for r in rs],
            "rle": [bool(r.get("rle")) for r in rs],
        }

    def line_obs(self, case, obs):
        prog = case["prog"]
        return ["limits", lc.model_prog(prog), prog["main"], [_lim()] + obs["configs"]]

    def compare_view(self, case, obs):
        return {"base": obs["base"], "results": obs["results"]}

    def canon_model(self, case, mobs):
        if not isinstance(mobs, list):
            return mobs
        c = [lc.canon_model_outcome(m, False) for m in mobs]
        return {"base": c[0], "results": c[1:]}

    def oracle(self, case, obs):
        return judge(self.name, obs["base"], obs["configs"], obs["kinds"], obs["results"], obs["rle"])

    def nontrivial(self, case, obs):
        return obs["base"][0] == "ok" and len(both_sides(obs["configs"], obs["kinds"], obs["results"], obs["base"])) >= 2

    def tags(self, case, obs):
        t = ["base:" + (obs["base"][0] if obs["base"][0] == "ok" else obs["base"][1])]
        t += ["both-sides:" + k for k in sorted(both_sides(obs["configs"], obs["kinds"], obs["results"], obs["base"]))]
        t += ["raised:" + e for e in sorted({r[1] for r in obs["results"] if r[0] == "err"})]
        t.append(f"configs~{len(obs['configs']) // 10 * 10}")
        kinds = lc.node_kinds(case["prog"]["main"])
        for _, b in case["prog"]["templates"]:
            kinds |= lc.node_kinds(b)
        t += sorted(kinds)
        return t

    def shrink_candidates(self, case):
        from ..core import generic_shrinks

        for p in generic_shrinks(case["prog"]):
            try:
                lc.prog_source(p)
            except Exception:
                continue
            yield {"prog": p, "seed": case["seed"]}


class RegressStream(SweepStream):
    name = "regress"
    parallel = False
    exhaustive = True
    dense = True

    def cases(self, ctx):
        return [{"name": n, "prog": p, "seed": 1} for n, p in regress_programs()]

    def tags(self, case, obs):
        return [case["name"]] + ["both-sides:" + k for k in sorted(both_sides(obs["configs"], obs["kinds"], obs["results"], obs["base"]))]

    def nontrivial(self, case, obs):
        return len(both_sides(obs["configs"], obs["kinds"], obs["results"], obs["base"])) >= 1

    def shrink_candidates(self, case):
        return []


GRID = {
    "output": [0, 1, 2, 5, 17, 64, 200],  # completed by U-1, U, U+1, 2U+1 of the case
    "ns": [0, 1, 41, 60, 100, 150, 250, 400, 800, 3000],
    "loop": [0, 1, 2, 3, 5, 10, 30, 200],
    "depth": [0, 3, 4, 5, 6, 7, 8, 10, 14, 20],
    "nesting": [0, 1, 2, 3, 4, 6],
}


class GenStream(Stream):
    """All tags and filters (shared generator), direct oracle only."""

    name = "gen"
    has_model = False
    parallel = True

    def cases(self, ctx):
        from ..gen.templates import gen_program

        rng = ctx.rng_for("gen")
        return [gen_program(rng.fork(str(i))) for i in range(ctx.scale(260, 4000))]

    @staticmethod
    def run(prog, lim, is_async=False):
        import asyncio
        import warnings

        from liquid.exceptions import LiquidError, ResourceLimitError

        from ..impl.render import make_env

        attrs = {lc.LIMIT_ATTR[k]: v for k, v in lim.items()}
        try:
            with warnings.catch_warnings():
                warnings.simplefilter("ignore")
                env = make_env(prog, limits=attrs)
                t = env.from_string(prog["source"])
                if is_async:
                    loop = asyncio.new_event_loop()
                    try:
                        out = loop.run_until_complete(t.render_async(**prog["data"]))
                    finally:
                        loop.close()
                else:
                    out = t.render(**prog["data"])
            return {"ok": out}
        except RecursionError:
            return {"err": "RecursionError", "rle": False}
        except Exception as e:  # noqa: BLE001
            return {"err": type(e).__name__, "rle": isinstance(e, ResourceLimitError), "liquid": isinstance(e, LiquidError)}

    def impl(self, case):
        base = self.run(case, {})
        U = lc.utf8_len(base["ok"]) if "ok" in base else 0
        configs, kinds = [], []
        for k in KINDS:
            vals = set(GRID[k])
            if k == "output" and "ok" in base:
                vals |= {v for v in (U - 1, U, U + 1, 2 * U + 1) if v >= 0}
            for v in sorted(vals):
                configs.append({k: v})
                kinds.append(k)
        rs = [self.run(case, cfg, is_async=(i % 5 == 2)) for i, cfg in enumerate(configs)]
        base2 = self.run(case, {})
        return {
            "base": lc.canon_outcome(base),
            "deterministic": lc.canon_outcome(base) == lc.canon_outcome(base2),
            "configs": [dict({k: None for k in KINDS}, **cfg) for cfg in configs],
            "kinds": kinds,
            "results": [lc.canon_outcome(r) for r in rs],
            "rle": [bool(r.get("rle")) for r in rs],
        }

    def oracle(self, case, obs):
        if not obs["deterministic"]:
            return None  # two unlimited renders differ (clock): nothing can be compared
        return judge(self.name, obs["base"], obs["configs"], obs["kinds"], obs["results"], obs["rle"])

    def nontrivial(self, case, obs):
        return obs["deterministic"] and obs["base"][0] == "ok" and len(both_sides(obs["configs"], obs["kinds"], obs["results"], obs["base"])) >= 1

    def tags(self, case, obs):
        t = ["base:" + (obs["base"][0] if obs["base"][0] == "ok" else obs["base"][1])]
        t += ["both-sides:" + k for k in sorted(both_sides(obs["configs"], obs["kinds"], obs["results"], obs["base"]))]
        t += ["raised:" + e for e in sorted({r[1] for r in obs["results"] if r[0] == "err" and r != obs["base"]})]
        if not obs["deterministic"]:
            t.append("nondeterministic")
        if case.get("extra"):
            t.append("extra-tags")
        return t


class CodepointStream(_C07Codepoints):
    """C07's code-point stream judged with C08's oracle: identical or ResourceLimitError."""

    def oracle(self, case, obs):
        base = obs["base"]
        for L, r in zip(obs["limits"], obs["results"]):
            if r == base:
                continue
            if r[0] == "ok":
                return ("codepoints|limit-altered-output", f"limit {L}")
            if r[1] != "OutputStreamLimitError":
                return (f"codepoints|other-error|{r[1]}", f"output_stream_limit={L}: raised {r[1]} instead of completing or raising a ResourceLimitError")
        return None


def streams(ctx):
    return [RegressStream(), SweepStream(), GenStream(), CodepointStream()]
