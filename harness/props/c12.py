"""C12 — conditions follow Liquid truthiness and operator rules
(liquid/builtin/expressions/logical.py, primitive.py, tags/if_tag.py, unless_tag.py, case_tag.py)."""
from __future__ import annotations

import itertools
from fractions import Fraction

from ..core import Stream

ID = "C12"
LEAN_MODULE = "LiquidVerif.Props.C12"
TRANSLATE = True
RULE = (
    "stream ops: every (left, right) pair of a 60-value lattice (nil, undefined, booleans, ints, floats incl. "
    "inf/nan, Decimals, strings incl. empty/blank-like, Markup, lists, dicts, ranges, the empty/blank literals; "
    "data-bound and literal forms) x the operators == != <> < > <= >= contains and bare truthiness, rendered "
    "through a real {% if %} (exhaustive in both tiers) and through unless / elsif / unless-elsif / ternary / "
    "ternary-without-else / case-when (a seeded eighth of the pairs per form in the quick tier, all pairs in the "
    "thorough tier); stream trees: every and/or/not tree shape of depth <= 3 (2776 shapes) printed fully "
    "parenthesised, minimally parenthesised and with no parentheses, rendered under all 8 assignments of three "
    "boolean variables, plus seeded random shapes of depth 4 and mixed-value trees with comparison leaves; stream "
    "parse: the AST built by the real BooleanExpression.parse against the model parser for the same shapes with "
    "comparison leaves and for seeded token soups (malformed included, not/parentheses switched on and off); "
    "stream case: seeded case/when templates with several when-values and else blocks; stream nested: seeded pairs of "
    "arrays/hashes nested to depth 4 that differ in a few leaves (true/1/1.0/Decimal(1), false/0, NaN), `a == b`, `b == a` "
    "and case/when through the real tags against the model, and the model's recursive Liquid equality and no-clash / "
    "NaN-free predicates against their Python restatement; stream prim: "
    "str.isspace over every code point below U+3100, str < and substring on seeded strings. "
    "Non-trivial: ops — every case (each renders all nine operators for one ordered pair of values); "
    "trees/parse — at least three operands or a not/parenthesis; case — at least two blocks; nested — both operands are "
    "containers; prim — always."
)
TRUSTED_BASE = [
    "Lean 4.33 kernel; axioms subset of {propext, Classical.choice, Quot.sound}",
    "hand-written models LiquidVerif/Model/{Value,Cond,CondParse}.lean of is_truthy/_eq/_lt/_contains, Empty/Blank equality, if/unless/case/ternary branch selection and the Pratt parser of logical.py",
    "tools/emitters/c12_tables.py (Python ast -> Gen/C12Tables.lean): precedences, BINARY_OPERATORS, infix node table, operand precedences of not/group — regenerated every run; the parser theorems are stated over these constants",
    "correspondence harness harness/props/c12.py + Driver/C12.lean (differential: every case renders through the real tags and through the model)",
    "CPython semantics modelled, sampled by the correspondence: exact int/float/Decimal comparison, True == 1, list/dict/range equality, str < by code point, str.isspace (exhaustive to U+3100), substring search",
    "CPython str() of float/Decimal/list/dict/range (used only by `string contains <non-string>`): passed through from the host, not modelled",
    "the expression lexer maps source text to the token kinds the parser model sees (one operand token per literal/path/range literal); checked by the parse stream, not proved",
]
ASSUMPTIONS = [
    "dict keys are strings; Decimal values are finite (Decimal NaN/Infinity outside the lattice)",
    "objects are not shared between operands (CPython's identity shortcut in list equality / membership makes `[nan] == [nan]` true for the same object)",
    "drops / objects with __liquid__ other than Undefined are outside the model; StrictUndefined is C16",
    "ordering with a boolean operand yields false (explicit branch of _lt, as in the reference implementation where booleans have no `<`): 'incompatible types' in the type-error theorem means neither both strings nor both numbers and no boolean operand",
]
MANIFEST = {
    "technique": "Lean 4 proof (type-case tables proved for all values by induction over nested values; Pratt parser right-associativity by induction over operator chains of any length; precedence constants regenerated from source) + exhaustive differential correspondence through the real tags",
    "text": "Theorems truthy_iff, eq_spec, eq_nested_partial (any depth, arrays and hashes) + eq_nested_coarser + eq_nested_counterexample, eq_symm (all values), eq_refl_partial + counterexample (NaN), lt_irrefl_asymm, lt_spec_partial + counterexample, ordering_type_error_iff, contains_spec, le/ge/ne/gt definitions, if/unless/case/ternary selection, parse_right_assoc (any chain length), group_spec, not_spec, cmp_binds_tighter hold for every value and every token list; models are tied to logical.py by a source translator for the precedence tables and by exhaustive operator x operand-lattice and tree correspondence through {% if %}, unless, elsif, case/when and ternary.",
    "note": "Trusted: Lean kernel (axioms propext/Classical.choice/Quot.sound only), the hand models of CPython ==/< on the modelled value classes, the lexer's token kinds, the harness. Three defects fixed in fix-C12 (contains with Python equality / unhashable TypeError; 'true' spelling; grouping parenthesis lexed as range literal); two recorded as known (nested true==1 inside lists, Decimal vs float NaN ordering raises decimal.InvalidOperation).",
}

# ------------------------------------------------------------------------------------------------
# value specs: {"t": kind, "v": payload, "lit": source literal (optional)}
# ------------------------------------------------------------------------------------------------


def _fl(x: float):
    if x != x:
        return "nan"
    if x in (float("inf"), float("-inf")):
        return "inf" if x > 0 else "-inf"
    n, d = x.as_integer_ratio()
    return [str(n), str(d)]


def enc(obj):
    """Python object -> spec."""
    from decimal import Decimal

    from markupsafe import Markup

    if obj is None:
        return {"t": "nil"}
    if isinstance(obj, bool):
        return {"t": "bool", "v": obj}
    if isinstance(obj, int):
        return {"t": "int", "v": str(obj)}
    if isinstance(obj, float):
        return {"t": "float", "v": _fl(obj)}
    if isinstance(obj, Decimal):
        fr = Fraction(obj)
        return {"t": "dec", "v": [str(fr.numerator), str(fr.denominator)], "s": str(obj)}
    if isinstance(obj, Markup):
        return {"t": "markup", "v": str(obj)}
    if isinstance(obj, str):
        return {"t": "str", "v": obj}
    if isinstance(obj, list):
        return {"t": "list", "v": [enc(x) for x in obj]}
    if isinstance(obj, dict):
        return {"t": "dict", "v": [[k, enc(obj[k])] for k in sorted(obj)]}
    if isinstance(obj, range):
        return {"t": "range", "v": [str(obj.start), str(obj.stop)]}
    raise TypeError(obj)


def dec(spec):
    """spec -> a fresh Python object (never shared)."""
    from decimal import Decimal

    from markupsafe import Markup

    t, v = spec["t"], spec.get("v")
    if t == "nil":
        return None
    if t == "bool":
        return bool(v)
    if t == "int":
        return int(v)
    if t == "float":
        if isinstance(v, str):
            return float(v)
        return int(v[0]) / int(v[1])
    if t == "dec":
        return Decimal(spec["s"])
    if t == "str":
        return "".join(v)  # a new str object
    if t == "markup":
        return Markup(v)
    if t == "list":
        return [dec(x) for x in v]
    if t == "dict":
        return {k: dec(x) for k, x in v}
    if t == "range":
        return range(int(v[0]), int(v[1]))
    raise ValueError(spec)


def mspec(spec):
    """spec as the Lean driver reads it (drops harness-only fields)."""
    t = spec["t"]
    if t == "list":
        return {"t": t, "v": [mspec(x) for x in spec["v"]]}
    if t == "dict":
        return {"t": t, "v": [[k, mspec(x)] for k, x in spec["v"]]}
    out = {"t": t}
    if "v" in spec:
        out["v"] = spec["v"]
    return out


def lit(src, spec):
    d = dict(spec)
    d["lit"] = src
    return d


def lattice():
    from decimal import Decimal as D

    from markupsafe import Markup

    inf = float("inf")
    objs = [
        None, True, False, 0, 1, -1, 2, 10**20, 0.0, 1.0, 1.5, 0.1, inf, -inf, float("nan"), 1e20,
        D("0"), D("1"), D("1.50"), D("0.1"),
        "", " ", " \t\n", "a", "abc", "b", "1", "true", "1.5", "[1]", Markup("abc"), Markup(""),
        [], [1], [True], [1, "a", None], ["a", "b"], [[1]], [[True]], [""], [1.0, 1.5],
        {}, {"a": 1}, {"": 1}, {"b": 2, "a": 1}, {"1": True},
        range(1, 4), range(0), range(5, 5), range(0, 4),
    ]
    vals = [enc(o) for o in objs]
    vals += [{"t": "undef"}, {"t": "empty"}, {"t": "blank"}]
    vals += [
        lit("nil", {"t": "nil"}), lit("true", {"t": "bool", "v": True}), lit("false", {"t": "bool", "v": False}),
        lit("1", {"t": "int", "v": "1"}), lit("1.5", enc(1.5)), lit("'abc'", {"t": "str", "v": "abc"}),
        lit("''", {"t": "str", "v": ""}), lit("(1..3)", {"t": "range", "v": ["1", "4"]}),
    ]
    return vals


TEXT = ("str", "markup")
NUM = ("int", "float", "dec")


def cls(spec):
    t = spec["t"]
    if t == "float" and isinstance(spec["v"], str):
        return "float_nan" if spec["v"] == "nan" else "float_inf"
    if t in TEXT:
        v = spec["v"]
        return t + ("_empty" if v == "" else "_blank" if v.isspace() else "")
    if t in ("list", "dict") and not spec["v"]:
        return t + "_empty"
    return t


def operand_src(spec, name):
    if "lit" in spec:
        return spec["lit"]
    t = spec["t"]
    if t in ("empty", "blank"):
        return t
    if t == "undef":
        return "nosuch_" + name
    return name


def bind(data, spec, name):
    if "lit" in spec or spec["t"] in ("empty", "blank", "undef"):
        return
    data[name] = dec(spec)


# ------------------------------------------------------------------------------------------------
# the property, stated directly (independent of the Lean model): documented result by type case
# ------------------------------------------------------------------------------------------------


def _norm(s):
    return {"t": "nil"} if s["t"] == "undef" else s


def _num(s):
    v = s["v"]
    if s["t"] == "int":
        return Fraction(int(v))
    if s["t"] == "float" and isinstance(v, str):
        return v
    return Fraction(int(v[0]), int(v[1]))


def _num_eq(x, y):
    if "nan" in (x, y):
        return False
    return x == y


def _num_lt(x, y):
    if "nan" in (x, y):
        return False
    if x == y:
        return False
    if x == "-inf" or y == "inf":
        return True
    if x == "inf" or y == "-inf":
        return False
    return x < y


def _range_items(s):
    return range(int(s["v"][0]), int(s["v"][1]))


def spec_eq(a, b, host_nested=False):
    """Liquid equality, deep. host_nested=True: items of containers compared the way Python does (True == 1)."""
    a, b = _norm(a), _norm(b)
    ta, tb = a["t"], b["t"]
    for x, y in ((a, b), (b, a)):
        if x["t"] == "empty":
            return y["t"] == "empty" or (y["t"] in TEXT and y["v"] == "") or (y["t"] in ("list", "dict") and not y["v"])
    for x, y in ((a, b), (b, a)):
        if x["t"] == "blank":
            return (
                y["t"] == "blank"
                or (y["t"] in TEXT and (y["v"] == "" or y["v"].isspace()))
                or (y["t"] in ("list", "dict") and not y["v"])
            )
    if ta == "nil" or tb == "nil":
        return ta == tb
    if ta == "bool" or tb == "bool":
        if ta == tb:
            return a["v"] == b["v"]
        if host_nested == "inner" and (ta in NUM or tb in NUM):
            x, y = (a, b) if ta == "bool" else (b, a)
            return _num_eq(Fraction(1 if x["v"] else 0), _num(y))
        return False
    if ta in NUM and tb in NUM:
        return _num_eq(_num(a), _num(b))
    if ta in TEXT and tb in TEXT:
        return a["v"] == b["v"]
    inner = "inner" if host_nested else False
    if ta == "list" and tb == "list":
        return len(a["v"]) == len(b["v"]) and all(spec_eq(x, y, inner) for x, y in zip(a["v"], b["v"]))
    if ta == "dict" and tb == "dict":
        return [k for k, _ in a["v"]] == [k for k, _ in b["v"]] and all(
            spec_eq(x[1], y[1], inner) for x, y in zip(a["v"], b["v"])
        )
    if ta == "range" and tb == "range":
        return list(_range_items(a)) == list(_range_items(b))
    return False


class TypeErr(Exception):
    pass


def spec_lt(a, b):
    a, b = _norm(a), _norm(b)
    if a["t"] in TEXT and b["t"] in TEXT:
        return a["v"] < b["v"]
    if a["t"] == "bool" or b["t"] == "bool":
        return False
    if a["t"] in NUM and b["t"] in NUM:
        return _num_lt(_num(a), _num(b))
    raise TypeErr()


def spec_truthy(a):
    a = _norm(a)
    return not (a["t"] == "nil" or (a["t"] == "bool" and a["v"] is False))


def spec_contains(a, b, host_str, host_nested=False):
    if not spec_truthy(a) or not spec_truthy(b):
        return False
    t = a["t"]
    if t in TEXT:
        tb = b["t"]
        if tb in TEXT:
            needle = b["v"]
        elif tb == "bool":
            needle = "true" if b["v"] else "false"
        elif tb == "int":
            needle = b["v"]
        elif tb in ("empty", "blank"):
            needle = ""
        else:
            needle = host_str
        return needle in a["v"]
    if t == "list":
        return any(spec_eq(x, b, host_nested) for x in a["v"])
    if t == "dict":
        return any(spec_eq({"t": "str", "v": k}, b, host_nested) for k, _ in a["v"])
    if t == "range":
        return any(spec_eq({"t": "int", "v": str(i)}, b, host_nested) for i in _range_items(a))
    raise TypeErr()


def spec_op(op, a, b, host_str="", host_nested=False):
    """-> True/False or raises TypeErr."""
    if op == "truthy":
        return spec_truthy(a)
    if op == "==":
        return spec_eq(a, b, host_nested)
    if op in ("!=", "<>"):
        return not spec_eq(a, b, host_nested)
    if op == "<":
        return spec_lt(a, b)
    if op == ">":
        return spec_lt(b, a)
    if op == "<=":
        return spec_eq(a, b, host_nested) or spec_lt(a, b)
    if op == ">=":
        return spec_eq(a, b, host_nested) or spec_lt(b, a)
    if op == "contains":
        return spec_contains(a, b, host_str, host_nested)
    raise ValueError(op)


def form_out(form, c):
    """what the template of `form` prints when its condition is c."""
    if form in ("if", "unless", "elsif", "unless-elsif", "ternary"):
        return "1" if c else "0"
    if form == "ternary-noelse":
        return "1" if c else ""
    raise ValueError(form)


FORMS = {
    "if": "{{% if {c} %}}1{{% else %}}0{{% endif %}}",
    "unless": "{{% unless {c} %}}0{{% else %}}1{{% endunless %}}",
    "elsif": "{{% if false %}}x{{% elsif {c} %}}1{{% else %}}0{{% endif %}}",
    "unless-elsif": "{{% unless true %}}x{{% elsif {c} %}}1{{% else %}}0{{% endunless %}}",
    "ternary": "{{{{ 1 if {c} else 0 }}}}",
    "ternary-noelse": "{{{{ 1 if {c} }}}}",
}

_ENVS: dict = {}


def get_env(allow_not=True, allow_parens=True, ternary=True):
    key = (allow_not, allow_parens, ternary)
    if key not in _ENVS:
        from liquid import Environment

        class Env(Environment):
            logical_not_operator = allow_not
            logical_parentheses = allow_parens
            ternary_expressions = ternary

        _ENVS[key] = Env()
    return _ENVS[key]


def default_env():
    if "default" not in _ENVS:
        from liquid import Environment

        _ENVS["default"] = Environment()
    return _ENVS["default"]


def run_template(env, src, data):
    from liquid.exceptions import LiquidError

    def one(is_async):
        try:
            t = env.from_string(src)
            if is_async:
                import asyncio

                return {"out": asyncio.run(t.render_async(**data))}
            return {"out": t.render(**data)}
        except LiquidError as e:
            return {"err": type(e).__name__}
        except Exception as e:  # a non-Liquid error escaping a condition
            return {"err": type(e).__name__}

    a = one(False)
    b = one(True)
    if a != b:
        # conditions must follow the same rules on the asynchronous path (added after seeded change C12-2)
        return {"err": "ASYNC-DIFFERS", "sync": a, "async": b}
    return a


def host_str_for(op, a, b):
    if op == "contains" and a["t"] in TEXT and b["t"] in ("float", "dec", "list", "dict", "range"):
        return str(dec(b))
    return ""


OPS = ["==", "!=", "<>", "<", ">", "<=", ">=", "contains"]


ALL_OPS = ["truthy"] + OPS


class OpsStream(Stream):
    """One case = (tag form, left value, right value); every operator is rendered for it (one template each)."""

    name = "ops"
    exhaustive = True
    parallel = True

    def cases(self, ctx):
        self.parallel = ctx.tier == "thorough"  # a process pool is unreliable on a loaded machine at quick sizes
        lat = lattice()
        out = []
        for a in lat:
            for b in lat:
                out.append({"form": "if", "a": a, "b": b})
        rng = ctx.rng_for("ops-forms")
        others = ["unless", "elsif", "unless-elsif", "ternary", "ternary-noelse", "case"]
        pairs = [(a, b) for a in lat for b in lat]
        for form in others:
            if ctx.tier == "thorough":
                chosen = pairs
            else:
                k = rng.range(0, 7)
                chosen = [p for i, p in enumerate(pairs) if i % 8 == k]
            for a, b in chosen:
                out.append({"form": form, "a": a, "b": b})
        return out

    def ops_of(self, case):
        return ["=="] if case["form"] == "case" else ALL_OPS

    def _template(self, case, op):
        a, b = case["a"], case["b"]
        A, B = operand_src(a, "a"), operand_src(b, "b")
        if case["form"] == "case":
            return "{% case " + A + " %}{% when " + B + " %}1{% else %}0{% endcase %}"
        c = A if op == "truthy" else f"{A} {op} {B}"
        return FORMS[case["form"]].format(c=c)

    def impl(self, case):
        env = get_env() if case["form"].startswith("ternary") else default_env()
        res = {}
        for op in self.ops_of(case):
            data: dict = {}
            bind(data, case["a"], "a")
            bind(data, case["b"], "b")
            r = run_template(env, self._template(case, op), data)
            res[op] = r["out"] if "out" in r else "E:" + r["err"]
        return res

    def line(self, case):
        hs = host_str_for("contains", case["a"], case["b"])
        return ["c12cond", case["form"], self.ops_of(case), mspec(case["a"]), mspec(case["b"]), hs]

    def canon_model(self, case, mobs):
        if isinstance(mobs, list):
            return {op: r for op, r in zip(self.ops_of(case), mobs)}
        return mobs

    def expected(self, case, op, host_nested=False):
        hs = host_str_for(op, case["a"], case["b"])
        try:
            c = spec_op(op, case["a"], case["b"], hs, host_nested)
        except TypeErr:
            return "E:LiquidTypeError"
        if case["form"] == "case":
            return "1" if c else "0"
        return form_out(case["form"], c)

    def oracle(self, case, obs):
        a, b = case["a"], case["b"]
        for op in self.ops_of(case):
            want, got = self.expected(case, op), obs.get(op)
            if got == want:
                continue
            if got == "E:InvalidOperation" and {cls(a), cls(b)} == {"dec", "float_nan"}:
                return ("lt|decimal-vs-float-nan|InvalidOperation", f"{cls(a)} {op} {cls(b)} raised decimal.InvalidOperation")
            if got == self.expected(case, op, host_nested=True):
                return ("eq|nested-bool-number-conflation", f"{operand_src(a,'a')} {op} {operand_src(b,'b')} with a={dec_repr(a)} b={dec_repr(b)}: items inside a container are compared with Python's ==, where True == 1: documented {want!r}, got {got!r}")
            return (f"ops|{op}|{cls(a)}|{cls(b)}|want={want}|got={got}", f"form {case['form']}: {operand_src(a,'a')} {op} {operand_src(b,'b')} with a={dec_repr(a)} b={dec_repr(b)} -> {got!r}, documented {want!r}")
        return None

    def nontrivial(self, case, obs):
        return True  # every case renders the ordering and membership operators

    def tags(self, case, obs):
        t = [case["form"], "classes:" + cls(case["a"]).split("_")[0] + "," + cls(case["b"]).split("_")[0]]
        t += ["res:" + ("err" if v.startswith("E:") else (v or "empty")) for v in sorted(set(obs.values()))]
        return t


def dec_repr(spec):
    if spec["t"] in ("empty", "blank", "undef"):
        return spec["t"]
    try:
        return repr(dec(spec))[:40]
    except Exception:
        return str(spec)[:40]


# ------------------------------------------------------------------------------------------------
# and / or / not / parenthesis trees
# ------------------------------------------------------------------------------------------------


def shapes(d):
    """all trees of depth <= d: 'x' | ('and'|'or', l, r) | ('not', t)"""
    cur = ["x"]
    for _ in range(d):
        nxt = ["x"]
        for l in cur:
            nxt.append(("not", l))
        for l in cur:
            for r in cur:
                nxt.append(("and", l, r))
                nxt.append(("or", l, r))
        cur = nxt
    return cur


def depth(t):
    return 0 if t == "x" or isinstance(t, int) else 1 + max(depth(c) for c in t[1:])


def number_leaves(t, nvars, counter=None):
    counter = counter if counter is not None else [0]
    if t == "x":
        i = counter[0]
        counter[0] += 1
        return i % nvars if nvars else i
    return (t[0],) + tuple(number_leaves(c, nvars, counter) for c in t[1:])


def print_tree(t, style):
    """tree with numbered leaves -> token list. style: full | min | flat"""
    if isinstance(t, int):
        return [t]
    if t[0] == "not":
        inner = print_tree(t[1], style)
        if style == "full" and not isinstance(t[1], int):
            return ["not", "("] + inner + [")"]
        return ["not"] + inner
    l, r = print_tree(t[1], style), print_tree(t[2], style)
    if style == "full":
        if not isinstance(t[1], int):
            l = ["("] + l + [")"]
        if not isinstance(t[2], int):
            r = ["("] + r + [")"]
    elif style == "min":
        if not isinstance(t[1], int):
            l = ["("] + l + [")"]
    return l + [t[0]] + r


class RDParser:
    """The documented grammar, written as plain recursive descent (independent of the Pratt model):
       L1 := L5 (('and'|'or') L1)? ; L5 := L6 (relop L5)? ; L6 := prefix ('contains' L6)? ;
       prefix := operand | '(' L1 ')' | 'not' L1 ; the whole input must be consumed."""

    REL = ("==", "!=", "<>", "<", ">", "<=", ">=")

    def __init__(self, toks, allow_not, allow_parens):
        self.t, self.i, self.an, self.ap = toks, 0, allow_not, allow_parens

    def cur(self):
        return self.t[self.i] if self.i < len(self.t) else None

    def l1(self):
        left = self.l5()
        if self.cur() in ("and", "or"):
            op = self.cur()
            self.i += 1
            return [op, left, self.l1()]
        return left

    def l5(self):
        left = self.l6()
        if self.cur() in self.REL:
            op = self.cur()
            self.i += 1
            return ["!=" if op == "<>" else op, left, self.l5()]
        return left

    def l6(self):
        left = self.prefix()
        if self.cur() == "contains":
            self.i += 1
            return ["contains", left, self.l6()]
        return left

    def prefix(self):
        c = self.cur()
        if isinstance(c, int):
            self.i += 1
            return c
        if c == "(" and self.ap:
            self.i += 1
            e = self.l1()
            if self.cur() != ")":
                raise SyntaxError("unbalanced")
            self.i += 1
            return e
        if c == "not" and self.an:
            self.i += 1
            return ["not", self.l1()]
        raise SyntaxError("primitive expected")

    def parse(self, inline=False):
        e = self.l1()
        if not inline and self.i != len(self.t):
            raise SyntaxError("trailing tokens")
        return e


def rd_parse(toks, allow_not=True, allow_parens=True):
    try:
        return RDParser(toks, allow_not, allow_parens).parse()
    except SyntaxError:
        return None


def eval_tree(e, vals, hs=None):
    """documented evaluation: and/or/not on truthiness with short circuit; comparisons by the spec table"""
    if isinstance(e, int):
        return vals[e]
    if e[0] == "and":
        a = eval_tree(e[1], vals, hs)
        if not spec_truthy(a):
            return {"t": "bool", "v": False}
        return {"t": "bool", "v": spec_truthy(eval_tree(e[2], vals, hs))}
    if e[0] == "or":
        a = eval_tree(e[1], vals, hs)
        if spec_truthy(a):
            return {"t": "bool", "v": True}
        return {"t": "bool", "v": spec_truthy(eval_tree(e[2], vals, hs))}
    if e[0] == "not":
        return {"t": "bool", "v": not spec_truthy(eval_tree(e[1], vals, hs))}
    a, b = eval_tree(e[1], vals, hs), eval_tree(e[2], vals, hs)
    h = hs[e[2]] if (hs and isinstance(e[2], int)) else ""
    return {"t": "bool", "v": spec_op(e[0], a, b, h)}


def toks_src(toks, names):
    out = []
    for t in toks:
        if isinstance(t, int):
            out.append(names[t])
        elif t == "junk":
            out.append(",")
        else:
            out.append(t)
    return " ".join(out)


TREE_FORMS = ["if", "unless", "elsif", "ternary"]


def random_shape(rng, d):
    if d == 0 or rng.range(0, 9) == 0:
        return "x"
    k = rng.range(0, 6)
    if k == 0:
        return ("not", random_shape(rng, d - 1))
    return ("and" if k % 2 else "or", random_shape(rng, d - 1), random_shape(rng, d - 1))


class TreesStream(Stream):
    name = "trees"
    exhaustive = True
    parallel = True

    def cases(self, ctx):
        self.parallel = ctx.tier == "thorough"  # a process pool costs more than it saves on the quick sizes
        out = []
        nvars = 3
        D = 3
        for i, sh in enumerate(shapes(D)):
            t = number_leaves(sh, nvars)
            for j, style in enumerate(("full", "min", "flat")):
                out.append({"flags": [True, True], "toks": print_tree(t, style), "n": nvars, "form": TREE_FORMS[(i + j) % 4], "style": style})
        if ctx.tier == "thorough":
            for i, sh in enumerate(shapes(2)):
                t = number_leaves(sh, 4)
                for style in ("full", "min", "flat"):
                    for form in TREE_FORMS:
                        out.append({"flags": [True, True], "toks": print_tree(t, style), "n": 4, "form": form, "style": style})
        # with `not` / parentheses switched off (the default environment)
        for i, sh in enumerate(shapes(2)):
            t = number_leaves(sh, nvars)
            for fl in ([False, False], [True, False], [False, True]):
                out.append({"flags": fl, "toks": print_tree(t, "min"), "n": nvars, "form": "if", "style": "min"})
        # depth 4, seeded
        rng = ctx.rng_for("trees4")
        n4 = ctx.scale(1500, 40000)
        seen = set()
        tries = 0
        while len(seen) < n4 and tries < n4 * 20:
            tries += 1
            sh = random_shape(rng, 4)
            if depth(sh) != 4 or sh in seen:
                continue
            seen.add(sh)
            t = number_leaves(sh, nvars)
            style = ("full", "min", "flat")[len(seen) % 3]
            out.append({"flags": [True, True], "toks": print_tree(t, style), "n": nvars, "form": TREE_FORMS[len(seen) % 4], "style": style})
        return out

    def impl(self, case):
        from liquid.exceptions import LiquidError

        n = case["n"]
        names = [f"v{i}" for i in range(n)]
        src = FORMS[case["form"]].format(c=toks_src(case["toks"], names))
        env = get_env(case["flags"][0], case["flags"][1])
        try:
            tpl = env.from_string(src)
        except LiquidError as e:
            return {"err": type(e).__name__}
        except Exception as e:
            return {"err": type(e).__name__}
        bits = []
        for k in range(2**n):
            data = {names[i]: bool((k >> (n - 1 - i)) & 1) for i in range(n)}
            try:
                bits.append(tpl.render(**data) or "_")
            except Exception as e:
                return {"err": type(e).__name__}
        return {"out": "".join(bits)}

    def line(self, case):
        return ["c12table", case["flags"], case["toks"], case["n"]]

    def oracle(self, case, obs):
        n = case["n"]
        e = rd_parse(case["toks"], case["flags"][0], case["flags"][1])
        if e is None:
            want = {"err": "LiquidSyntaxError"}
        else:
            bits = []
            for k in range(2**n):
                vals = [{"t": "bool", "v": bool((k >> (n - 1 - i)) & 1)} for i in range(n)]
                bits.append("1" if spec_truthy(eval_tree(e, vals)) else "0")
            want = {"out": "".join(bits)}
        if obs == want:
            return None
        kind = "syntax" if ("err" in obs) != ("err" in want) else "grouping"
        return (f"trees|{kind}|{case['style']}|{case['form']}", f"{toks_src(case['toks'], ['v%d' % i for i in range(n)])}: want {want}, got {obs}")

    def nontrivial(self, case, obs):
        ops = [t for t in case["toks"] if not isinstance(t, int)]
        return len([t for t in case["toks"] if isinstance(t, int)]) >= 3 or "not" in ops or "(" in ops

    def tags(self, case, obs):
        return [case["style"], case["form"], "flags:%d%d" % tuple(case["flags"]), "err" if "err" in obs else "ok",
                "operands:%d" % min(8, len([t for t in case["toks"] if isinstance(t, int)]))]


# ------------------------------------------------------------------------------------------------
# parser AST
# ------------------------------------------------------------------------------------------------

ATOM_SRC = ["v{i}", "x.y[{i}]", "{i}", "'s{i}'", "({i}..9)", "true", "nil", "empty", "blank", "1.5", "'a..b'", "false"]
CMP = ["==", "!=", "<>", "<", ">", "<=", ">=", "contains"]


def ast_json(expr, counter):
    from liquid.builtin.expressions import logical as L

    if isinstance(expr, L.BooleanExpression):
        return ast_json(expr.expression, counter)
    two = {
        L.LogicalAndExpression: "and", L.LogicalOrExpression: "or", L.EqExpression: "==", L.NeExpression: "!=",
        L.LtExpression: "<", L.GtExpression: ">", L.LeExpression: "<=", L.GeExpression: ">=", L.ContainsExpression: "contains",
    }
    for k, name in two.items():
        if type(expr) is k:
            l = ast_json(expr.left, counter)
            r = ast_json(expr.right, counter)
            return [name, l, r]
    if type(expr) is L.LogicalNotExpression:
        return ["not", ast_json(expr.right, counter)]
    i = counter[0]
    counter[0] += 1
    return i


class ParseStream(Stream):
    name = "parse"
    parallel = True

    def cases(self, ctx):
        self.parallel = ctx.tier == "thorough"  # a process pool costs more than it saves on the quick sizes
        out = []
        rng = ctx.rng_for("parse")
        # tree shapes with comparison leaves
        shs = shapes(2) + [s for s in shapes(3) if rng.range(0, ctx.scale(9, 1)) == 0]
        for sh in shs:
            t = number_leaves(sh, 0)
            for style in ("full", "min", "flat"):
                toks = []
                n = 0
                for tk in print_tree(t, style):
                    if isinstance(tk, int):
                        k = rng.range(0, 5)
                        if k <= 2:
                            toks.append(n); n += 1
                        elif k <= 4:
                            toks += [n, rng.choice(CMP), n + 1]; n += 2
                        else:
                            toks += [n, rng.choice(CMP), n + 1, rng.choice(CMP), n + 2]; n += 3
                    else:
                        toks.append(tk)
                out.append({"flags": [True, True], "toks": toks, "atoms": [rng.range(0, len(ATOM_SRC) - 1) for _ in range(n)]})
        # token soup
        pool = [0] * 8 + ["and", "or"] * 3 + ["not", "not", "(", "(", ")", ")", "(", ")"] + CMP + ["junk"]
        for _ in range(ctx.scale(4000, 60000)):
            toks = []
            n = 0
            for _ in range(rng.range(1, 9)):
                tk = rng.choice(pool)
                if tk == 0:
                    toks.append(n); n += 1
                else:
                    toks.append(tk)
            fl = rng.choice([[True, True], [True, True], [False, False], [True, False], [False, True]])
            out.append({"flags": fl, "toks": toks, "atoms": [rng.range(0, len(ATOM_SRC) - 1) for _ in range(n)]})
        return out

    def src(self, case):
        names = [ATOM_SRC[k].format(i=i) for i, k in enumerate(case["atoms"])]
        return toks_src(case["toks"], names)

    def impl(self, case):
        from liquid.builtin.expressions import BooleanExpression
        from liquid.builtin.expressions import tokenize
        from liquid.exceptions import LiquidError
        from liquid.stream import TokenStream
        from liquid.token import TOKEN_EXPRESSION
        from liquid.token import Token

        src = self.src(case)
        env = get_env(case["flags"][0], case["flags"][1])
        try:
            expr = BooleanExpression.parse(env, TokenStream(tokenize(src, parent_token=Token(TOKEN_EXPRESSION, src, 0, src))))
        except LiquidError as e:
            return {"err": type(e).__name__}
        except Exception as e:
            return {"err": type(e).__name__}
        return {"tree": ast_json(expr, [0])}

    def line(self, case):
        return ["c12parse", case["flags"], case["toks"]]

    def oracle(self, case, obs):
        e = rd_parse(case["toks"], case["flags"][0], case["flags"][1])
        want = {"err": "LiquidSyntaxError"} if e is None else {"tree": e}
        if obs == want:
            return None
        kind = "syntax" if ("err" in obs) != ("err" in want) else "shape"
        return (f"parse|{kind}", f"`{self.src(case)}`: grammar says {want}, parser built {obs}")

    def nontrivial(self, case, obs):
        return len(case["atoms"]) >= 3 or "not" in case["toks"] or "(" in case["toks"]

    def tags(self, case, obs):
        return ["err" if "err" in obs else "ok", "flags:%d%d" % tuple(case["flags"]), "len:%d" % min(12, len(case["toks"]))]


class MixedStream(Stream):
    """Trees whose operands are lattice values (not only booleans) and comparison leaves: truthiness of 0, '', [],
    empty, short-circuit hiding type errors."""

    name = "mixed"
    parallel = True

    def cases(self, ctx):
        self.parallel = ctx.tier == "thorough"  # a process pool costs more than it saves on the quick sizes
        rng = ctx.rng_for("mixed")
        lat = lattice()
        out = []
        for _ in range(ctx.scale(3000, 40000)):
            sh = random_shape(rng, rng.range(1, 3))
            t = number_leaves(sh, 0)
            toks, vals = [], []
            for tk in print_tree(t, rng.choice(["full", "min", "flat"])):
                if isinstance(tk, int):
                    if rng.range(0, 2) == 0:
                        toks += [len(vals), rng.choice(CMP), len(vals) + 1]
                        vals += [rng.choice(lat), rng.choice(lat)]
                    else:
                        toks.append(len(vals))
                        vals.append(rng.choice(lat))
                else:
                    toks.append(tk)
            out.append({"toks": toks, "vals": vals, "form": rng.choice(list(FORMS))})
        return out

    def _hs(self, case):
        # host str() of an operand, needed only when it is the right operand of `contains` under a string
        hs = []
        for v in case["vals"]:
            hs.append(str(dec(v)) if v["t"] in ("float", "dec", "list", "dict", "range") else "")
        return hs

    def impl(self, case):
        names, data = [], {}
        for i, v in enumerate(case["vals"]):
            names.append(operand_src(v, f"v{i}"))
            bind(data, v, f"v{i}")
        src = FORMS[case["form"]].format(c=toks_src(case["toks"], names))
        obs = run_template(get_env(), src, data)
        return obs

    def line(self, case):
        return ["c12eval", [True, True], case["toks"], [mspec(v) for v in case["vals"]], self._hs(case)]

    def canon_model(self, case, mobs):
        if isinstance(mobs, dict) and "out" in mobs:
            return {"out": form_out(case["form"], mobs["out"] == "1")}
        return mobs

    def oracle(self, case, obs):
        e = rd_parse(case["toks"])
        if e is None:
            want = {"err": "LiquidSyntaxError"}
        else:
            try:
                want = {"out": form_out(case["form"], spec_truthy(eval_tree(e, case["vals"], self._hs(case))))}
            except TypeErr:
                want = {"err": "LiquidTypeError"}
        if obs == want:
            return None
        if obs.get("err") == "InvalidOperation":
            return ("lt|decimal-vs-float-nan|InvalidOperation", "ordering a Decimal against a float NaN raised decimal.InvalidOperation")
        classes = sorted({cls(v) for v in case["vals"]})
        nested = any(v["t"] in ("list",) and any(x["t"] in ("list", "bool") for x in v["v"]) for v in case["vals"])
        if nested:
            return ("eq|nested-bool-number-conflation", f"want {want}, got {obs}")
        return (f"mixed|{case['form']}|{'+'.join(classes)[:60]}", f"want {want}, got {obs}")

    def nontrivial(self, case, obs):
        return len(case["vals"]) >= 2

    def tags(self, case, obs):
        return [case["form"], "res:" + (obs.get("err") or obs.get("out") or "empty")]


# ------------------------------------------------------------------------------------------------
# case / when
# ------------------------------------------------------------------------------------------------


class CaseStream(Stream):
    name = "case"
    parallel = True

    def cases(self, ctx):
        self.parallel = ctx.tier == "thorough"  # a process pool costs more than it saves on the quick sizes
        rng = ctx.rng_for("case")
        lat = lattice()
        out = []
        for _ in range(ctx.scale(3000, 40000)):
            subj = rng.choice(lat)
            blocks = []
            for _ in range(rng.range(1, 4)):
                if rng.range(0, 3) == 0:
                    blocks.append("else")
                else:
                    # bias towards values equal-ish to the subject so that matches happen
                    vs = []
                    for _ in range(rng.range(1, 3)):
                        vs.append(subj if rng.range(0, 3) == 0 else rng.choice(lat))
                    blocks.append({"vals": vs, "seps": [rng.choice([",", "or"]) for _ in vs[1:]]})
            out.append({"subj": subj, "blocks": blocks})
        return out

    def impl(self, case):
        data: dict = {}
        bind(data, case["subj"], "s")
        src = "{% case " + operand_src(case["subj"], "s") + " %}"
        k = 0
        for bi, b in enumerate(case["blocks"]):
            mark = "ABCDE"[bi]
            if b == "else":
                src += "{% else %}" + mark
                continue
            parts = []
            for i, v in enumerate(b["vals"]):
                name = f"w{k}"
                k += 1
                bind(data, v, name)
                parts.append(operand_src(v, name))
                if i < len(b["seps"]):
                    parts.append(b["seps"][i])
            src += "{% when " + " ".join(parts) + " %}" + mark
        src += "{% endcase %}"
        return run_template(default_env(), src, data)

    def line(self, case):
        bs = ["else" if b == "else" else [mspec(v) for v in b["vals"]] for b in case["blocks"]]
        return ["c12case", mspec(case["subj"]), bs]

    def canon_model(self, case, mobs):
        if isinstance(mobs, dict) and "counts" in mobs:
            return {"out": "".join("ABCDE"[i] * c for i, c in enumerate(mobs["counts"]))}
        return mobs

    def oracle(self, case, obs, host_nested=False):
        out, default = "", True
        for bi, b in enumerate(case["blocks"]):
            if b == "else":
                out += "ABCDE"[bi] if default else ""
            else:
                c = sum(1 for v in b["vals"] if spec_eq(case["subj"], v, host_nested))
                out += "ABCDE"[bi] * c
                if c:
                    default = False
        if obs == {"out": out}:
            return None
        if not host_nested and self.oracle(case, obs, True) is None:
            return ("eq|nested-bool-number-conflation", f"case/when: want {out!r}, got {obs}")
        return (f"case|{cls(case['subj'])}|want={out}|got={obs.get('out', obs.get('err'))}", f"want {out!r}, got {obs}")

    def nontrivial(self, case, obs):
        return len(case["blocks"]) >= 2

    def tags(self, case, obs):
        return ["blocks:%d" % len(case["blocks"]), "matched" if any(c in obs.get("out", "") for c in "ABCDE") else "nomatch"]


# ------------------------------------------------------------------------------------------------
# nested values: what == computes at depth, against recursive Liquid equality (deepening round)
# ------------------------------------------------------------------------------------------------


def _no_clash(a, b, top=True):
    """mirror of the Lean predicate noClashItems/noClash: no aligned pair of items puts a bool against a number"""
    ta, tb = a["t"], b["t"]
    if not top:
        if (ta == "bool" and tb in NUM) or (tb == "bool" and ta in NUM):
            return False
    if ta == "list" and tb == "list":
        return all(_no_clash(x, y, False) for x, y in zip(a["v"], b["v"]))
    if ta == "dict" and tb == "dict":
        return all(_no_clash(x[1], y[1], False) for x, y in zip(a["v"], b["v"]))
    return True


def _nan_free(a):
    if a["t"] == "float" and a["v"] == "nan":
        return False
    if a["t"] == "list":
        return all(_nan_free(x) for x in a["v"])
    if a["t"] == "dict":
        return all(_nan_free(x) for _, x in a["v"])
    return True


class NestedStream(Stream):
    """Pairs of randomly nested arrays/hashes (depth <= 4) that differ, if at all, in a few leaves: `a == b`
    through a real {% if %} and case/when against the model's _eq, and the model's recursive Liquid equality
    (deepEq) against the oracle's spec_eq; the theorems' predicates (noClash, nanFree) are recomputed here."""

    name = "nested"

    def cases(self, ctx):
        from decimal import Decimal as D

        rng = ctx.rng_for("nested")
        leaves = [None, True, False, 0, 1, 1.0, 0.0, 2, D("1"), D("0"), "a", "", "1", float("nan"), 1.5, [], {}]
        near = {1: [True, 1.0, D("1"), 2], True: [1, 1.0, D("1"), False], 0: [False, 0.0, D("0")], False: [0, 0.0, None],
                1.0: [True, 1], 0.0: [False, 0]}

        def gen(d):
            k = rng.range(0, 9)
            if d == 0 or k <= 3:
                return enc(rng.choice(leaves))
            if k <= 7:
                return {"t": "list", "v": [gen(d - 1) for _ in range(rng.range(0, 3))]}
            keys = sorted(set(rng.choice(["a", "b", "c", ""]) for _ in range(rng.range(0, 3))))
            return {"t": "dict", "v": [[kk, gen(d - 1)] for kk in keys]}

        def perturb(s):
            t = s["t"]
            if t == "list" and s["v"] and rng.range(0, 3):
                i = rng.below(len(s["v"]))
                return {"t": "list", "v": [perturb(x) if j == i else x for j, x in enumerate(s["v"])]}
            if t == "dict" and s["v"] and rng.range(0, 3):
                i = rng.below(len(s["v"]))
                return {"t": "dict", "v": [[k, perturb(x)] if j == i else [k, x] for j, (k, x) in enumerate(s["v"])]}
            if t in ("list", "dict"):
                return s
            try:
                o = dec(s)
                alts = near.get(o) if not isinstance(o, (list, dict)) and o == o else None
            except Exception:
                alts = None
            return enc(rng.choice(alts)) if alts else enc(rng.choice(leaves))

        out = []
        for _ in range(ctx.scale(2500, 30000)):
            a = gen(rng.range(1, 4))
            k = rng.range(0, 5)
            b = a if k == 0 else (gen(rng.range(1, 4)) if k == 1 else perturb(a if k < 4 else perturb(a)))
            out.append({"a": a, "b": b})
        return out

    def impl(self, case):
        data: dict = {}
        bind(data, case["a"], "a")
        bind(data, case["b"], "b")
        A, B = operand_src(case["a"], "a"), operand_src(case["b"], "b")
        r1 = run_template(default_env(), "{% if " + A + " == " + B + " %}1{% else %}0{% endif %}", data)
        data2: dict = {}
        bind(data2, case["a"], "a")
        bind(data2, case["b"], "b")
        r2 = run_template(default_env(), "{% if " + B + " == " + A + " %}1{% else %}0{% endif %}", data2)
        data3: dict = {}
        bind(data3, case["a"], "a")
        bind(data3, case["b"], "b")
        r3 = run_template(default_env(), "{% case " + A + " %}{% when " + B + " %}1{% else %}0{% endcase %}", data3)
        return {"eq": r1.get("out", r1.get("err")), "eq_rev": r2.get("out", r2.get("err")), "case": r3.get("out", r3.get("err")),
                "deep": spec_eq(case["a"], case["b"]), "noclash": _no_clash(case["a"], case["b"]), "nanfree": _nan_free(case["a"])}

    def line(self, case):
        return ["c12deep", mspec(case["a"]), mspec(case["b"])]

    def canon_model(self, case, mobs):
        if isinstance(mobs, dict) and "eq" in mobs:
            return {"eq": "1" if mobs["eq"] else "0", "eq_rev": "1" if mobs["eq_rev"] else "0", "case": "1" if mobs["eq"] else "0",
                    "deep": mobs["deep"], "noclash": mobs["noclash"], "nanfree": mobs["nanfree"]}
        return mobs

    def oracle(self, case, obs):
        want = "1" if obs["deep"] else "0"
        for k in ("eq", "eq_rev", "case"):
            if obs[k] != want:
                if obs[k] == ("1" if spec_eq(case["a"], case["b"], True) else "0") and not obs["noclash"]:
                    return ("eq|nested-bool-number-conflation", f"{k}: a={dec_repr(case['a'])} b={dec_repr(case['b'])}: documented {want}, got {obs[k]}")
                return (f"nested|{k}|want={want}|got={obs[k]}|noclash={obs['noclash']}", f"a={dec_repr(case['a'])} b={dec_repr(case['b'])}")
        if obs["eq"] != obs["eq_rev"]:
            return ("nested|asymmetric", f"a == b is {obs['eq']} but b == a is {obs['eq_rev']}: a={dec_repr(case['a'])} b={dec_repr(case['b'])}")
        return None

    def nontrivial(self, case, obs):
        return case["a"]["t"] in ("list", "dict") and case["b"]["t"] in ("list", "dict")

    def tags(self, case, obs):
        return ["eq:" + str(obs["eq"]), "deep:" + str(obs["deep"]), "noclash:" + str(obs["noclash"]), "same" if case["a"] == case["b"] else "differ"]


# ------------------------------------------------------------------------------------------------
# primitives the model defines: str.isspace, str <, substring
# ------------------------------------------------------------------------------------------------


class PrimStream(Stream):
    name = "prim"
    exhaustive = False

    def cases(self, ctx):
        out = [{"k": "space", "lo": lo, "hi": min(lo + 1024, 0x3100)} for lo in range(0, 0x3100, 1024)]
        rng = ctx.rng_for("prim")
        alpha = ["a", "b", "B", " ", "\t", "é", "ß", "1", "", "ab", "　", "z"]
        for _ in range(ctx.scale(600, 6000)):
            a = "".join(rng.choice(alpha) for _ in range(rng.range(0, 4)))
            b = "".join(rng.choice(alpha) for _ in range(rng.range(0, 6)))
            out.append({"k": rng.choice(["lt", "in"]), "a": a, "b": b})
        return out

    def impl(self, case):
        if case["k"] == "space":
            return [i for i in range(case["lo"], case["hi"]) if chr(i).isspace()]
        if case["k"] == "lt":
            return case["a"] < case["b"]
        return case["a"] in case["b"]

    def line(self, case):
        if case["k"] == "space":
            return ["c12space", case["lo"], case["hi"]]
        return ["c12str", case["k"], case["a"], case["b"]]

    def tags(self, case, obs):
        return [case["k"]]


def streams(ctx):
    return [OpsStream(), TreesStream(), ParseStream(), MixedStream(), CaseStream(), NestedStream(), PrimStream()]
