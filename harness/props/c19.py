"""C19 — static analysis reports everything a render can touch (liquid/static_analysis.py, liquid/ast.py,
include/render/for/macro tags)."""
from __future__ import annotations

from ..core import Stream

ID = "C19"
LEAN_MODULE = "LiquidVerif.Props.C19"
TRANSLATE = True
RULE = (
    "A case is a program: root source (named '' or 'main'), a pool of partial templates, an environment "
    "(extra tags on, strict or lax), and 3-4 data sets (one rendered through render_async). On the real code it is "
    "parsed, analysed with BoundTemplate.analyze() and rendered once per data set with the guarded trace hook on "
    "(LIQUID_VERIF=1): every RenderContext.get/get_async/resolve (root, token index, template, resolving "
    "namespace, enclosing dynamic include/render chain taken from the Python frames), every Filter.evaluate and "
    "every Node.render is recorded. Direct oracle (no Lean): every traced lookup is a reported Variable (root, "
    "span, path shape), every applied filter and rendered tag name is reported, and every lookup that resolved "
    "from render arguments/globals or not at all, at a reference that an independent reflection-based walk of the "
    "parsed AST finds neither inside a block binding the root nor preceded in source order by an assignment to it "
    "(include continues the including text, render sees only its arguments), has its root in analysis.globals. "
    "Model side: the tree of analysis interfaces of the parsed AST (partials expanded) goes to the Lean driver, "
    "which runs the model of _visit; compared: the five reported collections as multisets, that every traced event "
    "(with the Python-computed textual flag) is among the events the model's render can emit, and that the "
    "kernel-proved implications hypotheses -> sound (Hyp and the weaker hyp2b) hold on the instance, and that every "
    "reported variable/filter/tag span points at the item in the named template's source. Streams: corpus (hand-written witnesses), "
    "gen (own generator: nested for/tablerow, capture, assign, with, macro/call, case, if/unless, include/render "
    "with/for/as/arguments, partials reached several times from different scopes; 35% of cases reach every "
    "partial once, 30% repeat renders under one binding style with unique includes; measured: ~78% satisfy Hyp, "
    "~85% the weaker hyp2b), genprog (the shared all-tags generator). Non-trivial: at least one traced lookup "
    "inside a partial or with a non-empty dynamic chain or classified as bound, and at least two distinct roots."
)
TRUSTED_BASE = [
    "Lean 4.33 kernel; axioms subset of {propext, Classical.choice, Quot.sound}",
    "hand-written model LiquidVerif/Model/Analysis.lean: _visit over the analysis interface of nodes (seen map, "
    "just_globals, static scope stack, SHARED partials pushed on the root scope, ISOLATED fresh scope) and a "
    "choice-driven render that evaluates only expressions() and renders only children(), with include disabled "
    "below render/macro; partial templates are finite trees (recursive partial graphs are outside the model)",
    "tools/emitters/c19_node_exprs.py: for every Node subclass, the attributes render_to_output(_async) evaluates or "
    "renders versus what expressions()/children() yield (Python ast), re-decided by the kernel on every run",
    "harness/c19_impl.py: extraction of the interface tree from the parsed AST, the trace sink (dynamic partial "
    "chain from Python frames) and the reflection-based textual classification used by the direct oracle",
    "the guarded trace hook liquid/_verif.py (origin classification of a lookup walks the scope chain)",
]
ASSUMPTIONS = [
    "partial names are string literals and the partial graph is acyclic for the model side (other programs are "
    "checked by the direct oracle only)",
    "a render's set of events equals the event set of one choice-driven model run (each node/expression "
    "contributes independently); validated per case: every traced event is among the model's reachable events",
    "macros are called in the template that defines them (the hook reports the calling template's name)",
    "this tree has no lambda expressions (Expression.scope() is empty everywhere; a non-empty scope puts a case outside "
    "the model); template inheritance and snippet blocks are outside the model (direct oracle only)",
]
MANIFEST = {
    "technique": "Lean 4 proof (mutual structural induction over the expanded node tree, invariant: static scope "
    "agrees with the textual context) + translator-regenerated node/expression coverage table + differential "
    "correspondence of the analysis and trace-inclusion against real renders with a guarded trace hook",
    "text": "render_sub_reach: every event of any choice-driven render is reachable. analysis_sound_partial: if every "
    "partial name is reached once and no include sits below a render or macro body, every reachable lookup is a "
    "reported variable, every reachable filter and tag is reported, and every lookup at a reference neither "
    "inside a binding block nor preceded by an assignment has its root reported global (stages "
    "analysis_sound_nopartials, analysis_sound_include_partial, analysis_sound_render_partial). "
    "analysis_sound_keyed_partial: the same conclusion when rendered partials are reached any number of times, provided "
    "equal render keys (name, argument names) mean equal bound variables, included names are reached once and no "
    "include sits below a render/macro. analysis_reports_all: sentence 1 for any consistent acyclic tree. "
    "analysis_counterexample_*: kernel-decided witnesses that the full statement fails when a partial is reached "
    "twice from different scopes or an include sits below a render (replayed on the implementation as known "
    "findings). exprs_covered: every attribute a node's render evaluates/renders is yielded by "
    "expressions()/children().",
    "note": "Trusted: Lean kernel, the hand model of _visit and of what a render may touch (validated on every case: "
    "reported collections equal as multisets, traced events within the model's reachable events), the emitter, "
    "the harness and hook. The dynamic side is choice driven, not value driven; lookups' resolving namespace is "
    "observed on the implementation only (the theorem covers lookups of any origin).",
}

NAMES = ["a", "b", "c", "x", "y", "z", "u", "v"]
FILTERS0 = ["upcase", "size", "first", "join", "default", "downcase", "last", "strip"]
FILTERS1 = ["append", "default", "prepend", "plus", "join", "at_most"]


class Gen:
    def __init__(self, rng, nparts, nodup, back):
        self.rng = rng
        self.nparts = nparts
        self.nodup = nodup
        self.back = back
        self.unused = list(range(nparts))
        self.keyed = False  # renders may repeat, every render of a partial binds the same way, includes are unique
        self.style = {}
        self.rendered = set()
        self.included = set()
        self.macros = []
        self.mk = 0
        self.ternary = False

    def name(self):
        return self.rng.choice(NAMES)

    def path(self):
        r = self.rng
        p = self.name()
        k = r.below(10)
        if k < 5:
            return p
        if k < 7:
            return p + "." + r.choice(["id", "title", "k", "first", "size"])
        if k < 8:
            return p + "[" + self.name() + "]"
        if k < 9:
            return p + "[0]"
        return p + "." + r.choice(["id", "k"]) + "[" + self.name() + ".id]"

    def prim(self):
        r = self.rng
        k = r.below(10)
        if k < 7:
            return self.path()
        if k < 8:
            return str(r.choice([0, 1, 2, 7]))
        return "'" + r.choice(["", "s", "hi"]) + "'"

    def filtered(self):
        r = self.rng
        s = self.prim()
        for _ in range(r.choice([0, 0, 0, 1, 1, 2])):
            if r.chance(50):
                s += " | " + r.choice(FILTERS0)
            else:
                s += " | " + r.choice(FILTERS1) + ": " + self.prim()
        if self.ternary and r.chance(15):
            s += " if " + self.cond()
            if r.chance(70):
                s += " else " + self.prim()
                if r.chance(30):
                    s += " | " + r.choice(FILTERS0)
            if r.chance(30):
                s += " || " + r.choice(FILTERS0)
        return s

    def cond(self):
        r = self.rng
        k = r.below(8)
        if k < 3:
            return self.path()
        if k < 5:
            return self.path() + " " + r.choice(["==", "!=", "<", "contains"]) + " " + self.prim()
        if k < 7:
            return self.path() + " " + r.choice(["and", "or"]) + " " + self.path()
        return self.prim() + " == " + self.prim()

    def kwargs(self, lo=0):
        r = self.rng
        n = r.choice([lo, lo, 1, 1, 2])
        names = []
        out = []
        for _ in range(n):
            k = self.name()
            if k in names:
                continue
            names.append(k)
            out.append(k + ": " + self.prim())
        return out

    def partial_tag(self, level, isolated):
        r = self.rng
        # choose a target partial
        if self.back and r.chance(30):
            cands = list(range(self.nparts))
        else:
            cands = [i for i in range(self.nparts) if i > level]
        if self.nodup:
            cands = [i for i in cands if i in self.unused]
        if not cands:
            return "{{ " + self.filtered() + " }}"
        t = r.choice(cands)
        kind = "render" if (isolated and (self.nodup or self.keyed or r.chance(80))) or r.chance(45) else "include"
        if self.keyed:
            if t in self.included or (kind == "include" and t in self.rendered):
                kind = "render" if t in self.rendered else None
            if kind is None:
                return "{{ " + self.filtered() + " }}"
            (self.rendered if kind == "render" else self.included).add(t)
        if t in self.unused:
            self.unused.remove(t)
        s = "{% " + kind + " 'p" + str(t) + "'"
        k = r.below(10)
        if self.keyed and kind == "render":
            if t not in self.style:
                self.style[t] = None if r.chance(60) else (r.choice(["with", "for"]), self.name() if r.chance(60) else None)
            st = self.style[t]
            if st is not None:
                s += " " + st[0] + " " + self.path() + (" as " + st[1] if st[1] else "")
        elif k < 3:
            s += " " + r.choice(["with", "for"]) + " " + self.path()
            if r.chance(60):
                s += " as " + self.name()
        args = self.kwargs() if r.chance(55) else []
        if args:
            s += ", " + ", ".join(args)
        return s + " %}"

    def nodes(self, depth, level, isolated, budget):
        r = self.rng
        out = []
        n = r.choice([1, 2, 2, 3, 3, 4]) if depth > 0 else r.choice([3, 4, 5, 6])
        for _ in range(n):
            if budget[0] <= 0:
                break
            budget[0] -= 1
            k = r.below(100)
            deep = depth < 3
            if k < 8:
                out.append(r.choice(["t", " ", "<b>", "\n"]))
            elif k < 26:
                out.append("{{ " + self.filtered() + " }}")
            elif k < 29:
                out.append("{% echo " + self.filtered() + " %}")
            elif k < 39:
                out.append("{% assign " + self.name() + " = " + self.filtered() + " %}")
            elif k < 45 and deep:
                out.append("{% capture " + self.name() + " %}" + self.nodes(depth + 1, level, isolated, budget) + "{% endcapture %}")
            elif k < 55 and deep:
                s = "{% if " + self.cond() + " %}" + self.nodes(depth + 1, level, isolated, budget)
                if r.chance(30):
                    s += "{% elsif " + self.cond() + " %}" + self.nodes(depth + 1, level, isolated, budget)
                if r.chance(50):
                    s += "{% else %}" + self.nodes(depth + 1, level, isolated, budget)
                out.append(s + "{% endif %}")
            elif k < 58 and deep:
                out.append("{% unless " + self.cond() + " %}" + self.nodes(depth + 1, level, isolated, budget) + "{% endunless %}")
            elif k < 70 and deep:
                s = "{% for " + self.name() + " in " + self.path()
                if r.chance(20):
                    s += " limit: " + self.prim()
                if r.chance(10):
                    s += " reversed"
                s += " %}" + self.nodes(depth + 1, level, isolated, budget)
                if r.chance(30):
                    s += "{% else %}" + self.nodes(depth + 1, level, isolated, budget)
                out.append(s + "{% endfor %}")
            elif k < 72 and deep:
                out.append("{% tablerow " + self.name() + " in " + self.path() + " cols: 2 %}" + self.nodes(depth + 1, level, isolated, budget) + "{% endtablerow %}")
            elif k < 75 and deep:
                s = "{% case " + self.path() + " %}{% when " + self.prim() + " %}" + self.nodes(depth + 1, level, isolated, budget)
                if r.chance(50):
                    s += "{% else %}" + self.nodes(depth + 1, level, isolated, budget)
                out.append(s + "{% endcase %}")
            elif k < 80 and deep:
                args = self.kwargs(lo=1) or [self.name() + ": 1"]
                out.append("{% with " + ", ".join(args) + " %}" + self.nodes(depth + 1, level, isolated, budget) + "{% endwith %}")
            elif k < 84 and deep:
                self.mk += 1
                m = "m" + str(level + 1) + "_" + str(self.mk)
                params = []
                for _ in range(r.below(3)):
                    p = self.name()
                    if p not in [q.split(":")[0] for q in params]:
                        params.append(p + (": " + self.prim() if r.chance(40) else ""))
                body = self.nodes(depth + 1, level, True, budget)
                out.append("{% macro " + m + (" " + ", ".join(params) if params else "") + " %}" + body + "{% endmacro %}")
                self.macros.append((level, m))
            elif k < 88:
                ms = [m for (lv, m) in self.macros if lv == level]
                if ms:
                    args = [self.prim() for _ in range(r.below(3))] + self.kwargs()
                    out.append("{% call " + r.choice(ms) + (" " + ", ".join(args) if args else "") + " %}")
                else:
                    out.append("{{ " + self.filtered() + " }}")
            else:
                out.append(self.partial_tag(level, isolated))
        return "".join(out)


def gen_value(rng, depth=0):
    k = rng.below(10)
    if k < 3 and depth < 2:
        return [gen_value(rng, depth + 1) for _ in range(rng.choice([0, 1, 2, 2, 3]))]
    if k < 5:
        return {"id": rng.below(3), "title": rng.choice(["", "T", "x"]), "k": [1, 2] if rng.chance(50) else None}
    if k < 6:
        return rng.choice([0, 1, 2, 7])
    if k < 8:
        return rng.choice(["", "s", "hi"])
    if k < 9:
        return rng.chance(50)
    return None


def gen_case(rng, nodup=None, back=None):
    nparts = rng.choice([0, 1, 2, 2, 3, 3, 4])
    if nodup is None:
        nodup = rng.chance(35)
    if back is None:
        back = (not nodup) and rng.chance(8)
    g = Gen(rng, nparts, nodup, back)
    g.keyed = (not nodup) and (not back) and rng.chance(45)
    g.ternary = rng.chance(40)
    budget = [rng.choice([8, 14, 22, 30])]
    partials = {}
    # partials are generated from the deepest up so that `unused` bookkeeping sees every reference
    srcs = {}
    main = g.nodes(0, -1, False, budget)
    for i in range(nparts):
        g.macros = [m for m in g.macros if m[0] != i]
        srcs[i] = g.nodes(1, i, False, [rng.choice([3, 5, 8])])
    for i in range(nparts):
        partials["p" + str(i)] = srcs[i]
    runs = []
    for j in range(rng.choice([3, 3, 4])):
        data = {}
        for n in NAMES:
            if rng.chance(60 if j else 85):
                data[n] = gen_value(rng) if j or rng.chance(40) else [gen_value(rng, 1) for _ in range(rng.choice([1, 2, 3]))]
        runs.append({"data": data, "async": j == 1})
    return {
        "source": main,
        "partials": partials,
        "extra": True,
        # back references make recursive partial graphs: keep the render's recursion (and its fan-out) small
        "flags": dict({"ternary_expressions": True} if g.ternary else {}, **({"context_depth_limit": 4, "loop_iteration_limit": 200} if back else {})),
        "mode": rng.choice(["strict", "lax", "lax"]),
        "name": rng.choice(["", "", "main"]),
        "runs": runs,
        "async_analysis": rng.chance(25),
        "nodup": bool(nodup),
        "keyed": bool(g.keyed),
    }


def P(source, partials=None, runs=None, **kw):
    d = {"source": source, "partials": partials or {}, "extra": True, "flags": {}, "mode": "strict", "name": "",
         "runs": runs or [{"data": {"x": 5, "y": 6, "z": 7, "a": [1, 2], "b": {"id": 1}}}, {"data": {}}]}
    d.update(kw)
    return d


CORPUS = [
    # --- known findings (witnesses are re-executed on every run) ---
    P("{% for x in a %}{% include 'p' %}{% endfor %}{% include 'p' %}", {"p": "[{{ x }}]"}),
    P("{% include 'p', x: 1 %}{% include 'p' %}", {"p": "[{{ x }}]"}),
    P("{% render 'p' with a as y %}{% render 'p' with a as z %}", {"p": "[{{ y }}{{ z }}]"}),
    P("{% render 'iso' %}{{ x }}", {"iso": "{% if false %}{% include 'p' %}{% endif %}", "p": "{% assign x = 1 %}"}),
    P("{% for x in a %}{% render 'iso' %}{% endfor %}{% include 'p' %}",
      {"iso": "{% if false %}{% include 'p' %}{% endif %}", "p": "[{{ x }}]"}),
    # --- the design's second witness: not observable (include is disabled below render) ---
    P("{% assign x = 1 %}{% render 'iso' %}", {"iso": "{% include 'p' %}", "p": "[{{ x }}]"}, mode="lax"),
    # --- regressions / shapes ---
    P("{% assign x = x %}{{ x }}{% capture y %}{{ y }}{% endcapture %}{{ y }}"),
    P("{% for x in a %}{{ x }}{{ forloop.index }}{% else %}{{ x }}{% endfor %}{{ x }}"),
    P("{% with x: y, z: 1 %}{{ x }}{{ z }}{% endwith %}{{ z }}"),
    P("{% macro m x, u: y %}{{ x }}{{ u }}{{ z }}{{ args }}{% endmacro %}{% assign z = 1 %}{% call m 1 %}{% call m z, u: a %}"),
    P("{% assign z = 1 %}{% macro m %}{{ z }}{% endmacro %}{% call m %}"),
    P("{% render 'p', x: y %}{% render 'p', y: x %}{% render 'p', x: 1 %}", {"p": "[{{ x }}{{ y }}]"}),
    P("{% include 'p' %}{{ x }}", {"p": "{% if a %}{% assign x = 1 %}{% endif %}"}, name="main"),
    P("{% render 'p' for a as x %}{% include 'q' with b %}", {"p": "{{ x }}{{ forloop.index }}{{ y }}", "q": "{{ q.id }}{{ b }}"}),
    P("{{ a[b.id].k | append: y | default: z }}{% echo x | plus: y %}", flags={"ternary_expressions": True}),
    P("{{ x if y else z | upcase || append: a }}", flags={"ternary_expressions": True}),
    P("{% case x %}{% when y %}{{ a }}{% when 5 %}{{ z }}{% else %}{{ b }}{% endcase %}"),
    P("{% tablerow x in a cols: y %}{{ x }}{{ tablerowloop.col }}{% endtablerow %}"),
    P("{% include 'p' %}", {"p": "{% include 'p' %}{{ x }}"}, mode="lax"),
    P("{% if x %}{{ y }}{% elsif z %}{{ a }}{% else %}{{ b }}{% endif %}{% unless x %}{{ c }}{% endunless %}"),
    P("{% liquid assign q = x\necho q | append: y %}{% cycle x, y %}{% ifchanged %}{{ z }}{% endifchanged %}"),
]


def _impl():
    from .. import c19_impl

    return c19_impl


class ProgStream(Stream):
    name = "prog"
    parallel = True
    has_model = True

    def impl(self, case):
        return _impl().observe(case)

    def line_obs(self, case, obs):
        if obs.get("tree") is None:
            return None
        evs = [["get", g["root"], g["tmpl"], g["pos"], bool(g["exc"])] for g in obs["gets"] if g["exc"] is not None and not g.get("dynroot")]
        evs += [["filter", f[0]] for f in obs["filters"]] + [["tag", t[0]] for t in obs["tags"]]
        return ["c19analyze", case.get("name", ""), obs["tree"], evs]

    def compare_view(self, case, obs):
        an = obs["an"]
        return {"variables": an["variables"], "globals": an["globals"], "locals": an["locals"], "filters": an["filters"],
                "tags": an["tags"], "unreached": [], "theorem_instance": True, "theorem2_instance": True, "first_sentence_instance": True, "partial_keys_as_modelled": bool(obs.get("keys_ok", True))}

    def canon_model(self, case, mobs):
        if not isinstance(mobs, dict) or "error" in mobs:
            return mobs
        return {
            "variables": sorted(mobs["variables"]),
            "globals": sorted(mobs["globals"]),
            "locals": sorted(mobs["locals"]),
            "filters": sorted(mobs["filters"]),
            "tags": sorted(mobs["tags"]),
            "unreached": mobs["unreached"],
            "theorem_instance": (not mobs["hyp"]) or mobs["sound"],
            "theorem2_instance": (not mobs["hyp2"]) or mobs["sound"],
            "first_sentence_instance": mobs["first"],
            "partial_keys_as_modelled": True,
        }

    def oracle(self, case, obs):
        return _impl().direct_oracle(obs)

    def nontrivial(self, case, obs):
        if obs.get("an") is None:
            return False
        gets = obs["gets"]
        roots = {g["root"] for g in gets}
        return len(roots) >= 2 and any(g["tmpl"] != case.get("name", "") or g["chain"] or g["exc"] for g in gets)

    def tags(self, case, obs):
        t = []
        if obs.get("parse") != "ok":
            return ["parse:" + str(obs.get("parse"))]
        if obs.get("an") is None:
            return ["analysis-error:" + str(obs.get("an_err"))]
        t.append("model:" + ("yes" if obs.get("tree") is not None else "outside:" + str(obs.get("outside"))))
        t.append("partials-reached:" + str(min(4, sum((obs.get("sites") or {}).values()))))
        if any(v > 1 for v in (obs.get("sites") or {}).values()):
            t.append("partial-reached-twice")
        if obs.get("include_under_isolation"):
            t.append("include-under-isolation")
        gets = obs["gets"]
        t.append("lookups:" + ("0" if not gets else "1-5" if len(gets) <= 5 else "6-20" if len(gets) <= 20 else "21+"))
        for o in sorted({g["origin"] for g in gets}):
            t.append("origin:" + o)
        if any(g["exc"] for g in gets if g["origin"] in ("global", "missing")):
            t.append("global-read-at-bound-reference")
        if any(len(g["chain"]) >= 2 for g in gets):
            t.append("chain-depth>=2")
        for r in sorted(set(obs.get("runs") or [])):
            t.append("render:" + r)
        t.append("tags-rendered:" + str(min(8, len({x[0] for x in obs["tags"]}))))
        t.append("filters-applied:" + str(min(6, len({x[0] for x in obs["filters"]}))))
        if obs.get("resolves"):
            t.append("resolve-events")
        return t


class CorpusStream(ProgStream):
    name = "corpus"
    parallel = False
    exhaustive = False

    def cases(self, ctx):
        return list(CORPUS)


class GenStream(ProgStream):
    name = "gen"

    def cases(self, ctx):
        self.parallel = ctx.tier == "thorough"  # a few hundred cases run faster in-process than through a pool
        rng = ctx.rng_for("gen")
        return [gen_case(rng) for _ in range(ctx.scale(500, 5000))]


class GenProgStream(ProgStream):
    name = "genprog"

    def cases(self, ctx):
        from ..gen.templates import gen_data, gen_program

        self.parallel = ctx.tier == "thorough"
        rng = ctx.rng_for("genprog")
        out = []
        for _ in range(ctx.scale(150, 1500)):
            p = gen_program(rng, extra=True, inherit=False)
            out.append({
                "source": p["source"], "partials": p["partials"], "extra": True, "flags": p.get("flags") or {},
                "mode": rng.choice(["strict", "lax"]), "name": "",
                "runs": [{"data": p["data"]}, {"data": gen_data(rng), "async": True}, {"data": {}}],
            })
        return out


def streams(ctx):
    return [CorpusStream(), GenStream(), GenProgStream()]
