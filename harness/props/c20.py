"""C20 — reported locations point at the reported item
(liquid/lex.py, builtin/expressions/_tokenize.py, builtin/tags/liquid_tag.py, span.py, exceptions.py,
static_analysis.py, analyze_tags.py)."""
from __future__ import annotations

import re

from ..core import Stream
from ..gen import delim_pieces as dp

ID = "C20"
LEAN_MODULE = "LiquidVerif.Props.C20"
TRANSLATE = True
RULE = (
    "exprlex: expression strings (generated filtered expressions / conditions / loop expressions, the same with 1-4 "
    "random character edits, and strings of lexically awkward fragments) tokenised by the real tokenize() with a parent "
    "token at a random base offset, compared with the Lean scanner token by token (kind, value, start) and match by "
    "match (every _RE match incl. white space). liquidlines: bodies of {% liquid %} tags (random indentation, CR/LF, "
    "blank lines, comment lines, illegal lines) through the real _tokenize_liquid_expression for eight comment-marker "
    "configurations. liquidparse: whole templates with a {% liquid %} tag whose body has LF, CRLF or mixed line endings "
    "through Environment.from_string with the tag's tokenizer wrapped by a recorder: the text LiquidTag.parse hands to "
    "the tokenizer must be the expression token's text, every inner token must slice in the TEMPLATE source, and the "
    "recorded inner tokens are compared with the Lean line scanner run on (token text, token start). errctx: texts over every str.splitlines boundary, every index 0..len+1 through _error_context and "
    "Span.line_col. lexspans: piece-level templates assembled with default and custom delimiters through the real "
    "lexer, token start offsets compared with the model. charclass: every code point (surrogates excluded): \\d \\w \\s, the SKIP class and the splitlines "
    "boundaries. spans (no model): generated multi-line programs with liquid tags, nested paths, "
    "filters and partials, with LF / CRLF / mixed line endings and lone CRs, through BoundTemplate.analyze, "
    "analyze_async, Environment.analyze_tags_from_string, analyze_tags and analyze_tags_async (the last two through a "
    "loader); every reported Span is sliced in the NAMED template's source. errors: malformed sources (also malformed partials reached at render time): str(err) "
    "must not raise and the error must carry an index inside its own source; the model's detailed_message "
    "classification (bare / located line:col / raises) is compared. Non-trivial: exprlex >= 3 tokens or an error; "
    "liquidlines >= 2 inner tokens; errctx text with >= 2 lines; spans: >= 5 spans of which one beyond the first line or "
    "in a partial; errors: an error was raised."
)
TRUSTED_BASE = [
    "Lean 4.33 kernel; axioms subset of {propext, Classical.choice, Quot.sound}",
    "hand-written scanners LiquidVerif/Model/ExprLex.lean (the _RE alternation of _tokenize.py, rule order preserved), Model/LiquidLines.lean (liquid-tag line rules), Model/LexDelims.lean (piece-level template lexer with group offsets), Model/ErrCtx.lean (splitlines / _error_context / Span.line_col)",
    "tools/emitters/c20_rules.py: dumps _rules, _keywords, operators and the liquid-tag rule patterns of the tree under test into Gen/C20Tables.lean; `rules_pinned` re-decides on every run that they are the ones the scanners were written against",
    "correspondence harness harness/props/c20.py + Driver/C20.lean, Driver/C11.lean (`lex`)",
    "Python `re` semantics (backtracking order, `\\b`, `$`, DOTALL) and str.splitlines / str.isspace — modelled, validated match by match by the streams; character classes above U+00FF come from the interpreter's Unicode database via tools/emitters/c20_unicode.py",
    "the parsers and static analysis hand the lexer's token.start_index through unchanged: that is observed (stream spans), not modelled",
]
MANIFEST = {
    "technique": "Lean 4 proof (hand scanners that consume characters + induction that arithmetic offsets equal consumed lengths; totality of the error-context search) + differential correspondence match by match + direct slicing oracle on generated programs and malformed sources",
    "text": "token_span_correct / scan_tiles: for every expression string and every base offset each token's start index, computed by arithmetic as in tokenize(), is where the token's text sits in the source; same for the liquid-tag line scanner (liquid_tag_offsets) and, at piece level, for tag names / expressions / output statements of the template lexer under any delimiters (template_span_correct), and for the block-comment token, whose value is the source text at its start index (comment_token_span_correct). error_context_total: for every text and 0 <= i < len the search returns the line containing i with the right column, and splitlines pieces concatenate to the text; detailed_message_total: a token with an index inside its source always formats. negative_index_formats_bare: a token with index -1 (the old shared EOF sentinel) formats without position - fixed in the tree, stream errors now finds every parse error located.",
    "note": "Trusted: Lean kernel, the hand scanners (validated match by match against `re`), emitter for the rule tables, harness. Parser and analysis code that carries start_index from tokens to Spans is covered by the direct oracle only. Character classes above U+00FF are a generated table of the interpreter's Unicode database, compared with `re` on every code point.",
}
ASSUMPTIONS = [
    "character classes above U+00FF are those of the interpreter's Unicode database (table regenerated every run, compared with `re` on every code point)",
    "spans of variables whose root is written in brackets (['a'], [x]) point at the opening bracket; the oracle accepts the bracket form of the reported root",
    "errors raised at the end of a token stream used to carry index -1 (finding position|eof-token, fixed in the tree); the oracle still names that signature should it come back",
]

ALPH = list("abxyn_019 \t\n.,:|()[]'\"-<>=!?#$&%{}/\\") + ["\xe9", "\xb2", "\xa0", "\x85", "\r", "\x0c", "\u03bb", "\u540d", "\u0661", "\u2003", "\u2028", "\U0001d7d8", "\u0301", "\u20ac"]
FRAGS = ["..", ".", "(", ")", "[", "]", "'", '"', "-", "1", "12", "3.", ".5", "1.5", "a", "a-b", "x?", "||", "|", "<", ">", "=", "!", "<>",
         "=<", " ", "\n", "\t", ",", ":", "é", "²", "$", "#", "&", "[0]", "[ -1 ]", "[ 'k' ]", "['a\"]", '["b"]', "(1..3)",
         "('a'..b)", "(x)", "and", "or", "not", "contains", "true", "nil", "12a", "-3", "-3.", "1..2", "a.b", "a[b]", "\r", " "]

FRAGS += ["\u03bb\u03bc", "x\u0661", "\u0661\u0662", "\u0661.\u0665", "\u2003", "\u540d\u524d", "e\u0301", "\u20ac", "\U0001d7d8", "[\u2003'k'\u2003]", "-\u0663"]


def gen_expr(rng):
    from ..gen.templates import Gen, gen_flags

    k = rng.below(10)
    if k < 7:
        g = Gen(rng, extra=rng.chance(50), flags=gen_flags(rng))
        e = rng.choice([g.filtered, g.condition, lambda: "i in " + "".join(g.loop_expr()), g.filtered])()
        if k >= 4:
            for _ in range(rng.range(1, 4)):
                pos = rng.below(len(e) + 1)
                op = rng.below(3)
                if op == 0:
                    e = e[:pos] + rng.choice(ALPH) + e[pos:]
                elif op == 1 and e:
                    e = e[:pos] + e[pos + 1 :]
                else:
                    e = e[:pos] + rng.choice(FRAGS) + e[pos:]
        return e
    return "".join(rng.choice(FRAGS) for _ in range(rng.range(1, 12)))


def slice_ok(src, rel, kind, value):
    """The direct statement: the token's text sits at `rel` in `src`."""
    if rel < 0 or rel > len(src):
        return False
    if kind == "string":
        return rel < len(src) and src[rel] in "'\"" and src[rel + 1 : rel + 1 + len(value)] == value and src[rel + 1 + len(value) : rel + 2 + len(value)] == src[rel]
    if kind == "identstring":
        m = re.compile(r"\[\s*([\"'])").match(src, rel)
        return bool(m) and src[m.end() : m.end() + len(value)] == value
    if kind == "identindex":
        m = re.compile(r"\[\s*").match(src, rel)
        return bool(m) and src[m.end() : m.end() + len(value)] == value
    return src[rel : rel + len(value)] == value


class ExprLexStream(Stream):
    name = "exprlex"
    parallel = False  # cheap per case; a 16-process pool costs more than it saves

    def cases(self, ctx):
        rng = ctx.rng_for("exprlex")
        fixed = ["", "a", "a.b.c", "(1..3)", "('(..' .. x)", "(a)", "((1..2))", "[0]", "[ 'a' ]x", "['a'b']", "'x", "1.", "1..2", "-1.5.",
                 "12abc", "a-b?", "<>=!", "=>", "a||b", "a | f: 'x', y", "x² 1²", "(')..' .. 1)", "(\"..", "(1.\n.2)", "-", "- 1", "a\r\nb"]
        out = [{"base": 0, "src": s} for s in fixed]
        for _ in range(ctx.scale(2500, 60000)):
            out.append({"base": rng.choice([0, 0, 3, 17, 250]), "src": gen_expr(rng)})
        return out

    def impl(self, case):
        from liquid.builtin.expressions._tokenize import _RE, tokenize
        from liquid.exceptions import LiquidSyntaxError
        from liquid.token import Token

        src, base = case["src"], case["base"]
        parent = Token("expression", src, base, "§" * base + src)
        toks, err = [], None
        try:
            for t in tokenize(src, parent):
                toks.append([t.kind, t.value, t.start_index])
                if t.source is not parent.source:
                    err = ["SOURCE", "", -1]
        except LiquidSyntaxError as e:
            err = [e.token.kind, e.token.value, e.token.start_index]
        raw = [[m.start(), m.group()] for m in _RE.finditer(src)]
        return {"tokens": toks, "error": err, "raw": raw}

    def line(self, case):
        return ["exprlex", case["base"], case["src"]]

    def canon_model(self, case, mobs):
        return dp.unwrap(mobs)

    def oracle(self, case, obs):
        src, base = case["src"], case["base"]
        last = -1
        for kind, value, start in obs["tokens"] + ([obs["error"]] if obs["error"] else []):
            rel = start - base
            if not slice_ok(src, rel, kind, value):
                return (f"exprlex|{kind}|offset", f"token {kind} {value!r} reported at {start} (base {base}) but source there is {src[max(rel,0):max(rel,0)+12]!r}")
            if rel <= last:
                return ("exprlex|order", f"token starts not increasing at {start}")
            last = rel
        return None

    def nontrivial(self, case, obs):
        return len(obs["tokens"]) >= 3 or obs["error"] is not None

    def tags(self, case, obs):
        t = ["error" if obs["error"] else "ok", f"base{'0' if case['base'] == 0 else '>0'}"]
        kinds = {k for k, _, _ in obs["tokens"]}
        for k in ("string", "identstring", "identindex", "rangeexpression", "float"):
            if k in kinds:
                t.append(k)
        return t


MARKERS = ["", "{#", "{//", "<!--", "{{#", "{", "ab", "{if"]


def gen_liquid_body(rng, marker_text):
    from ..gen.templates import Gen, gen_flags

    g = Gen(rng, flags=gen_flags(rng))
    lines = []
    for _ in range(rng.range(1, 8)):
        k = rng.below(12)
        ind = rng.choice(["", "  ", "\t", " \t "])
        trail = rng.choice(["", "", " ", "\r", " \t\r", "  "])
        if k < 5:
            body = rng.choice([f"assign {rng.choice(['a', 'b'])} = {g.filtered()}", f"echo {g.filtered()}", f"if {g.condition()}", "endif", "else",
                               f"for q in {g.loop_expr()[0]}", "endfor", "break", f"cycle {g.primary()}, 2", "increment n"])
        elif k < 7:
            body = marker_text + rng.choice(["", " note", " if x", "note"])
        elif k == 7:
            body = ""
        elif k == 8:
            body = rng.choice(["?", "- x", "| y", "'s'", "écho 1", "x² y", "_t 1", "9 lives", "\u03bbx 1", "echo \u540d | f", "\u0661 2", "\u2003echo 1", "echo\u2003x"])
        elif k == 9:
            body = "echo" + rng.choice(["", "  ", "\t"]) + rng.choice(["1", "'a b'  ", "x | upcase"])
        else:
            body = rng.choice(["echo 1", "# plain hash", "#", "liquid", "raw", "comment"])
        lines.append(ind + body + trail)
    sep = rng.choice(["\n", "\n", "\r\n", "\n\n", "\n \n" if rng.chance(10) else "\n"])
    return sep.join(lines) + rng.choice(["", "\n", " ", "\r\n"])


class LiquidLinesStream(Stream):
    name = "liquidlines"
    parallel = False  # cheap per case; a 16-process pool costs more than it saves

    def cases(self, ctx):
        rng = ctx.rng_for("liquidlines")
        out = []
        for cs in MARKERS:
            for s in ["", "echo 1", "echo 1\n", "  \n", "\n\necho 1", "echo 1 \r\n\r\nif x\r\n", "# c\necho 2", "echo  'a  b'  \t", "aé 1", "\r", " \r\n x"]:
                out.append({"cs": cs, "base": 0, "src": s})
        for _ in range(ctx.scale(1200, 30000)):
            cs = rng.choice(MARKERS)
            mk = cs.replace("{", "") or "#"
            out.append({"cs": cs, "base": rng.choice([0, 10, 99]), "src": gen_liquid_body(rng, mk)})
        return out

    def impl(self, case):
        from liquid import Environment
        from liquid.exceptions import LiquidSyntaxError
        from liquid.token import Token

        cs = case["cs"]
        env = _lines_env(cs)
        src, base = case["src"], case["base"]
        tok = Token("expression", src, base, "§" * base + src)
        toks, err = [], False
        try:
            for t in env.tags["liquid"]._tokenize(src, token=tok):
                toks.append([t.kind, t.value, t.start_index])
        except LiquidSyntaxError as e:
            err = True
            if e.token is not tok:
                toks.append(["ERRTOKEN", "", -1])
        return {"tokens": toks, "error": err}

    def line(self, case):
        return ["liquidlines", case["cs"], case["base"], case["src"]]

    def canon_model(self, case, mobs):
        return dp.unwrap(mobs)

    def oracle(self, case, obs):
        src, base = case["src"], case["base"]
        for kind, value, start in obs["tokens"]:
            rel = start - base
            if rel < 0 or src[rel : rel + len(value)] != value:
                return (f"liquidlines|{kind}|offset", f"inner token {kind} {value!r} reported at {start} (base {base}); source there is {src[max(rel,0):max(rel,0)+12]!r}")
        return None

    def nontrivial(self, case, obs):
        return len(obs["tokens"]) >= 2

    def tags(self, case, obs):
        return ["marker=" + (case["cs"] or "off"), "error" if obs["error"] else "ok"]


class LiquidParseStream(Stream):
    """A whole template with a {% liquid %} tag through Environment.from_string: what LiquidTag.parse hands to
    its line tokenizer and the inner tokens it gets back, recorded by wrapping the tag's tokenizer."""

    name = "liquidparse"

    def cases(self, ctx):
        rng = ctx.rng_for("liquidparse")
        out = []
        for cs in ("", "{#", "{//"):
            for body in ("echo 1\r\necho 2", "if x\r\n  echo 'a'\r\nendif\r\n", "assign a = 1\n\r\necho a\r", "echo 1\recho 2", "echo 1 \r\n\r\n echo b | upcase\n"):
                out.append({"cs": cs, "pre": "x\r\n", "open": "{% liquid ", "body": body, "close": "%}", "post": "\ny"})
        for _ in range(ctx.scale(500, 20000)):
            cs = rng.choice(["", "", "{#", "{//"])
            mk = cs.replace("{", "") or "#"
            body = gen_liquid_body(rng, mk)
            style = rng.below(4)
            if style == 1:
                body = body.replace("\r\n", "\n").replace("\n", "\r\n")
            elif style == 2:
                body = "".join((rng.choice(["\n", "\r\n"]) if c == "\n" else c) for c in body)
            if "%}" in body or "{{" in body or "{%" in body or (cs and (cs in body or "#}" in body or "//}" in body)):
                continue
            out.append({"cs": cs, "pre": rng.choice(["", "text ", "a\r\nb ", "é\n\n", "{{ x }}\r\n"]), "open": "{%" + rng.choice(["", "-"]) + rng.choice([" ", "\n", "\r\n  "]) + "liquid" + rng.choice([" ", "\n", "\r\n", "\n  "]),
                        "body": body, "close": rng.choice(["", " ", "\n", "\r\n"]) + rng.choice(["", "-"]) + "%}", "post": rng.choice(["", " tail", "\r\n{{ y }}"])})
        return out

    def impl(self, case):
        from liquid import Environment
        from liquid.exceptions import LiquidError, LiquidSyntaxError

        cs = case["cs"]
        env = Environment(template_comments=bool(cs), comment_start_string=cs or "{#", comment_end_string={"": "#}", "{#": "#}", "{//": "//}"}[cs])
        tag = env.tags["liquid"]
        orig = tag._tokenize
        calls = []

        def recording(source, token):
            rec = {"given": source, "expr": [token.value, token.start_index], "inner": [], "error": False}
            calls.append(rec)
            try:
                for t in orig(source, token=token):
                    rec["inner"].append([t.kind, t.value, t.start_index])
                    yield t
            except LiquidSyntaxError:
                rec["error"] = True
                raise

        tag._tokenize = recording
        src = case["pre"] + case["open"] + case["body"] + case["close"] + case["post"]
        parse = "ok"
        try:
            env.from_string(src)
        except LiquidError as e:
            parse = type(e).__name__
        return {"source": src, "calls": calls[:1], "parse": parse}

    def line_obs(self, case, obs):
        if not obs["calls"]:
            return None
        c = obs["calls"][0]
        return ["liquidlines", case["cs"], c["expr"][1], c["expr"][0]]

    def compare_view(self, case, obs):
        c = obs["calls"][0]
        return {"tokens": c["inner"], "error": c["error"]}

    def canon_model(self, case, mobs):
        return dp.unwrap(mobs)

    def oracle(self, case, obs):
        src = obs["source"]
        for c in obs["calls"]:
            value, start = c["expr"]
            if src[start : start + len(value)] != value:
                return ("liquidparse|expression|offset", f"the liquid tag's expression token is reported at {start} but the source there is {src[start:start+12]!r}")
            if c["given"] != value:
                return ("liquidparse|body-not-token-text", "LiquidTag.parse tokenises a text that is not the expression token's text, so inner offsets (token.start_index + offset in that text) do not index the source")
            for kind, v, st in c["inner"]:
                if src[st : st + len(v)] != v:
                    return (f"liquidparse|{kind}|offset", f"inner token {kind} {v!r} reported at {st}; the template source there is {src[st:st+12]!r}")
        return None

    def nontrivial(self, case, obs):
        return bool(obs["calls"]) and len(obs["calls"][0]["inner"]) >= 2 and "\n" in obs["calls"][0]["expr"][0]

    def tags(self, case, obs):
        body = case["body"]
        t = ["crlf" if "\r\n" in body else "lf", "parse:" + obs["parse"], "marker=" + (case["cs"] or "off")]
        if not obs["calls"]:
            t.append("no_body")
        return t


_LINES_ENVS: dict = {}


def _lines_env(cs):
    env = _LINES_ENVS.get(cs)
    if env is None:
        from liquid import Environment

        env = Environment(template_comments=bool(cs), comment_start_string=cs or "{#", comment_end_string="#}")
        _LINES_ENVS[cs] = env
    return env


BREAKS = ["\n", "\r\n", "\r", "\x0b", "\x0c", "\x1c", "\x1d", "\x1e", "\x85", "\u2028", "\u2029", "\n\n", "\n\r", "\r\r\n"]
LINE_FRAGS = ["\u2003", "\u540d\u3000", "\U0001d7d8 ", "", "a", "ab c", "  x", "x  ", "\t", "{% if x %}", "{{ y }}", "éé", "  ", "\x1f", "0123456789"]
_BREAK_RE = re.compile("\r\n|[\n\r\x0b\x0c\x1c\x1d\x1e\x85\u2028\u2029]")


def independent_line_col(text, i):
    line, start = 1, 0
    for m in _BREAK_RE.finditer(text):
        if m.end() <= i:
            line += 1
            start = m.end()
        else:
            break
    return line, i - start


class ErrCtxStream(Stream):
    name = "errctx"
    parallel = False  # cheap per case; a 16-process pool costs more than it saves

    def cases(self, ctx):
        rng = ctx.rng_for("errctx")
        out = [{"text": t} for t in ["", "a", "\n", "a\n", "a\nb", "\r\n", "a\r\nb\r\n", "\n\n\n", "a\rb", "x\x0by", " "]]
        for _ in range(ctx.scale(250, 8000)):
            t = ""
            for _ in range(rng.range(0, 6)):
                t += rng.choice(LINE_FRAGS) + (rng.choice(BREAKS) if rng.chance(75) else "")
            out.append({"text": t})
        return out

    def impl(self, case):
        from liquid.exceptions import LiquidError
        from liquid.span import Span

        text = case["text"]
        e = LiquidError("m", token=None)
        ctxs, lcs = [], []
        for i in range(len(text) + 2):
            try:
                ctxs.append(list(e._error_context(text, i)))
            except ValueError:
                ctxs.append("ValueError")
            try:
                lcs.append(list(Span("t", i).line_col(text)))
            except ValueError:
                lcs.append("ValueError")
        return {"lines": text.splitlines(keepends=True), "ctx": ctxs, "line_col": lcs}

    def line(self, case):
        return ["errctx", case["text"], list(range(len(case["text"]) + 2))]

    def canon_model(self, case, mobs):
        return dp.unwrap(mobs)

    def compare_view(self, case, obs):
        return {"lines": obs["lines"], "ctx": obs["ctx"]}

    def oracle(self, case, obs):
        text = case["text"]
        for i, c in enumerate(obs["ctx"]):
            lc = obs["line_col"][i]
            if i < len(text):
                if c == "ValueError" or lc == "ValueError":
                    return ("errctx|raises-in-range", f"index {i} of a text of length {len(text)} has no context")
                exp = list(independent_line_col(text, i))
                if c[:2] != exp or lc != exp:
                    return ("errctx|linecol", f"index {i}: expected line/col {exp}, _error_context {c[:2]}, Span.line_col {lc}")
                if text[i] not in "\r\n" and text[i] not in c[3] and not text[i].isspace():
                    return ("errctx|line-text", f"index {i}: character {text[i]!r} not in reported line {c[3]!r}")
        if "".join(obs["lines"]) != text:
            return ("errctx|lines", "splitlines pieces do not concatenate to the text")
        return None

    def nontrivial(self, case, obs):
        return len(obs["lines"]) >= 2

    def tags(self, case, obs):
        return [f"lines{min(len(obs['lines']), 5)}"]


class CharClassStream(Stream):
    """Every code point (surrogates excluded): the model's classifiers against `re` / `str.splitlines`."""

    name = "charclass"
    exhaustive = True
    BLOCK = 2048

    def cases(self, ctx):
        out = []
        for a in range(0, 0x110000, self.BLOCK):
            if 0xD800 <= a < 0xE000:
                continue
            out.append({"from": a, "to": a + self.BLOCK})
        return out

    def impl(self, case):
        cps = range(case["from"], case["to"])
        text = "".join(chr(cp) for cp in cps)
        sets = [set(re.findall(pat, text)) for pat in (r"\d", r"\w", r"\s", r"[ \n\t\r]")]
        return [[chr(cp) in sets[0], chr(cp) in sets[1], chr(cp) in sets[2], chr(cp) in sets[3], len(("a" + chr(cp) + "b").splitlines()) == 2] for cp in cps]

    def line(self, case):
        return ["charclass", list(range(case["from"], case["to"]))]

    def nontrivial(self, case, obs):
        return any(any(r) for r in obs)


# ---- piece-level template lexer offsets ------------------------------------------------------------
def gen_pieces(rng, comments=False, liquid_comments=False):
    """A structured piece list (not necessarily a valid template: the lexer does not care)."""
    from ..gen.templates import Gen, gen_flags

    g = Gen(rng, flags=gen_flags(rng))
    ws = lambda: rng.choice(["", " ", " ", "  ", "\n", "\t ", "\r\n  "])
    ws1 = lambda: rng.choice([" ", " ", "  ", "\n", "\t"])
    texts = ["x", "text ", " ", "\n", "  a b\n  c ", "Hello, ", "<b>", "é ", "- ", "  ", "\n\n", "a\n", "} {", "% x", "end\n", "\u2003 wide \u2003", "\u540d\u524d\u3000", "\u03bb\u2028"]
    out = []
    depth = 0
    for _ in range(rng.range(1, 9)):
        k = rng.below(20)
        if k < 5:
            out.append(["text", rng.choice(texts)])
        elif k < 9:
            e = g.filtered() if rng.chance(90) else ""
            out.append(["out", rng.chance(25), ws(), e, ws() if e else "", rng.chance(25)])
        elif k < 15:
            name, e = rng.choice([("if", g.condition()), ("endif", ""), ("else", ""), ("assign", "a = " + g.filtered()), ("echo", g.filtered()),
                                  ("for", "i in " + g.loop_expr()[0]), ("endfor", ""), ("#", "note here"), ("", ""), ("comment", ""), ("endcomment", ""),
                                  ("endcomment", "x"), ("comment", "y"), ("nosuch", "a b"), ("liquid", "echo 1\n  assign x = 2"), ("break", "")])
            out.append(["tag", rng.chance(25), ws(), name, (ws1() if e else (ws() if name else "")), e, (ws() if e else ""), rng.chance(25)])
        elif k < 17:
            kind = rng.choice(["raw", "doc"])
            body = rng.choice(["", " {{ raw }} {% x %} ", "plain", "\n a \n", "{% raw %}", "{# c #}"])
            out.append([kind, rng.chance(25), ws(), ws(), rng.chance(25), body, rng.chance(25), ws(), ws(), rng.chance(25)])
        elif k < 19 and comments:
            out.append(["sc", rng.choice([" note ", "", "- lead", " {% if %} {{ x }} ", "\n"]), rng.chance(30)])
        else:
            out.append(["text", rng.choice(texts)])
    return dp.normalize([p for p in dp.normalize(out) if dp.piece_wf(p)])


def real_lex(d, src):
    from liquid import Environment
    from liquid.exceptions import LiquidSyntaxError

    env = Environment(tag_start_string=d[0], tag_end_string=d[1], statement_start_string=d[2], statement_end_string=d[3],
                      template_comments=bool(d[4]), comment_start_string=d[4] or "{#", comment_end_string=d[5] or "#}")
    toks, err = [], None
    try:
        for t in env.tokenizer()(src):
            toks.append([t.kind, t.value, t.start_index])
    except LiquidSyntaxError as e:
        err = [e.token.kind, e.token.value, e.token.start_index]
    return toks, err


class LexSpansStream(Stream):
    name = "lexspans"
    parallel = False  # cheap per case; a 16-process pool costs more than it saves

    def cases(self, ctx):
        rng = ctx.rng_for("lexspans")
        out = []
        for _ in range(ctx.scale(1000, 30000)):
            comments = rng.chance(40)
            ps = gen_pieces(rng, comments)
            if not ps:
                continue
            if rng.chance(35):
                d = dp.DEFAULT_COMMENTS if comments else dp.DEFAULT
                if dp.collides(d, ps):
                    d = None
            else:
                d = dp.gen_delims(rng, [ps], comments)
            if d is None:
                continue
            out.append({"d": d, "pieces": ps})
        return out

    def impl(self, case):
        src = dp.assemble(case["d"], case["pieces"])
        toks, err = real_lex(case["d"], src)
        return {"source": src, "tokens": toks, "error": err}

    def line(self, case):
        return ["lex", case["d"], dp.for_driver(case["d"], case["pieces"])]

    def canon_model(self, case, mobs):
        return dp.unwrap(mobs)

    def oracle(self, case, obs):
        src = obs["source"]
        for kind, value, start in obs["tokens"]:
            if kind in ("tag", "expression", "output", "comment") and src[start : start + len(value)] != value:
                return (f"lexspans|{kind}|offset", f"token {kind} {value!r} reported at {start}; source there is {src[start:start+12]!r}")
        return None

    def nontrivial(self, case, obs):
        return sum(1 for t in obs["tokens"] if t[0] in ("tag", "expression")) >= 2

    def tags(self, case, obs):
        t = ["default" if case["d"][:4] == dp.DEFAULT[:4] else "custom", "comments" if case["d"][4] else "nocomments"]
        if obs["error"]:
            t.append("error")
        if any(k == "comment" for k, _, _ in obs["tokens"]):
            t.append("blockcomment")
        return t


# ---- spans reported by analysis --------------------------------------------------------------------
def gen_multiline_program(rng):
    from ..gen.templates import Gen, gen_program

    prog = gen_program(rng, max_depth=rng.choice([2, 3]))
    # make it multi-line: text pieces get line breaks, tags get inner line breaks
    def eol(text, r, style):
        """Rewrite the LF line breaks of `text`: CRLF, or each one independently LF / CRLF."""
        if style == "lf":
            return text
        if style == "crlf":
            return text.replace("\n", "\r\n")
        return "".join((r.choice(["\n", "\r\n"]) if c == "\n" else c) for c in text)

    def spread(src, r):
        out = []
        style = r.choice(["lf", "lf", "crlf", "mixed", "mixed"])  # per template
        for p in dp.split_source(src):
            if p[0] == "text" and r.chance(50):
                p = ["text", p[1] + r.choice(["\n", "\r\n", "\n\n  ", "é\n", "\r", "\r\r\n", "\n\r"])]
            elif p[0] == "tag" and p[3] == "liquid":
                # line endings inside {% liquid %}: LF, CRLF or mixed; a lone CR only as trailing white space
                p = [*p[:4], eol(p[4], r, style), eol(p[5], r, style), eol(p[6], r, style) + r.choice(["", "", "\r", "\r\n"]), p[7]]
            elif p[0] == "tag" and p[3] != "#" and r.chance(30):
                p = [*p[:2], r.choice(["\n", "\n  ", " ", "\r\n", "\r"]), *p[3:]]
            elif p[0] == "out" and r.chance(30):
                p = [p[0], p[1], r.choice(["\n ", "  ", "\r\n ", "\r"]), *p[3:]]
            out.append(p)
        if r.chance(45):
            lines = ["assign zz = a | append: 'q' | upcase", "if zz and user.name", "  echo user.name | downcase", "  for w in items", "    echo w | size",
                     "  endfor", "endif", "capture cc", "echo x[y.z]['k'] | default: n", "endcapture"]
            body = eol("\n  ".join(lines), r, style)
            out.append(["tag", False, " ", "liquid", eol("\n  ", r, style), body, eol("\n", r, style), False])
        return dp.assemble(dp.DEFAULT, dp.normalize(out))

    try:
        prog["source"] = spread(prog["source"], rng)
        prog["partials"] = {k: spread(v, rng) for k, v in prog["partials"].items()}
    except ValueError:
        pass
    return prog


def span_ok(src, index, name, root_is_path=False):
    """The reported index is where the reported name is written (bracketed roots: at the bracket)."""
    if not (0 <= index < len(src)):
        return False
    if src.startswith(name, index):
        return True
    if src[index] == "[":
        m = re.compile(r"\[\s*([\"'])").match(src, index)
        if m and src.startswith(name, m.end()):
            return True
        if root_is_path:
            return True
    return False


class SpansStream(Stream):
    name = "spans"
    has_model = False
    parallel = False  # cheap per case; a 16-process pool costs more than it saves

    def cases(self, ctx):
        rng = ctx.rng_for("spans")
        return [{"prog": gen_multiline_program(rng)} for _ in range(ctx.scale(250, 6000))]

    def impl(self, case):
        from liquid.exceptions import LiquidError

        from ..impl.render import make_env

        prog = case["prog"]
        srcs = dict(prog["partials"])
        srcs["main"] = prog["source"]
        from liquid import DictLoader

        env = make_env(prog, loader=DictLoader(dict(srcs)))
        try:
            t = env.from_string(prog["source"], name="main")
        except LiquidError as e:
            return {"parse_error": type(e).__name__, "spans": [], "bad": []}
        spans, bad = [], []

        def chk(kind, name, span, root_is_path=False):
            src = srcs.get(span.template_name)
            rec = [kind, name, span.template_name, span.index]
            spans.append(rec)
            if src is None:
                bad.append(rec + ["unknown-template"])
            elif not span_ok(src, span.index, name, root_is_path):
                bad.append(rec + ["at " + repr(src[span.index : span.index + 12]) if 0 <= span.index < len(src) else "out-of-range"])
            else:
                try:
                    lc = span.line_col(src)
                except ValueError:
                    bad.append(rec + ["line_col-raises"])

        from ..impl.render import run_async

        analyses = []
        for api, fn in (("analyze", lambda: t.analyze(include_partials=True)), ("analyze_async", lambda: run_async(lambda: t.analyze_async(include_partials=True)))):
            try:
                analyses.append((api, fn()))
            except LiquidError:
                analyses.append((api, None))
        for api, a in analyses:
            if a is None:
                continue
            for kind, m in (("variables", a.variables), ("globals", a.globals), ("locals", a.locals)):
                for vs in m.values():
                    for v in vs:
                        root = v.segments[0]
                        chk(f"{api}.{kind}", str(root) if not isinstance(root, list) else "[", v.span, isinstance(root, list))
            for k, ss in a.filters.items():
                for s in ss:
                    chk(f"{api}.filters", k, s)
            for k, ss in a.tags.items():
                for s in ss:
                    chk(f"{api}.tags", k, s)

        def chk_tags(api, ta):
            for label, m in (("all_tags", ta.all_tags), ("tags", ta.tags), ("unclosed", ta.unclosed_tags), ("unexpected", ta.unexpected_tags), ("unknown", ta.unknown_tags)):
                for k, ss in m.items():
                    for s in ss:
                        chk(f"{api}.{label}", k, s)

        for nm, src in srcs.items():
            chk_tags("analyze_tags_from_string", env.analyze_tags_from_string(src, name=nm))
            # through the loader (the Span must name the template the loader resolved)
            for api, fn in (("analyze_tags", lambda: env.analyze_tags(nm)), ("analyze_tags_async", lambda: run_async(lambda: env.analyze_tags_async(nm)))):
                try:
                    chk_tags(api, fn())
                except LiquidError:
                    bad.append([api, nm, nm, -1, "loader-raises"])
        multiline = sum(1 for s in spans if s[2] != "main" or "\n" in srcs["main"][: s[3]])
        crlf = any("\r" in v for v in srcs.values())
        return {"n": len(spans), "later_or_partial": multiline, "bad": bad[:5], "kinds": sorted({s[0] for s in spans}), "analysis": analyses[0][1] is not None, "cr": crlf}

    def oracle(self, case, obs):
        if obs.get("bad"):
            b = obs["bad"][0]
            return (f"spans|{b[0]}|{'mismatch' if b[4].startswith('at ') else b[4]}", f"{b[0]} {b[1]!r} reported at {b[2]!r}:{b[3]} — {b[4]}")
        return None

    def nontrivial(self, case, obs):
        return obs.get("n", 0) >= 5 and obs.get("later_or_partial", 0) >= 1

    def tags(self, case, obs):
        if "parse_error" in obs:
            return ["parse_error"]
        return ["analysed" if obs["analysis"] else "analysis_error", "has_CR" if obs.get("cr") else "LF_only"] + sorted({"api:" + k.split(".")[0] for k in obs["kinds"]})


# ---- parse errors ------------------------------------------------------------------------------------
def gen_malformed(rng):
    from ..gen.templates import gen_program, malform

    prog = gen_multiline_program(rng) if rng.chance(50) else gen_program(rng)
    where = "main"
    if prog["partials"] and rng.chance(30):
        where = rng.choice(sorted(prog["partials"]))
    src = prog["source"] if where == "main" else prog["partials"][where]
    for _ in range(rng.choice([1, 1, 2])):
        src = malform(rng, src)
    if rng.chance(15):
        src += rng.choice(["{% liquid\n echo 1\n  \n echo 2 %}", "{% liquid ? %}", "{% liquid\nif x\n%}", "{{ a ! b }}", "{{ 'x }}", "{% if a =! b %}{% endif %}",
                           "{% for %}", "\n\n{% endfor %}", "{% assign x = %}", "{{ a[ }}", "{% case %}", "{{ (1.. }}", "{%", "{{", "{% raw %}", "{% comment %}"])
    if where == "main":
        prog["source"] = src
    else:
        prog["partials"][where] = src
        prog["source"] = prog["source"] + "{% render '" + where + "' %}{% include '" + where + "' %}"
    prog["where"] = where
    return prog


class ErrorsStream(Stream):
    name = "errors"
    parallel = False  # cheap per case; a 16-process pool costs more than it saves

    def cases(self, ctx):
        rng = ctx.rng_for("errors")
        return [{"prog": gen_malformed(rng)} for _ in range(ctx.scale(500, 20000))]

    def impl(self, case):
        import warnings

        from liquid.exceptions import LiquidError

        from ..impl.render import make_env

        prog = case["prog"]
        srcs = dict(prog["partials"])
        srcs["main"] = prog["source"]
        env = make_env(prog)
        err = None
        try:
            with warnings.catch_warnings():
                warnings.simplefilter("ignore")
                t = env.from_string(prog["source"], name="main")
                try:
                    t.render(**prog["data"])
                except LiquidError as e:
                    # only parse-time errors of partials: their message says so by class
                    if type(e).__name__ in ("LiquidSyntaxError", "TemplateInheritanceError") and e.token is not None and e.token.source != prog["source"]:
                        err = e
                except Exception:  # a non-Liquid error escaping a render is C02's subject, not a parse error
                    pass
        except LiquidError as e:
            err = e
        except RecursionError:
            return {"err": None}
        if err is None:
            return {"err": None}
        tok = err.token
        rec = {"err": type(err).__name__, "has_token": tok is not None}
        try:
            s = str(err)
            rec["str"] = "ok"
            rec["msg_has_pos"] = bool(re.search(r"\d+:\d+", s))
        except Exception as e2:  # the property: must not happen
            rec["str"] = type(e2).__name__
        if tok is not None:
            rec["index"] = tok.start_index
            rec["kind"] = tok.kind
            which = [k for k, v in srcs.items() if v == tok.source]
            rec["source_of"] = which[0] if which else ("empty" if tok.source == "" else "other")
            rec["source"] = tok.source
            try:
                c = err.context()
                rec["ctx"] = None if c is None else [c[0], c[1]]
            except ValueError:
                rec["ctx"] = "ValueError"
        return rec

    def line_obs(self, case, obs):
        if obs.get("err") is None or not obs.get("has_token"):
            return None
        return ["fmt", obs["source"], obs["index"]]

    def compare_view(self, case, obs):
        if obs["str"] != "ok" or obs["ctx"] == "ValueError":
            return "raises"
        if obs["ctx"] is None:
            return "bare"
        return ["located"] + obs["ctx"]

    def oracle(self, case, obs):
        if obs.get("err") is None:
            return None
        if obs["str"] != "ok":
            return (f"errors|str-raises-{obs['str']}", f"str() of {obs['err']} raised {obs['str']}")
        if not obs["has_token"]:
            return (f"position|no-token|{obs['err']}", f"{obs['err']} carries no token")
        if obs["index"] < 0:
            return ("position|eof-token" if obs["kind"] == "end of expression" else f"position|negative|{obs['kind']}",
                    f"{obs['err']} raised on token {obs['kind']!r} with index {obs['index']}: no position")
        if obs["source_of"] in ("other", "empty"):
            return ("position|foreign-source", f"{obs['err']} token source is not a template of the program")
        if obs["index"] >= len(obs["source"]):
            return ("position|out-of-range", f"index {obs['index']} outside its source of length {len(obs['source'])}")
        if obs["ctx"] in (None, "ValueError") or not obs.get("msg_has_pos"):
            return ("errors|no-line-col", "formatted message has no line:col")
        if obs["ctx"] != list(independent_line_col(obs["source"], obs["index"])):
            return ("errors|linecol", f"line/col {obs['ctx']} do not locate index {obs['index']}")
        return None

    def nontrivial(self, case, obs):
        return obs.get("err") is not None

    def tags(self, case, obs):
        if obs.get("err") is None:
            return ["no_error"]
        t = [obs["err"], "in:" + ("partial" if obs.get("source_of") not in ("main", None) else "main")]
        if obs.get("has_token"):
            t.append("pos" if obs["index"] >= 0 else "nopos")
            if obs["index"] >= 0 and "\n" in obs["source"][: obs["index"]]:
                t.append("beyond_line1")
        return t


def streams(ctx):
    return [CharClassStream(), ExprLexStream(), LiquidLinesStream(), LiquidParseStream(), ErrCtxStream(), LexSpansStream(), SpansStream(), ErrorsStream()]
